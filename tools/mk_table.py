#!/usr/bin/env python3
"""Prints one markdown table row per property from /verif/evidence/*.json (what the last run of each check covered)."""
import json, os, sys
ev = os.path.join(os.path.dirname(os.path.dirname(os.path.abspath(__file__))), 'evidence')
for i in range(1, 21):
    pid = 'C%02d' % i
    try:
        d = json.load(open(os.path.join(ev, pid + '.json')))
    except Exception as e:
        print('| %s | missing | | |' % pid)
        continue
    cov = d.get('coverage', {})
    q = cov.get('queries_by_verdict', {})
    keys = ['instances', 'conditions', 'confirmed', 'symbolic_confirmed', 'enumerative_confirmed', 'inconclusive', 'unsat', 'sat', 'valid', 'big_points', 'big_inconclusive',
            'rebuilt_twice', 'rebuilt_after_other_calls', 't_unsat', 'process_sweep_commands', 'cwd_sweep_commands', 'enumerated_networkx_roundtrips']
    print('| %s | decided=%s; %s | %s s solver, %s s wall |' % (pid, cov.get('queries_decided'), ', '.join('%s=%s' % (k, q[k]) for k in keys if k in q),
                                                                 round(cov.get('solver_s', 0)), round(d.get('wall_s', 0))))
