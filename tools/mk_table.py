#!/usr/bin/env python3
"""Prints one markdown table row per property from /verif/evidence/*.json (what the last run of each check covered)."""
import json, os, sys
WHAT = {
 'C01': ('S', 'pigeonhole/matching/counting families: `Enc xor Spec` unsat per instance, sat/unsat and model counts against independent criteria; networkx (also objects with a past)/grown/with-a-past graph variants; rebuild after the caller edited graphs handed out by the public constructors; threshold points; determinism after other calls'),
 'C02': ('S', 'graph families (ramlb with k != s up to 5) incl. the exists-projection for dominating set and Tseitin with every charge vector (non-boolean charges too); K10/K11 parities'),
 'C03': ('S + T', 'contradictions by per-schema entailment, Pitfall on every regular graph, Ramsey/vdW/Pythagorean by equivalence; T: progression bounds for all N'),
 'C04': ('X sym + S + T', 'builders with an unbounded symbolic constant; mapping builders (unary, sparse, binary) incl. ranges up to 33; caller edits `forbid()` results; several mappings in one formula; T: thresholds for all n'),
 'C05': ('S', '(formula, transformation) pairs against the documented gadget; compression with reused graph objects; arities up to 17'),
 'C06': ('X enum', 'writer/reader round trips, 3-line menu texts, separators, 0..4097 clauses, two reads in one process, encode-extend-encode (incl. clause-free growth), files by name (byte-level FS)'),
 'C07': ('X sym + sweeps', 'self-composition of 53 command lines (incl. lattice/shift + random modifier), library generators, 24 library calls on equal-but-distinct objects, dense requests under non-MT seeded streams; auxiliary PYTHONHASHSEED and working-directory sweeps'),
 'C08': ('S', 'CNF-vs-OPB equivalence for every family point, every shared sub-command (incl. dimacs files), seeded random command lines, threshold points'),
 'C09': ('X enum + RNG stub', 'all RNG outcomes for 12 formulas x 8 switch combinations x 3 entry points; explicit arguments as list/tuple/range, one explicit component mixed with random/fixed ones; independence of result and input'),
 'C10': ('X enum + monitor', 'histories of 2-3 steps incl. bulk insertion, lazy clause generators that allocate variables, reuse of passed lists; monitored runs of the S boxes'),
 'C11': ('T + X sym + enum', 'T: index arithmetic for unbounded sizes; X: every group type, wildcards, out-of-domain and wrong-arity indices, histories, edited `to_index` results'),
 'C12': ('X enum', 'strict OPB reader and LaTeX row reader; pages 0..106 rows; 63..2048 rows; render-extend-render; names with blanks'),
 'C13': ('X enum + RNG stub, S', 'all draw outcomes on small sizes; seeds and fallback-forcing streams on the (k,n,m,planted) box with planted assignments in every container/order'),
 'C14': ('X enum', 'round trips in all formats (incl. complete bipartite, 12-13 vertex skeletons), in-house readers on menu texts, write-mutate-write, read-write-read with comments, a rejected and a valid text read in one call'),
 'C15': ('X enum + RNG stub', 'every construction and modifier under all draw outcomes (small) and adversarial streams; `regular` under streams made of its own dead-ending attempts; `save` incl. complete bipartite'),
 'C16': ('X enum', 'one step from every small graph, 2-step histories under three observation schedules, grow-then-add, seven edge-list carriers, 3-pair batches refused at any position; networkx sweep with all views'),
 'C17': ('X enum', 'argv grammar vs library: families, chains, arities 1..9, degenerate file graphs, lattice pairs, save, output variants incl. LaTeX rows'),
 'C18': ('X enum', '74 templates x token menus through `main()`; stdin tools; post-parse errors; fallback paths under 5 streams; 22 x 5 OS errors; LaTeX pages'),
 'C19': ('X enum + sym', 'transformations and chains (input untouched, provenance, no aliasing in either direction), builders, networkx arguments, planted assignments'),
 'C20': ('X enum + sym', 'solver bridge behind a stubbed process boundary: routing, parsing (up to 20 variables), auto-detection, two calls, edited listing'),
}
ev = os.path.join(os.path.dirname(os.path.dirname(os.path.abspath(__file__))), 'evidence')
for i in range(1, 21):
    pid = 'C%02d' % i
    try:
        d = json.load(open(os.path.join(ev, pid + '.json')))
    except Exception as e:
        print('| %s | missing | | |' % pid)
        continue
    cov = d.get('coverage', {})
    q = cov.get('queries_by_verdict', {})
    keys = ['instances', 'conditions', 'confirmed', 'symbolic_confirmed', 'enumerative_confirmed', 'inconclusive', 'unsat', 'sat', 'valid', 'big_points', 'big_inconclusive',
            'rebuilt_twice', 'rebuilt_after_other_calls', 't_unsat', 'process_sweep_commands', 'cwd_sweep_commands', 'enumerated_networkx_roundtrips']
    print('| %s | %s | %s | decided=%s; %s | %s s solver, %s s wall |' % (pid, WHAT[pid][0], WHAT[pid][1], cov.get('queries_decided'), ', '.join('%s=%s' % (k, q[k]) for k in keys if k in q),
                                                                 round(cov.get('solver_s', 0)), round(d.get('wall_s', 0))))
