#!/usr/bin/env python3
"""dev tool: run every h_ function of a harness module under CrossHair and print verdict and time"""
import sys, os, re
sys.path.insert(0, os.path.join(os.path.dirname(os.path.abspath(__file__)), '..'))
from vlib import xengine
mod = sys.argv[1]; T = int(sys.argv[2]); pat = sys.argv[3] if len(sys.argv) > 3 else '.'
names = [n for n in xengine._func_lines(os.path.join(xengine.XH_DIR, mod + '.py')) if re.search(pat, n)]
conds = [xengine.Cond(mod, n, timeout=T) for n in names]
part = xengine.run_conditions('probe', conds)
for s in sorted(part.samples, key=lambda r: r['condition']):
    print(s['condition'], s['verdict'], s['seconds'], s['reach_twin'], s.get('counterexample', s.get('detail', ''))[:300])
print(dict(part.counts)); print(part.errors)
