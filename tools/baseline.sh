#!/bin/bash
# Runs the pinned suite on /repo (guard off) and compares the passing set with BASELINE.json
REPO=${1:-/repo}
X=$(mktemp /tmp/junit.XXXXXX.xml)
(cd $REPO && /venv/bin/python -m pytest -q -p no:cacheprovider --timeout=900 --continue-on-collection-errors --junitxml=$X >/dev/null 2>&1)
python3 - "$X" <<'P'
import sys,json,xml.etree.ElementTree as ET
base=set(json.load(open('/root/.vp/BASELINE.json'))['stable_pass'])
t=ET.parse(sys.argv[1]).getroot()
ok=set()
for tc in t.iter('testcase'):
    if not any(c.tag in('failure','error','skipped') for c in tc):
        ok.add(tc.get('classname')+'::'+tc.get('name'))
missing=sorted(base-ok)
print('baseline: %d stable tests, %d passing now, %d missing'%(len(base),len(ok&base),len(missing)))
for m in missing[:20]: print('  MISSING',m)
sys.exit(1 if missing else 0)
P
rc=$?; rm -f $X; exit $rc
