#!/usr/bin/env python3
"""Writes vlib/xh/c16.py = tools/c16_static.py.txt (model and view checks) + generated harness functions."""
import os
HERE = os.path.dirname(os.path.abspath(__file__))
out = [open(os.path.join(HERE, 'c16_static.py.txt')).read()]
out.append('''

def _g_step(n, bits, rev, kind, u, v, w, x):
    G, E = _mk_graph(n, bits, rev)
    if not _graph_views_ok(G, n, E):
        return False
    ok, n2, E = _graph_apply(G, n, E, kind, u, v, w, x)
    return ok and _graph_views_ok(G, n2, E)


def _g_hist(n0, bits, ops):
    # three observation schedules: every view read before the first operation and after each one; only after each
    # operation; only at the end (what a view reports must not depend on when views were read before)
    for schedule in (0, 1, 2):
        n = n0
        G, E = _mk_graph(n, bits, False)
        if schedule == 0 and not _graph_views_ok(G, n, E):
            return False
        for (k, u, v) in ops:
            ok, n, E = _graph_apply(G, n, E, k, u, v, 1, 2)
            if not ok:
                return False
            if schedule != 2 and not _graph_views_ok(G, n, E):
                return False
        if not _graph_views_ok(G, n, E):
            return False
    return True


def _g_grow_add(n0, bits, g, u, v):
    for schedule in (0, 1, 2):
        n = n0
        G, E = _mk_graph(n, bits, False)
        if schedule == 0 and not _graph_views_ok(G, n, E):
            return False
        ok, n, E = _graph_apply(G, n, E, 2, n + g, 0, 1, 2)
        if not ok or (schedule != 2 and not _graph_views_ok(G, n, E)):
            return False
        ok, n, E = _graph_apply(G, n, E, 0, u, v, 1, 2)
        if not ok or not _graph_views_ok(G, n, E):
            return False
    return True


def _d_step(n, bits, kind, u, v, w, x):
    D, E = _mk_digraph(n, bits)
    if not _digraph_views_ok(D, n, E):
        return False
    ok, E = _digraph_apply(D, n, E, kind, u, v, w, x)
    return ok and _digraph_views_ok(D, n, E)


def _b_step(l, r, bits, rev, kind, u, v, w, x):
    B, E = _mk_bip(l, r, bits, rev)
    if not _bip_views_ok(B, l, r, E):
        return False
    ok, E = _bip_apply(B, l, r, E, kind, u, v, w, x)
    return ok and _bip_views_ok(B, l, r, E)


def _cb(l, r, u, v):
    B = CompleteBipartiteGraph(l, r)
    E = {(a, b) for a in range(1, l + 1) for b in range(1, r + 1)}
    B.add_edge(u, v)          # documented no-op
    return _bip_views_ok(B, l, r, E)
''')
def bits(k): return ['b%d' % i for i in range(1, k + 1)]
def fn(name, params, pre, call):
    sig = ', '.join('%s: %s' % (p, t) for p, t in params)
    out.append('''

def %s(%s) -> bool:
    """
    pre: %s
    post: _
    """
    return %s
''' % (name, sig, pre or 'True', call))
def rng(v, lo, hi): return '%d <= %s <= %d' % (lo, v, hi)
def pk(v, lo, hi): return 'pick(%s, %d, %d)' % (v, lo, hi)
KN = {'add': 0, 'remove': 1, 'update': 2, 'addfrom': 3}
for n in (2, 3, 4):
    nb = n * (n - 1) // 2
    B = bits(nb)
    blist = '[' + ', '.join('pickb(%s)' % b for b in B) + ']'
    for kname, k in KN.items():
        ps = [(b, 'bool') for b in B] + [('rev', 'bool')]
        if kname in ('add', 'remove'):
            ps += [('u', 'int'), ('v', 'int')]
            pre = rng('u', -1, n + 2) + ' and ' + rng('v', 0, n + 1)
            call = 'untraced(_g_step, %d, %s, pickb(rev), %d, %s, %s, 1, 1)' % (n, blist, k, pk('u', -1, n + 2), pk('v', 0, n + 1))
        elif kname == 'update':
            ps += [('u', 'int')]
            pre = rng('u', -2, n + 3)
            call = 'untraced(_g_step, %d, %s, pickb(rev), 2, %s, 0, 1, 1)' % (n, blist, pk('u', -2, n + 3))
        else:
            if n == 4:
                continue
            ps += [('u', 'int'), ('v', 'int'), ('w', 'int'), ('x', 'int')]
            pre = ' and '.join([rng('u', 0, n + 1), rng('v', 0, n + 1), rng('w', 0, n + 1), rng('x', 1, n)])
            call = 'untraced(_g_step, %d, %s, pickb(rev), 3, %s, %s, %s, %s)' % (n, blist, pk('u', 0, n + 1), pk('v', 0, n + 1), pk('w', 0, n + 1), pk('x', 1, n))
        fn('h_graph%d_%s' % (n, kname), ps, pre, call)
# grow the vertex set by g >= 0 in ONE call, then insert an edge anywhere (old or new vertices)
for n in (2, 3):
    nb = n * (n - 1) // 2
    B = bits(nb)
    blist = '[' + ', '.join('pickb(%s)' % b for b in B) + ']'
    ps = [(b, 'bool') for b in B] + [('g', 'int'), ('u', 'int'), ('v', 'int')]
    pre = ' and '.join([rng('g', 0, 3), rng('u', 0, n + 4), rng('v', 0, n + 4)])
    call = 'untraced(_g_grow_add, %d, %s, %s, %s, %s)' % (n, blist, pk('g', 0, 3), pk('u', 0, n + 4), pk('v', 0, n + 4))
    fn('h_graph%d_grow_add' % n, ps, pre, call)
# two-step histories from every canonical state (n = 2, 3), sharded by the two kinds
for n in (2, 3):
    nb = n * (n - 1) // 2
    B = bits(nb)
    blist = '[' + ', '.join('pickb(%s)' % b for b in B) + ']'
    for k1 in range(3):
        for k2 in range(3):
            ps = [(b, 'bool') for b in B] + [('u1', 'int'), ('v1', 'int'), ('u2', 'int'), ('v2', 'int')]
            pre = ' and '.join([rng('u1', 0, n + 1), rng('v1', 0, n + 1), rng('u2', 0, n + 2), rng('v2', 0, n + 2)])
            call = 'untraced(_g_hist, %d, %s, [(%d, %s, %s), (%d, %s, %s)])' % (n, blist, k1, pk('u1', 0, n + 1), pk('v1', 0, n + 1), k2, pk('u2', 0, n + 2), pk('v2', 0, n + 2))
            fn('h_graph%d_hist2_%d%d' % (n, k1, k2), ps, pre, call)
# three-step histories on n=2, sharded by the first two kinds, third kind symbolic
for k1 in range(3):
    for k2 in range(3):
        ps = [('b1', 'bool'), ('u1', 'int'), ('v1', 'int'), ('u2', 'int'), ('v2', 'int'), ('k3', 'int'), ('u3', 'int'), ('v3', 'int')]
        pre = ' and '.join([rng('u1', 1, 3), rng('v1', 1, 3), rng('u2', 1, 3), rng('v2', 1, 3), rng('k3', 0, 2), rng('u3', 1, 3), rng('v3', 1, 3)])
        call = 'untraced(_g_hist, 2, [pickb(b1)], [(%d, %s, %s), (%d, %s, %s), (%s, %s, %s)])' % (
            k1, pk('u1', 1, 3), pk('v1', 1, 3), k2, pk('u2', 1, 3), pk('v2', 1, 3), pk('k3', 0, 2), pk('u3', 1, 3), pk('v3', 1, 3))
        fn('h_graph2_hist3_%d%d' % (k1, k2), ps, pre, call)
# directed
for n in (2, 3):
    B = bits(n * n)
    blist = '[' + ', '.join('pickb(%s)' % b for b in B) + ']'
    ps = [(b, 'bool') for b in B] + [('u', 'int'), ('v', 'int')]
    fn('h_digraph%d_add' % n, ps, rng('u', 0, n + 1) + ' and ' + rng('v', 0, n + 1),
       'untraced(_d_step, %d, %s, 0, %s, %s, 1, 1)' % (n, blist, pk('u', 0, n + 1), pk('v', 0, n + 1)))
B = bits(4)
blist = '[' + ', '.join('pickb(%s)' % b for b in B) + ']'
fn('h_digraph2_addfrom', [(b, 'bool') for b in B] + [('u', 'int'), ('v', 'int'), ('w', 'int'), ('x', 'int')],
   ' and '.join([rng('u', 0, 3), rng('v', 0, 3), rng('w', 0, 3), rng('x', 1, 2)]),
   'untraced(_d_step, 2, %s, 1, %s, %s, %s, %s)' % (blist, pk('u', 0, 3), pk('v', 0, 3), pk('w', 0, 3), pk('x', 1, 2)))
# bipartite
for (l, r) in ((2, 2), (2, 3), (3, 2), (3, 1), (1, 3)):
    B = bits(l * r)
    blist = '[' + ', '.join('pickb(%s)' % b for b in B) + ']'
    ps = [(b, 'bool') for b in B] + [('rev', 'bool'), ('u', 'int'), ('v', 'int')]
    fn('h_bip%d%d_add' % (l, r), ps, rng('u', 0, l + 1) + ' and ' + rng('v', 0, r + 1),
       'untraced(_b_step, %d, %d, %s, pickb(rev), 0, %s, %s, 1, 1)' % (l, r, blist, pk('u', 0, l + 1), pk('v', 0, r + 1)))
B = bits(4)
blist = '[' + ', '.join('pickb(%s)' % b for b in B) + ']'
fn('h_bip22_addfrom', [(b, 'bool') for b in B] + [('u', 'int'), ('v', 'int'), ('w', 'int'), ('x', 'int')],
   ' and '.join([rng('u', 0, 3), rng('v', 0, 3), rng('w', 0, 3), rng('x', 1, 2)]),
   'untraced(_b_step, 2, 2, %s, False, 1, %s, %s, %s, %s)' % (blist, pk('u', 0, 3), pk('v', 0, 3), pk('w', 0, 3), pk('x', 1, 2)))
fn('h_complete_bip', [('l', 'int'), ('r', 'int'), ('u', 'int'), ('v', 'int')],
   ' and '.join([rng('l', 0, 3), rng('r', 0, 3), rng('u', 0, 4), rng('v', 0, 4)]),
   'untraced(_cb, %s, %s, %s, %s)' % (pk('l', 0, 3), pk('r', 0, 3), pk('u', 0, 4), pk('v', 0, 4)))
open(os.path.join(HERE, '..', 'vlib', 'xh', 'c16.py'), 'w').write(''.join(out))
print('written')
