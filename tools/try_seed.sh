#!/bin/bash
# usage: tools/try_seed.sh <dir with patch.diff demo.py meta.json> <PID> [tier]
# Confirms a seeded change (demo passes on /repo, fails with the patch, pinned suite unchanged) in a scratch
# worktree, runs the property's check against it, stores everything under /verif/seeded/<name>/ and removes the worktree.
set -u
SRC=$1; PID=$2; TIER=${3:-quick}
NAME=$(basename $SRC)
WT=/tmp/mut_$NAME
OUT=/verif/seeded/$NAME
mkdir -p $OUT
git -C /repo worktree remove --force $WT >/dev/null 2>&1
git -C /repo worktree add -q $WT HEAD || exit 2
cp $SRC/patch.diff $SRC/demo.py $OUT/
if ! git -C $WT apply --whitespace=nowarn $SRC/patch.diff; then echo "PATCH DOES NOT APPLY"; git -C /repo worktree remove --force $WT; exit 2; fi
cp $SRC/demo.py /tmp/demo_$NAME.py
(cd /repo && cp /tmp/demo_$NAME.py ./_demo_tmp.py && /venv/bin/python _demo_tmp.py >/dev/null 2>&1; echo $? > /tmp/demo_orig_$NAME; rm -f _demo_tmp.py)
(cd $WT && cp /tmp/demo_$NAME.py ./_demo_tmp.py && /venv/bin/python _demo_tmp.py >/dev/null 2>&1; echo $? > /tmp/demo_mut_$NAME; rm -f _demo_tmp.py)
BASE=$(/verif/tools/baseline.sh $WT | head -1)
cd /verif
VERIF_REPO=$WT ./vcheck $PID --tier $TIER > /tmp/check_$NAME.log 2>&1
RC=$?
NV=$(grep -c '^VIOLATION' /tmp/check_$NAME.log)
python3 - "$SRC" "$OUT" "$PID" "$TIER" "$RC" "$NV" "$(cat /tmp/demo_orig_$NAME)" "$(cat /tmp/demo_mut_$NAME)" "$BASE" "/tmp/check_$NAME.log" <<'P'
import sys, json
src, out, pid, tier, rc, nv, d0, d1, base, log = sys.argv[1:]
try:
    meta = json.load(open(src + '/meta.json'))
except Exception:
    meta = {}
lines = [l.rstrip() for l in open(log)]
viol = [l for l in lines if l.startswith('VIOLATION') or l.startswith('  #')][:6]
meta.update({'property': pid, 'confirmed': {'demo_exit_on_repo': int(d0), 'demo_exit_with_patch': int(d1), 'pinned_suite_with_patch': base},
             'check': {'cmd': 'VERIF_REPO=<worktree with patch> ./vcheck %s --tier %s' % (pid, tier), 'exit': int(rc), 'violation_lines': int(nv),
                       'first_lines': viol, 'summary': lines[-1] if lines else ''},
             'detected': int(rc) == 1 and int(nv) > 0})
json.dump(meta, open(out + '/meta.json', 'w'), indent=1)
print('%s: demo %s/%s  %s  check exit=%s violations=%s' % (out, d0, d1, base, rc, nv))
P
git -C /repo worktree remove --force $WT
rm -f /tmp/demo_$NAME.py /tmp/demo_orig_$NAME /tmp/demo_mut_$NAME
