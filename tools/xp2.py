#!/usr/bin/env python3
"""dev tool: run harness functions of a module, print every record (verdict, seconds, message)"""
import sys, os, re
sys.path.insert(0, os.path.join(os.path.dirname(os.path.abspath(__file__)), '..'))
from vlib import xengine
mod = sys.argv[1]; T = int(sys.argv[2]); pat = sys.argv[3] if len(sys.argv) > 3 else '.'
names = [n for n in xengine._func_lines(os.path.join(xengine.XH_DIR, mod + '.py')) if re.search(pat, n)]
part = xengine.run_conditions('p', [xengine.Cond(mod, n, T) for n in names])
print(dict(part.counts), part.errors)
for r in part.records:
    print(r['condition'], r['verdict'], r['seconds'], repr(r.get('counterexample', r.get('detail', '')))[:600])
