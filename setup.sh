#!/bin/bash
# Build the overlay virtualenv used by every check (offline, from the wheelhouse).
# Idempotent: a working venv is left alone.
set -e
cd "$(dirname "$0")"
V=.venv
if [ -x $V/bin/python ] && $V/bin/python -c "import z3, crosshair, networkx" >/dev/null 2>&1; then
  exit 0
fi
rm -rf $V
/venv/bin/python -m venv $V
SP=$($V/bin/python -c "import sysconfig;print(sysconfig.get_paths()['purelib'])")
printf "import site; site.addsitedir('/venv/lib/python3.12/site-packages')\n/repo\n" > "$SP/_overlay.pth"
PIP_NO_INDEX=1 $V/bin/pip install -q --no-index --find-links /opt/veriftools/wheels crosshair-tool z3-solver
$V/bin/python -c "import z3, crosshair, networkx; print('overlay venv ready: z3', z3.get_version_string())"
