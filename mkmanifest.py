#!/usr/bin/env python3
"""Regenerates MANIFEST.json from the table below (run after adding a check)."""
import json, os
HERE = os.path.dirname(os.path.abspath(__file__))
ALL = ['C%02d' % i for i in range(1, 21)]

# property -> (technique, level text, level note, design ref)
CHECKS = {
 'C01': ('SMT equivalence (z3): Enc(generated formula) xor documented principle is unsat, per point of an exhaustive parameter box',
         'Bounded symbolic verification: for every parameter point / graph of the stated box, z3 decides that the generated CNF/OPB '
         'and the documented principle agree on ALL truth assignments (one unsat verdict per instance), plus satisfiability and model '
         'count against independent criteria. Nothing is claimed outside the box.',
         'Trusted: z3; the reference predicates written from the docstrings; variable names as reported by the formula (alignment is C11). '
         'Structural parameters are concrete (exhaustive inside the box), the assignment is symbolic.',
         'DESIGN.md section 3 C01'),
}
NA = {}

def main():
    checks = []
    for pid in ALL:
        if pid not in CHECKS:
            continue
        tech, text, note, ref = CHECKS[pid]
        checks.append({
            'property_id': pid,
            'quick_cmd': './vcheck %s --tier quick' % pid,
            'thorough_cmd': './vcheck %s --tier thorough' % pid,
            'evidence_file': 'evidence/%s.json' % pid,
            'replay_cmd_template': './vcheck replay {path}',
            'engine': 'vlib',
            'level_claimed': {'category': 'other', 'text': text, 'design_ref': ref},
            'level_note': note,
            'technique': tech,
        })
    na = [{'property_id': pid, 'reason': NA.get(pid, 'check not built yet (work in progress); see DESIGN.md section 3 for the plan')}
          for pid in ALL if pid not in CHECKS]
    man = {
        'version': 1,
        'setup_cmd': './setup.sh',
        'hooks': {'guard': 'CNFGEN_VERIF', 'enable': 'no source hooks are needed: stubs and monitors are installed by the harness process at run time',
                  'baseline_off_cmd': 'cd /repo && /venv/bin/python -m pytest -ra -q -p no:cacheprovider --timeout=900 --continue-on-collection-errors',
                  'source_commits': [], 'add_only': True},
        'engines': [{'name': 'vlib', 'path': 'vlib/', 'serves_properties': [c['property_id'] for c in checks],
                     'kind_free_text': 'engine S: z3 equivalence/entailment over generated formulas; engine X: CrossHair symbolic execution of real functions with nondeterministic stubs; engine T: AST->z3 translation of integer kernels'}],
        'checks': checks,
        'not_applicable': na,
        'notes': 'Exit codes of every command: 0 held / 1 VIOLATION (after replay on the real code) / 3 harness error. known_findings.json lists recorded defects.',
    }
    json.dump(man, open(os.path.join(HERE, 'MANIFEST.json'), 'w'), indent=1)
    print('checks:', [c['property_id'] for c in checks])

if __name__ == '__main__':
    main()
