#!/usr/bin/env python3
"""Regenerates MANIFEST.json from the table below (run after adding a check)."""
import json, os
HERE = os.path.dirname(os.path.abspath(__file__))
ALL = ['C%02d' % i for i in range(1, 21)]

# property -> (technique, level text, level note, design ref)
CHECKS = {
 'C01': ('SMT equivalence (z3): Enc(generated formula) xor documented principle is unsat, per point of an exhaustive parameter box',
         'Bounded symbolic verification: for every parameter point / graph of the stated box, z3 decides that the generated CNF/OPB '
         'and the documented principle agree on ALL truth assignments (one unsat verdict per instance), plus satisfiability and model '
         'count against independent criteria. Nothing is claimed outside the box.',
         'Trusted: z3; the reference predicates written from the docstrings; variable names as reported by the formula (alignment is C11). '
         'Structural parameters are concrete (exhaustive inside the box), the assignment is symbolic.',
         'DESIGN.md section 3 C01'),
 'C02': ('SMT equivalence (z3) of each generated graph formula with the documented graph property over all assignments; sat verdict and model count vs independently enumerated witnesses; exists-projection for dominating set',
         'Bounded symbolic verification: for every labelled simple graph of the box (all graphs on <=4 vertices quick, <=5 thinned thorough) and every parameter, one z3 unsat verdict per instance shows the formula '
         'agrees with the documented property on all assignments; satisfiability <=> property and #models = #witnesses follow and are cross-checked.',
         'Trusted: z3 (incl. quantifier elimination over <=15 Booleans for the dominating-set projection), the reference predicates, variable names reported by the formula. Outside: larger graphs.',
         'DESIGN.md section 3 C02'),
 'C03': ('per-axiom-schema entailment with z3 (unsat core claim + none-extra + none-missing) for contradictions; SMT equivalence for planted/Ramsey-type formulas; RNG graph draw replaced by an exhaustive stub',
         'Bounded symbolic verification: for every instance of the box z3 decides unsatisfiability over all assignments and that the clause set is exactly the documented axiom schemas; '
         'Pitfall is decided for every regular graph the generator could draw at the stated sizes.',
         'Trusted: z3, schemas transcribed from docstrings/help texts, stub contract of networkx.random_regular_graph. Pipe/tail gadgets of Pitfall only through the global unsat verdict.',
         'DESIGN.md section 3 C03'),
 'C05': ('SMT equivalence (z3): Enc(T(F))(y) xor Enc(F)[x := gadget(y)] unsat for every small CNF F and transformation T',
         'Bounded symbolic verification over an exhaustive set of small input CNFs (all shapes incl. empty clause, repeated/opposite literals, unused variables) and all transformations with arity <=3(4): '
         'one z3 unsat verdict per pair covers all assignments of the transformed formula.',
         'Trusted: z3, gadget definitions from the help texts, block layout of new variables. Outside: arity >4, larger inputs.',
         'DESIGN.md section 3 C05'),
 'C08': ('SMT equivalence (z3) between the CNF-class and OPB-class build of every family instance, at library and command-line level',
         'Bounded symbolic verification: for every point of the C01-C03 boxes and a table of command lines z3 decides that the two renderings have the same models; names and counts compared exactly.',
         'Trusted: z3 pseudo-Boolean reasoning; reading of OPB rows as documented. Outside: parameters beyond the boxes, unseeded random families.',
         'DESIGN.md section 3 C08'),
 'C04': ('CrossHair symbolic execution of the real constraint builders (symbolic polarities, assignment, container kind, UNBOUNDED integer constant) + SMT equivalence (z3) for larger lists and mapping builders',
         'Bounded symbolic verification: per fixed number of literals (<=3 quick, <=4 thorough) CrossHair/z3 confirms over all paths that the rows added are satisfied exactly when the arithmetic condition holds, for every integer constant; '
         'normalize_opb for every degree; engine S extends to <=7 literals with the constant swept and to all mapping shapes of the box.',
         'Trusted: CrossHair 0.0.110 models of int/bool/list/tuple/range/generator, z3. Conditions that end "Not confirmed" are reported inconclusive and not counted.',
         'DESIGN.md section 3 C04'),
 'C16': ('CrossHair/z3-accounted exhaustive walk of finite pre-states x operations of the real graph classes against a set model (enumerative mode: inputs are realised at hash/bisect boundaries)',
         'Bounded exhaustive state-machine check: every graph on <=3 (thorough 4) vertices as pre-state x one operation with arguments from below 0 to above n; two- and three-step histories at smaller sizes; '
         'CrossHair reports Confirmed only when the whole finite domain has been visited. Honest label: the solver does bookkeeping here, not reasoning about unknown values.',
         'Trusted: CrossHair exhaustiveness accounting, the set-of-pairs model. Outside: larger graphs, longer histories.',
         'DESIGN.md section 3 C16'),
 'C11': ('CrossHair symbolic execution of the real index arithmetic (UNBOUNDED symbolic variable offset, symbolic index and literal sign) + solver-accounted exhaustive walk of group shapes/graphs/histories',
         'Bounded symbolic verification: for every block shape up to the stated ranges and every binary mapping n<=4,m<=9 z3 confirms the index<->identifier bijection, order and rejection for any offset; '
         'the other group types and the name-alignment histories are walked exhaustively over finite domains (enumerative mode, labelled as such).',
         'Trusted: CrossHair models of int/range/list; default label formats from the API signatures. Outside: >4 dimensions, m>9, histories >3.',
         'DESIGN.md section 3 C11'),
 'C20': ('CrossHair/z3-accounted exhaustive walk of fake-solver behaviours through the real bridge code (process boundary stubbed); two harnesses keep model bits, verdict and layout symbolic through the output parser',
         'Bounded exhaustive verification of the bridge for 8 small formulas x all supported solver names / sameas values / installed sets / verdicts / models / answer layouts: every combination is visited (Confirmed over all paths) and yields the documented result or error, with no temporary file left.',
         'Trusted: the stubs of Popen/tempfile/os/open (a sound fake solver), CrossHair exhaustiveness accounting. Outside: real solvers, >3 variables.',
         'DESIGN.md section 3 C20'),
 'C09': ('CrossHair/z3 exploration of ALL outcomes of the random draws (random module replaced by a nondeterministic stub with lazily minted symbolic draws) through Shuffle, cnfshuffle and -T shuffle; exhaustive explicit-argument validation',
         'Bounded exhaustive verification: for 12 small formulas x 8 switch combinations x 3 entry points every possible outcome of random.choice/shuffle is visited and the result is always one signed renaming plus one clause permutation; explicit arguments are accepted iff valid and applied exactly.',
         'Trusted: the RNG stub contract, CrossHair exhaustiveness accounting, the plain witness search. Outside: larger formulas.',
         'DESIGN.md section 3 C09'),
 'C13': ('CrossHair/z3 exploration of all outcomes of the random draws (nondeterministic RNG stub, bounded tape) + z3 equivalence of XOR blocks with parities and exhaustive error-boundary probing on sampled seeds',
         'Bounded verification: for the stated tiny (k,n,m) and one planted assignment every outcome of the draws within the tape bound yields the promised shape or ValueError exactly at the boundary; '
         'for k<=3, n<=4(5) the returned formulas for a few real seeds are checked structurally and semantically (sampling over seeds, exhaustive over sizes).',
         'Trusted: RNG stub contract, CrossHair accounting, z3. Outside: draw sequences longer than the tape bound, all seeds.',
         'DESIGN.md section 3 C13'),
 'C06': ('CrossHair/z3-accounted exhaustive walk of formula shapes, header/name texts and menu-built input texts through the real DIMACS writer and reader, against an independent strict reader',
         'Bounded exhaustive verification (enumerative mode): every formula shape and unusual header/name text of the stated menus round-trips; every text of <=3 (thorough 4) lines from a 20-line menu is read exactly as the strict reader reads it or rejected with ValueError.',
         'Trusted: the independent strict reader as the meaning of a DIMACS text; CrossHair accounting. Outside: texts beyond the menus, exotic integer tokens.',
         'DESIGN.md section 3 C06'),
 'C12': ('CrossHair/z3-accounted exhaustive walk of menu-built CNF/OPB formulas through the real OPB and LaTeX writers, against an independent strict OPB reader and a LaTeX row reader',
         'Bounded exhaustive verification (enumerative mode): every formula of <=2 (thorough 3) rows from the menus x label formats x flags renders to text that the independent readers map back to exactly the in-memory rows; page splits and format guessing checked on their finite tables.',
         'Trusted: the two readers written for the check; CrossHair accounting. Outside: >3 terms, TeX validity of exotic names.',
         'DESIGN.md section 3 C12'),
 'C14': ('CrossHair/z3-accounted exhaustive walk of small graphs (edge bits) through every writer/reader pair, and of menu-built texts through the three in-house readers against independent reference readers',
         'Bounded exhaustive verification (enumerative mode): all graphs of the stated sizes round-trip in all supported formats incl. 12-13 vertex graphs; every text of <=3 (thorough 4) menu lines per format and graph type is read as the reference reads it or rejected with ValueError.',
         'Trusted: reference readers, networkx/pydot for gml/dot parsing, CrossHair accounting. Outside: arbitrary gml/dot text, texts beyond the menus.',
         'DESIGN.md section 3 C14'),
 'C07': ('CrossHair/z3 non-interference check by self-composition: unseeded random draws and default object reprs are fresh symbolic values in two runs of the same command line; outputs must be equal for all of them',
         'Bounded symbolic verification over a table of 47 command lines x 4 seeds, 9 seeded library generators, 24 library calls with non-default options and 9 dense random requests under non-MT seeded streams: any dependence of the output on randomness drawn before seeding or on object identity is refuted with the two distinguishing values; correct runs are confirmed on their single concrete path.',
         'Trusted: the two-phase RNG stub (same seed => same stream is assumed), the repr stub. Outside the solver-decided part: PYTHONHASHSEED and the working directory (auxiliary concrete process sweeps over 3 hash seeds / 2 directories, reported separately), command lines not in the table.',
         'DESIGN.md section 3 C07'),
 'C15': ('CrossHair/z3 exploration of ALL outcomes of the random draws (nondeterministic RNG stub, bounded tape) and of numeric arguments across the legal boundary through make_graph_from_spec; deterministic adversarial draw streams for the retry/fallback code',
         'Bounded verification: for the stated small sizes every random outcome yields the promised structure and every out-of-range or non-numeric argument is refused with ValueError; larger requests are covered for six adversarial draw streams only (stated as such).',
         'Trusted: RNG stub contract, independent constructions / networkx isomorphism test, CrossHair accounting. Outside: random outcomes beyond the tape bound, larger sizes.',
         'DESIGN.md section 3 C15'),
 'C17': ('CrossHair/z3-accounted exhaustive walk of an argv grammar (numbers, option subsets, graph-argument menus, -T chains) through the real command line tools, compared with the library generators',
         'Bounded exhaustive verification (enumerative mode): every point of the grammar - all sub-commands, all documented options, one- and two-step transformation chains, both tools - yields exactly the formula (class, names, rows) of the documented library call.',
         'Trusted: the table of documented library calls written from the help texts; in-memory file stub for save; CrossHair accounting. Outside: larger arguments, argv outside the grammar.',
         'DESIGN.md section 3 C17'),
 'C18': ('CrossHair/z3-accounted exhaustive walk of a wide argv grammar (numbers across the legal boundaries, non-numeric tokens, missing/extra arguments, bad files) through the real main() of the four tools, classified against strict readers',
         'Bounded exhaustive verification (enumerative mode): every argv of the grammar ends in exactly one of: a complete formula accepted by the strict reader of the chosen format with exit 0, a help text, or a non-zero exit with empty stdout and comment-prefixed stderr; any escaping exception is reported with its argv.',
         'Trusted: strict readers of C06/C12, stubs for stdio/SIGINT/virtual files, CrossHair accounting. Outside: argv outside the grammar.',
         'DESIGN.md section 3 C18'),
 'C19': ('CrossHair/z3-accounted exhaustive walk of (small input CNF, transformation, optional second transformation) with before/after snapshots and aliasing tests; CrossHair symbolic execution of the constraint builders for argument immutability (unbounded constant)',
         'Bounded verification: every transformation of the list applied to the small-CNF set leaves its input untouched, returns a fresh formula and records provenance; the builders never modify their argument for any integer constant (Confirmed over all paths).',
         'Trusted: snapshot = public views + DIMACS text; CrossHair models of list/tuple. Outside: larger formulas, longer chains.',
         'DESIGN.md section 3 C19'),
 'C10': ('CrossHair/z3-accounted exhaustive walk of 2- and 3-step histories of variable-group creation / clause insertion (freshness, range, count); auxiliary run-time monitor over all family instances of the other boxes',
         'Bounded exhaustive verification (enumerative mode) of the allocation invariant over short histories on CNF and OPB; the sweep over families is a concrete monitor (exhaustive over the boxes, not solver-decided) and is reported separately.',
         'Trusted: CrossHair accounting; monitor wrappers installed by the harness. Outside: user code inserting clauses with check=False, longer histories.',
         'DESIGN.md section 3 C10'),
}
NA = {}

def main():
    checks = []
    for pid in ALL:
        if pid not in CHECKS:
            continue
        tech, text, note, ref = CHECKS[pid]
        checks.append({
            'property_id': pid,
            'quick_cmd': './vcheck %s --tier quick' % pid,
            'thorough_cmd': './vcheck %s --tier thorough' % pid,
            'evidence_file': 'evidence/%s.json' % pid,
            'replay_cmd_template': './vcheck replay {path}',
            'engine': 'vlib',
            'level_claimed': {'category': 'other', 'text': text, 'design_ref': ref},
            'level_note': note,
            'technique': tech,
        })
    na = [{'property_id': pid, 'reason': NA.get(pid, 'check not built yet (work in progress); see DESIGN.md section 3 for the plan')}
          for pid in ALL if pid not in CHECKS]
    man = {
        'version': 1,
        'setup_cmd': './setup.sh',
        'hooks': {'guard': 'CNFGEN_VERIF', 'enable': 'no source hooks are needed: stubs and monitors are installed by the harness process at run time',
                  'baseline_off_cmd': 'cd /repo && /venv/bin/python -m pytest -ra -q -p no:cacheprovider --timeout=900 --continue-on-collection-errors',
                  'source_commits': [], 'add_only': True},
        'engines': [{'name': 'vlib', 'path': 'vlib/', 'serves_properties': [c['property_id'] for c in checks],
                     'kind_free_text': 'engine S: z3 equivalence/entailment over generated formulas; engine X: CrossHair symbolic execution of real functions with nondeterministic stubs; engine T: AST->z3 translation of integer kernels'}],
        'checks': checks,
        'not_applicable': na,
        'notes': 'Exit codes of every command: 0 held / 1 VIOLATION (after replay on the real code) / 3 harness error. known_findings.json lists recorded defects.',
    }
    json.dump(man, open(os.path.join(HERE, 'MANIFEST.json'), 'w'), indent=1)
    print('checks:', [c['property_id'] for c in checks])

if __name__ == '__main__':
    main()
