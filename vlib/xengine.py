"""Engine X: CrossHair (symbolic execution of the real Python functions with z3) as a condition runner.

Harness modules live in vlib/xh/.  Every function whose name starts with `h_` carries a PEP316
contract (`pre:` / `post: _`) and calls the real code of /repo.  For each condition:

* `crosshair check --report_all --per_condition_timeout T file.py:LINE` in its own process;
* a *reachability twin* (same module with every `post: _` replaced by `post: False`) must be refuted,
  otherwise a "Confirmed" verdict could be vacuous -> reported as harness error;
* outcomes are kept apart: confirmed / refuted (counterexample, replayed before it is reported) /
  inconclusive ("Not confirmed", "Unable to meet precondition", timeout).
"""
import ast
import concurrent.futures
import os
import re
import shutil
import subprocess
import tempfile
import time

from .core import Part, VERIF, REPO, NPROC, fn_sig

XH_DIR = os.path.join(VERIF, 'vlib', 'xh')
CROSSHAIR = os.path.join(VERIF, '.venv', 'bin', 'crosshair')


def _func_lines(path):
    tree = ast.parse(open(path).read())
    out = {}
    for node in tree.body:
        if isinstance(node, ast.FunctionDef) and node.name.startswith('h_'):
            out[node.name] = node.lineno + 1
    return out


def _env():
    env = dict(os.environ)
    repo = os.environ.get('VERIF_REPO') or REPO
    env['PYTHONPATH'] = repo + os.pathsep + VERIF
    env['PYTHONWARNINGS'] = 'ignore'
    env['PYTHONDONTWRITEBYTECODE'] = '1'
    env['PYTHONHASHSEED'] = '0'
    return env


def _run_one(path, line, cond_timeout, path_timeout, hard_timeout):
    cmd = [CROSSHAIR, 'check', '--report_all', '--per_condition_timeout', str(cond_timeout)]
    if path_timeout:
        cmd += ['--per_path_timeout', str(path_timeout)]
    cmd.append('%s:%d' % (path, line))
    t = time.time()
    try:
        r = subprocess.run(cmd, capture_output=True, text=True, timeout=hard_timeout, env=_env(),
                           cwd=os.path.dirname(path))
        out, rc = r.stdout + '\n' + r.stderr, r.returncode
    except subprocess.TimeoutExpired as e:
        out = ((e.stdout or b'').decode() if isinstance(e.stdout, bytes) else (e.stdout or '')) + '\nHARD-TIMEOUT'
        rc = -9
    return out, rc, time.time() - t


_MSG = re.compile(r'^(?P<file>[^:\n]+):(?P<line>\d+): (?P<level>error|info|warning): (?P<msg>.*)$', re.M)


def classify(out):
    """(verdict, message) from crosshair's report for a single condition."""
    msgs = [(m.group('level'), m.group('msg')) for m in _MSG.finditer(out)]
    for level, msg in msgs:
        if level == 'error':
            return 'refuted', msg
    for level, msg in msgs:
        if 'Confirmed over all paths' in msg:
            return 'confirmed', msg
    for level, msg in msgs:
        if 'Unable to meet precondition' in msg:
            return 'inconclusive', 'Unable to meet precondition'
        if 'Not confirmed' in msg:
            return 'inconclusive', 'Not confirmed'
    if 'HARD-TIMEOUT' in out:
        return 'inconclusive', 'hard timeout'
    return 'inconclusive', 'no report: ' + out.strip()[-300:]


_CALL = re.compile(r'when calling (\w+)\((.*)\)(?: \(which (?:returns|raises).*)?$', re.S)


def parse_counterexample(msg):
    """kwargs of the failing call as python values (None if they cannot be parsed)."""
    m = _CALL.search(msg)
    if not m:
        return None, None
    fname, args = m.group(1), m.group(2)
    # strip a trailing '(which returns ...)' that the greedy match may have swallowed
    depth = 0
    cut = None
    for i, ch in enumerate(args):
        if ch in '([{':
            depth += 1
        elif ch in ')]}':
            depth -= 1
            if depth < 0:
                cut = i
                break
    if cut is not None:
        args = args[:cut]
    try:
        call = ast.parse('f(%s)' % args, mode='eval').body
        kwargs = {kw.arg: ast.literal_eval(kw.value) for kw in call.keywords}
        pos = [ast.literal_eval(a) for a in call.args]
        return fname, {'kwargs': kwargs, 'args': pos}
    except Exception:
        return fname, None


class Cond:
    def __init__(self, module, func, timeout=60, path_timeout=None, label=None, symbolic=True, note=''):
        self.module, self.func, self.timeout, self.path_timeout = module, func, timeout, path_timeout
        self.label = label or ('%s.%s' % (module, func))
        self.symbolic = symbolic     # False: "enumerative" harness (all inputs realised up front)
        self.note = note


def run_conditions(prefix, conds, nproc=None, twin_timeout=25):
    """Run all conditions (and their reachability twins) in parallel; returns a Part."""
    part = Part()
    tmp = tempfile.mkdtemp(prefix='verif_xh_')
    try:
        mods = sorted({c.module for c in conds})
        lines = {}
        for m in mods:
            src = os.path.join(XH_DIR, m + '.py')
            dst = os.path.join(tmp, m + '.py')
            shutil.copy(src, dst)
            text = open(src).read()
            twin = re.sub(r'^(\s*)post: .*$', r'\1post: False', text, flags=re.M)
            open(os.path.join(tmp, m + '__reach.py'), 'w').write(twin)
            lines[m] = _func_lines(dst)
        jobs = []
        for c in conds:
            if c.func not in lines[c.module]:
                part.errors.append('harness function %s.%s not found' % (c.module, c.func))
                continue
            ln = lines[c.module][c.func]
            jobs.append(('main', c, os.path.join(tmp, c.module + '.py'), ln, c.timeout, c.path_timeout, c.timeout * 1.5 + 60))
            jobs.append(('twin', c, os.path.join(tmp, c.module + '__reach.py'), ln, twin_timeout, None, twin_timeout * 2 + 60))
        results = {}
        with concurrent.futures.ThreadPoolExecutor(max_workers=nproc or NPROC) as ex:
            futs = {ex.submit(_run_one, j[2], j[3], j[4], j[5], j[6]): j for j in jobs}
            for f in concurrent.futures.as_completed(futs):
                j = futs[f]
                results[(j[0], j[1].label)] = f.result()
        for c in conds:
            if ('main', c.label) not in results:
                continue
            out, rc, secs = results[('main', c.label)]
            verdict, msg = classify(out)
            tout, trc, tsecs = results[('twin', c.label)]
            tverdict, tmsg = classify(tout)
            part.solver_s += secs
            part.counts['conditions'] += 1
            part.counts[verdict] += 1
            part.counts['symbolic_' + verdict if c.symbolic else 'enumerative_' + verdict] += 1
            rec = {'condition': c.label, 'verdict': verdict, 'seconds': round(secs, 1), 'timeout': c.timeout,
                   'mode': 'symbolic' if c.symbolic else 'enumerative', 'reach_twin': tverdict, 'note': c.note}
            if verdict == 'confirmed':
                if tverdict != 'refuted':
                    part.errors.append('%s: confirmed but its reachability twin was not refuted (%s) - vacuous' % (c.label, tmsg[:200]))
                else:
                    part.nontrivial.add(c.label)
            elif verdict == 'refuted':
                fname, call = parse_counterexample(msg)
                rec['counterexample'] = msg[:400]
                part.case(prefix + '.' + c.label, 'crosshair_counterexample',
                          {'module': c.module, 'func': c.func, 'call': call}, msg[:600])
            else:
                rec['detail'] = msg[:200]
            part.records.append(rec)
            if len(part.samples) < 6:
                part.samples.append(rec)
    finally:
        shutil.rmtree(tmp, ignore_errors=True)
    return part


def _call_fails(fn, inp, call):
    try:
        r = fn(*call.get('args', []), **call.get('kwargs', {}))
    except Exception as e:  # noqa
        doc = fn.__doc__ or ''
        allowed = re.findall(r'raises:\s*(.*)', doc)
        names = [x.strip() for a in allowed for x in a.split(',')]
        if type(e).__name__ in names:
            return False, 'raised documented %s' % type(e).__name__
        return True, '%s%r raised %s: %s' % (inp['func'], call, type(e).__name__, e)
    if r is False:
        return True, '%s(**%r) returned False on the real code' % (inp['func'], call.get('kwargs'))
    return (not bool(r)), '%s returned %r' % (inp['func'], r)


def _warmup_calls(fn, n=300, seed=20261003):
    """A deterministic sequence of argument tuples inside the harness precondition (integer bounds read from the
    `pre:` line, booleans both ways): the other calls a process may have made before the one under replay."""
    import inspect
    import random
    doc = fn.__doc__ or ''
    bounds = {}
    for lo, name, hi in re.findall(r'(-?\d+) <= (\w+) <= (-?\d+)', doc):
        bounds[name] = (int(lo), int(hi))
    params = list(inspect.signature(fn).parameters.values())
    rng = random.Random(seed)
    out = []
    for _ in range(n):
        args = []
        for prm in params:
            if prm.annotation is bool:
                args.append(rng.random() < 0.5)
            elif prm.annotation is int:
                lo, hi = bounds.get(prm.name, (-2, 6))
                args.append(rng.randint(lo, hi))
            else:
                return []
        out.append(args)
    return out


def replay(case):
    """Plain-interpreter replay of a CrossHair counterexample: call the harness function concretely.
    First in a fresh process.  CrossHair runs all paths of a condition in ONE process, so code that keeps state between
    calls can fail on a path only because of the paths before it; if the fresh call passes, the call is repeated
    after a fixed sequence of other calls of the same harness (a concrete history of calls in one process)."""
    import importlib
    inp = case['input']
    call = inp.get('call')
    if call is None:
        return False, 'counterexample arguments could not be parsed: ' + case.get('what', '')[:200]
    mod = importlib.import_module('vlib.xh.' + inp['module'])
    fn = getattr(mod, inp['func'])
    m = re.search(r'TAPE=(\[[^\]]*\])', case.get('what', ''))
    import vlib.xh.xutil as xutil
    if m:
        xutil.REPLAY_TAPE = ast.literal_eval(m.group(1))
    if m:
        return _call_fails(fn, inp, call)
    # every attempt runs in its own forked child, so that no attempt leaves state behind for the next one
    bad, msg = _in_child(lambda: _call_fails(fn, inp, call))
    if bad:
        return bad, msg
    for seed in (20261003, 7, 99, 12345):
        warm = _warmup_calls(fn, seed=seed)
        if not warm:
            break

        def attempt(warm=warm):
            for args in warm:
                try:
                    fn(*args)
                except BaseException:  # noqa
                    pass
            return _call_fails(fn, inp, call)
        bad, msg2 = _in_child(attempt)
        if bad:
            return True, ('passes as the first call of a process, fails after %d other calls of the same harness in the same '
                          'process (state kept between calls; the calls are _warmup_calls(%s, seed=%d)): %s' % (len(warm), inp['func'], seed, msg2))
    return False, msg


def _in_child(thunk):
    import json
    import os
    rd, wr = os.pipe()
    pid = os.fork()
    if pid == 0:
        try:
            res = thunk()
        except BaseException as e:  # noqa
            res = (False, 'replay aborted: %r' % (e,))
        try:
            os.write(wr, json.dumps([bool(res[0]), str(res[1])[:3000]]).encode())
        finally:
            os._exit(0)
    os.close(wr)
    data = b''
    while True:
        chunk = os.read(rd, 65536)
        if not chunk:
            break
        data += chunk
    os.close(rd)
    os.waitpid(pid, 0)
    try:
        bad, msg = json.loads(data.decode())
    except ValueError:
        bad, msg = False, 'replay produced no result'
    return bad, msg


def encoded(part, *objs):
    for o in objs:
        if o is None:          # a private helper that this version of the code does not have: nothing to report
            continue
        n, h = fn_sig(o)
        part.functions[n] = h
