"""Size-threshold points for engine S: parameters around 10/11, 16/17, 32/33 (decimal width, machine-word-like
block sizes) where only the equivalence / schema check is run (no model counting, no oracle self-test).
All equivalence-mode points are satisfiable instances: for an unsatisfiable one the monolithic query would amount
to refuting the family, which is what makes it a benchmark."""


def cycle(n):
    return [[i, i + 1] for i in range(1, n)] + [[1, n]]


def path(n):
    return [[i, i + 1] for i in range(1, n)]


def star(n):
    return [[1, i] for i in range(2, n + 1)]


def mixed(n):
    return [[u, v] for u in range(1, n + 1) for v in range(u + 1, n + 1) if (u * v + u + v) % 5 == 0]


def complete(n):
    return [[u, v] for u in range(1, n + 1) for v in range(u + 1, n + 1)]


def bip_band(l, r, w=2):
    return [[u, (u + d - 1) % r + 1] for u in range(1, l + 1) for d in range(w)]


def _sorted_bip(E):
    return sorted([list(e) for e in set(map(tuple, E))])


CLS = ('CNF', 'OPB')


def big_points(name, tier):
    P = []
    add = P.append
    if name == 'c01.php':
        for (m, n, fn, on) in ((10, 11, False, False), (11, 11, True, True), (11, 12, True, False), (16, 17, False, False), (12, 12, False, True),
                               (9, 10, True, False), (17, 17, True, True)) + (((32, 33, False, False), (33, 33, True, True)) if tier != 'quick' else ()):
            for c in CLS:
                add({'m': m, 'n': n, 'functional': fn, 'onto': on, 'cls': c})
    elif name == 'c01.gphp':
        for (l, r, w) in ((10, 11, 2), (11, 11, 3), (12, 17, 2), (16, 16, 1)):
            for fn, on in ((False, False), (True, False), (True, True)):
                if on and l != r:
                    continue
                for c in CLS:
                    add({'l': l, 'r': r, 'edges': _sorted_bip(bip_band(l, r, w)), 'functional': fn, 'onto': on, 'cls': c})
    elif name == 'c01.bphp':
        for (m, n) in ((3, 16), (3, 17), (5, 11), (2, 33), (4, 10), (9, 17)):
            for c in CLS:
                add({'m': m, 'n': n, 'cls': c})
    elif name == 'c01.rphp':
        for (m, t, n) in ((3, 10, 11), (2, 11, 11), (3, 4, 17)):
            for c in CLS:
                add({'m': m, 't': t, 'n': n, 'cls': c})
    elif name == 'c01.count':
        for (M, p) in ((10, 2), (12, 2), (11, 11), (10, 10), (12, 12)):
            for c in CLS:
                add({'M': M, 'p': p, 'cls': c})
    elif name == 'c01.matching':
        for n, E in ((10, cycle(10)), (12, path(12)), (16, cycle(16)), (10, complete(10))):
            for c in CLS:
                add({'n': n, 'edges': E, 'cls': c})
    elif name == 'c01.subsetcard':
        for (l, r, w) in ((10, 10, 2), (11, 11, 2), (16, 17, 3)):
            for eq in (False, True):
                for c in CLS:
                    add({'l': l, 'r': r, 'edges': _sorted_bip(bip_band(l, r, w)), 'eq': eq, 'cls': c})
    elif name == 'c01.cliquecoloring':
        for (n, k, c0) in ((10, 2, 2), (11, 3, 3), (11, 2, 10), (12, 3, 4)):
            for c in CLS:
                add({'n': n, 'k': k, 'c': c0, 'cls': c})
    elif name == 'c02.tseitin':
        for n, E in ((11, cycle(11)), (12, path(12)), (10, mixed(10)), (10, star(10)), (11, star(11)), (13, star(13)), (10, complete(10)), (11, complete(11))):
            for pat in (0, 1):
                ch = [0] * n
                if pat:
                    ch[0] = ch[n - 1] = 1
                    if n > 11:
                        ch[9] = ch[10] = 1
                for c in CLS:
                    add({'n': n, 'edges': E, 'charges': ch, 'cls': c})
    elif name == 'c02.kcolor':
        for n, E, k in ((11, cycle(11), 3), (12, path(12), 2), (17, star(17), 2), (11, sorted(complete(9) + path(11)[8:]), 9), (10, mixed(10), 10), (33, cycle(33), 3)):
            for fn in (False, True):
                for c in CLS:
                    add({'n': n, 'edges': E, 'k': k, 'functional': fn, 'cls': c})
    elif name == 'c02.ec':
        for n, E in ((12, cycle(12)), (10, cycle(10)), (16, cycle(16))):
            for c in CLS:
                add({'n': n, 'edges': E, 'cls': c})
    elif name == 'c02.tiling':
        for n, E in ((12, cycle(12)), (12, path(12)), (17, star(17)), (15, cycle(15))):
            for c in CLS:
                add({'n': n, 'edges': E, 'cls': c})
    elif name in ('c02.iso', 'c02.auto'):
        for n, E in ((10, cycle(10)), (11, path(11))):
            perm = [[(u * 3) % n + 1, (v * 3) % n + 1] for u, v in E]
            E2 = sorted([sorted(e) for e in perm])
            add({'n': n, 'edges': E, 'n2': n, 'edges2': E2 if name == 'c02.iso' else E})
    elif name == 'c02.subgraph':
        for n, E in ((11, cycle(11)), (10, mixed(10))):
            for ind in (False, True):
                add({'n': n, 'edges': E, 'nH': 3, 'edgesH': [[1, 2], [2, 3]], 'induced': ind, 'symbreak': False})
    elif name in ('c02.kclique', 'c02.kcliquebin'):
        for n, E, k in ((11, complete(4) + path(11)[3:], 4), (10, complete(10), 10 if name == 'c02.kclique' else 5), (17, star(17) + [[2, 3]], 3)):
            E = sorted([sorted(e) for e in set(map(tuple, E))])
            for sb in (False, True):
                p = {'n': n, 'edges': E, 'k': k, 'symbreak': sb}
                if name == 'c02.kclique':
                    for c in CLS:
                        add(dict(p, cls=c))
                else:
                    add(p)
    elif name == 'c03.ram':
        for (s, k, N) in ((3, 3, 5), (4, 4, 10), (5, 5, 10), (3, 4, 8), (2, 11, 10), (11, 2, 10)):
            for c in CLS:
                add({'s': s, 'k': k, 'N': N, 'cls': c})
    elif name == 'c03.vdw':
        for N, ks in ((8, [3, 3]), (17, [3, 4]), (33, [4, 4]), (10, [2, 11]), (11, [3, 3, 2])):
            for c in CLS:
                add({'N': N, 'ks': ks, 'cls': c})
    elif name == 'c03.ptn':
        for N in (100, 65, 33):
            add({'N': N})
    elif name == 'c04.linear':
        for n in (10, 11):
            for signs in ([1] * n, [(-1 if i % 3 == 0 else 1) for i in range(n)]):
                for op in ('<=', '>=', '==', '!=', '<', '>'):
                    for c0 in (0, 1, n // 2, n - 1, n):
                        for c in CLS:
                            if c == 'OPB' and op in ('<', '>'):
                                continue
                            add({'n': n, 'signs': signs, 'op': op, 'c': c0, 'cls': c})
    elif name == 'c04.mapping':
        for kind in ('complete', 'functional', 'injective', 'surjective', 'nondecreasing'):
            for (n, m) in ((3, 11), (11, 3), (10, 10), (2, 17)):
                add({'shape': 'unary', 'n': n, 'm': m, 'kind': kind, 'cls': 'CNF' if (n + m) % 2 else 'OPB'})
            for (l, r, w) in ((10, 11, 2), (11, 11, 3)):
                add({'shape': 'sparse', 'l': l, 'r': r, 'edges': _sorted_bip(bip_band(l, r, w)), 'kind': kind, 'cls': 'OPB' if l % 2 else 'CNF'})
            if kind != 'surjective':
                for (n, m) in ((3, 10), (2, 16), (3, 17), (2, 33), (4, 11)):
                    add({'shape': 'binary', 'n': n, 'm': m, 'kind': kind, 'cls': 'OPB' if (n + m) % 3 == 0 else 'CNF'})
    elif name == 'c05.subst':
        for n, cl in ((11, [[1, -11], [10, 11, -2], [-5], [9, 10]]), (10, [[10], [-10, 1], [2, -3, 9, 10]]), (17, [[16, -17], [1, 17]])):
            f = {'clauses': cl, 'n': n}
            for t in ({'t': 'xor', 'k': 2}, {'t': 'or', 'k': 2}, {'t': 'maj', 'k': 3}, {'t': 'eq', 'k': 2}, {'t': 'neq', 'k': 3}, {'t': 'one', 'k': 2},
                      {'t': 'lift', 'k': 2}, {'t': 'ite'}, {'t': 'flip'}, {'t': 'exact', 'k': 3, 'K': 2}, {'t': 'atleast', 'k': 2, 'K': 1},
                      {'t': 'anybut', 'k': 2, 'K': 1}):
                add({'f': f, 't': t})
            for r, w in ((n + 1, 2), (n, 3), (10, 1)):
                for nm in ('xorcomp', 'majcomp'):
                    add({'f': f, 't': {'t': nm, 'l': n, 'r': r, 'B': _sorted_bip(bip_band(n, r, w))}})
        # wide gadgets on a small formula: 9..11 and 16/17 copies per variable
        f = {'clauses': [[1, -2], [2]], 'n': 2}
        units = {'clauses': [[1], [-2]], 'n': 2}
        for k in (9, 10, 11):
            for nm in ('or', 'eq', 'neq', 'one'):
                add({'f': f, 't': {'t': nm, 'k': k}})
            for nm in ('xor', 'maj'):
                add({'f': units, 't': {'t': nm, 'k': k}})
        for k in (16, 17):
            for nm in ('or', 'eq', 'one'):
                add({'f': f, 't': {'t': nm, 'k': k}})
    return [dict(p, big=1) for p in P]
