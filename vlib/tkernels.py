"""Engine T obligations: integer index kernels of /repo translated from their current source into z3 Int terms and
proved for ALL integer values of the stated symbolic quantities (sizes, offsets, indices are unbounded unless a
concrete value is stated).  Every obligation is (name, assumptions, goal, replay-recipe).  Verdicts: unsat = proved,
sat = counterexample (replayed on the real code), unknown = inconclusive (never counted).
The translation is validated on every run by pushing concrete values through the real function and through the
z3 term (`validate`).
"""
import ast
import inspect
import itertools
import textwrap
import time

try:
    import z3
    from .tengine import Evaluator, Obj, Opaque, SymRange, TranslationRefused, prove
except ImportError:          # the replay interpreter has no solver: only replay_model is used there
    z3 = None


def _block_setup(ranges, n0):
    from cnfgen.formula.variables import BlockOfVariables
    base = [n0 >= 0] + [r >= 1 for r in ranges if z3.is_expr(r)]
    ev = Evaluator(base)
    formula = Opaque({'number_of_variables': lambda: n0})
    obj = Obj(BlockOfVariables)
    ev.call_method(obj, '__init__', [formula, list(ranges), 'X'])
    return ev, obj


def block_obligations(shape):
    """shape: list with None for a symbolic (unbounded) range and an int for a concrete one"""
    d = len(shape)
    n0 = z3.Int('n0')
    R = [z3.Int('r%d' % i) if s is None else s for i, s in enumerate(shape)]
    I = [z3.Int('i%d' % i) for i in range(d)]
    J = [z3.Int('j%d' % i) for i in range(d)]
    ev, obj = _block_setup(R, n0)
    N = obj.attrs['N']
    inr = [z3.And(1 <= i, i <= r) for i, r in zip(I, R)]
    jnr = [z3.And(1 <= j, j <= r) for j, r in zip(J, R)]
    lit = ev.call_method(obj, '_unsafe_index_to_lit', [list(I)])
    litj = ev.call_method(obj, '_unsafe_index_to_lit', [list(J)])
    tag = 'block[%s]' % ','.join('*' if s is None else str(s) for s in shape)
    out = []
    out.append((tag + ' identifiers lie in the contiguous range n0+1..n0+N', ev.assumptions + inr, z3.And(n0 + 1 <= lit, lit <= n0 + N),
                {'kind': 'block', 'shape': shape, 'vars': ['n0'] + ['r%d' % i for i in range(d)] + ['i%d' % i for i in range(d)]}))
    ev2 = Evaluator(ev.assumptions + inr)
    back = ev2.call_method(obj, 'to_index', [lit])
    out.append((tag + ' to_index(lit(index)) == index', ev2.assumptions, z3.And(*[b == i for b, i in zip(back, I)]),
                {'kind': 'block', 'shape': shape}))
    ev3 = Evaluator(ev.assumptions + inr)
    backn = ev3.call_method(obj, 'to_index', [-lit])
    out.append((tag + ' to_index(-lit(index)) == index', ev3.assumptions, z3.And(*[b == i for b, i in zip(backn, I)]),
                {'kind': 'block', 'shape': shape}))
    # lexicographic order of indices = identifier order
    lex = z3.BoolVal(False)
    for k in range(d - 1, -1, -1):
        lex = z3.Or(I[k] < J[k], z3.And(I[k] == J[k], lex)) if k < d - 1 else (I[k] < J[k])
    lexlt = None
    for k in range(d):
        pref = z3.And(*[I[t] == J[t] for t in range(k)]) if k else z3.BoolVal(True)
        term = z3.And(pref, I[k] < J[k])
        lexlt = term if lexlt is None else z3.Or(lexlt, term)
    out.append((tag + ' index < index\' (lexicographic) implies lit < lit\'', ev.assumptions + inr + jnr + [lexlt], lit < litj,
                {'kind': 'block', 'shape': shape}))
    # identifier -> index -> identifier for any identifier of the group
    v = z3.Int('v')
    ev4 = Evaluator(ev.assumptions + [n0 + 1 <= v, v <= n0 + N])
    idx = ev4.call_method(obj, 'to_index', [v])
    lit2 = ev4.call_method(obj, '_unsafe_index_to_lit', [list(idx)])
    out.append((tag + ' lit(to_index(v)) == v and the index is legal', ev4.assumptions,
                z3.And(lit2 == v, *[z3.And(1 <= x, x <= r) for x, r in zip(idx, R)]), {'kind': 'block', 'shape': shape}))
    return out, ev.notes


def binmap_obligations():
    """BinaryMappingVariables with symbolic domain size n, bit length k and offset (the float log that computes k from
    the range size is not translatable: k is an arbitrary positive integer here)"""
    from cnfgen.formula.variables import BinaryMappingVariables
    n, k, off, i, b = z3.Ints('n k off i b')
    obj = Obj(BinaryMappingVariables, {'domain_size': n, 'bitlength': k, 'id_offset': off, 'ids': SymRange(off + 1, off + n * k + 1)})
    base = [n >= 1, k >= 1, off >= 0]
    ev = Evaluator(base + [1 <= i, i <= n, 0 <= b, b < k])
    lit = ev.call_method(obj, '_unsafe_index_to_lit', [[i, b]])
    out = [('binmap identifiers lie in off+1..off+n*k', ev.assumptions, z3.And(off + 1 <= lit, lit <= off + n * k), {'kind': 'binmap'})]
    ev2 = Evaluator(list(ev.assumptions))
    back = ev2.call_method(obj, 'to_index', [lit])
    out.append(('binmap to_index(lit(i,b)) == (i,b)', ev2.assumptions, z3.And(back[0] == i, back[1] == b), {'kind': 'binmap'}))
    out.append(('binmap layout: bits of i are consecutive, most significant first', ev.assumptions, lit == off + (i - 1) * k + (k - 1 - b) + 1, {'kind': 'binmap'}))
    v = z3.Int('v')
    ev3 = Evaluator(base + [off + 1 <= v, v <= off + n * k])
    idx = ev3.call_method(obj, 'to_index', [v])
    lit2 = ev3.call_method(obj, '_unsafe_index_to_lit', [list(idx)])
    out.append(('binmap lit(to_index(v)) == v with a legal index', ev3.assumptions,
                z3.And(lit2 == v, 1 <= idx[0], idx[0] <= n, 0 <= idx[1], idx[1] < k), {'kind': 'binmap'}))
    return out, ev.notes


def vdw_obligations():
    """loop bounds of _vdw_ap_generator: (d, i) is visited  <=>  i, i+d, ..., i+(k-1)d is a progression inside 1..N"""
    from cnfgen.families import ramsey
    src = textwrap.dedent(inspect.getsource(ramsey._vdw_ap_generator))
    fn = ast.parse(src).body[0]
    exprs = {}
    for node in ast.walk(fn):
        if isinstance(node, ast.Assign) and isinstance(node.targets[0], ast.Name) and node.targets[0].id in ('max_d', 'max_i'):
            exprs[node.targets[0].id] = node.value
    if set(exprs) != {'max_d', 'max_i'}:
        raise TranslationRefused('max_d / max_i not found in _vdw_ap_generator')
    N, d, i = z3.Ints('N d i')
    out = []
    for kk in (None, 2, 3, 4, 5, 6, 7, 8):
        k = z3.Int('k') if kk is None else kk
        base = [N >= 0] + ([k >= 2] if kk is None else [])
        ev = Evaluator(base)
        env = {'N': N, 'k': k, 'd': d}
        max_d = ev.expr(exprs['max_d'], env)
        max_i = ev.expr(exprs['max_i'], env)
        visited = z3.And(1 <= d, d <= max_d, 1 <= i, i <= max_i)
        is_ap = z3.And(d >= 1, i >= 1, i + d * (k - 1) <= N)
        out.append(('vdw progression bounds, k=%s' % ('symbolic' if kk is None else kk), base, visited == is_ap, {'kind': 'vdw', 'k': kk}))
    return out, []


def threshold_obligations():
    """the four majority/minority builders of CNFLinear: threshold arithmetic for ALL list lengths n and counts"""
    from cnfgen.formula.linear import CNFLinear
    n, cnt = z3.Ints('n cnt')
    out = []
    want = {'add_loose_majority': 2 * cnt >= n, 'add_strict_majority': 2 * cnt > n, 'add_loose_minority': 2 * cnt <= n, 'add_strict_minority': 2 * cnt < n}
    for name, meaning in want.items():
        ev = Evaluator([n >= 0, cnt >= 0, cnt <= n])
        rec = {}

        def add_linear(lits, op, value, check=True, _rec=rec):
            _rec['op'], _rec['value'] = op, value
        ev.funcs['isgenerator'] = lambda x: False
        ev.intercept['add_linear'] = add_linear
        lits = Obj(list, {'__len__': n})
        ev.call_method(Obj(CNFLinear), name, [lits])
        op, th = rec['op'], rec['value']
        cond = {'>=': cnt >= th, '<=': cnt <= th, '>': cnt > th, '<': cnt < th}[op]
        out.append(('%s: "count %s threshold" <=> documented meaning, all n' % (name, op), ev.assumptions, cond == meaning, {'kind': 'threshold', 'name': name}))
    return out, []


def all_obligations(tier):
    groups = []
    shapes = [[None], [None, None], [None, None, 1], [None, None, 2], [None, None, 3], [None, None, 4]]
    if tier != 'quick':
        shapes += [[None, None, 5], [None, None, 6], [None, None, 2, 2], [None, None, 2, 3], [None, None, 3, 3], [None, None, None]]
    for sh in shapes:
        groups.append(('block', lambda sh=sh: block_obligations(sh)))
    groups.append(('binmap', binmap_obligations))
    groups.append(('vdw', vdw_obligations))
    groups.append(('threshold', threshold_obligations))
    return groups


# ----------------------------------------------------------------- replay and translator validation
def concrete_block(shape_vals, n0, idx):
    from cnfgen.formula.cnf import CNF
    F = CNF()
    F.update_variable_number(n0)
    X = F.new_block(*shape_vals)
    lit = X(*idx)
    return lit, list(X.to_index(lit)), list(X.to_index(-lit)), len(X)


def validate():
    """translator validation: concrete values through the real code and through the z3 terms"""
    problems = []
    # blocks
    for shape_vals, n0v, idx in (([3], 0, [2]), ([2, 3], 5, [2, 1]), ([4, 2, 3], 7, [3, 2, 3]), ([2, 2, 2, 2], 1, [2, 1, 2, 2])):
        d = len(shape_vals)
        n0 = z3.Int('n0')
        R = [z3.Int('r%d' % i) for i in range(d)]
        I = [z3.Int('i%d' % i) for i in range(d)]
        ev, obj = _block_setup(R, n0)
        lit = ev.call_method(obj, '_unsafe_index_to_lit', [list(I)])
        sub = [(n0, z3.IntVal(n0v))] + [(r, z3.IntVal(v)) for r, v in zip(R, shape_vals)] + [(i, z3.IntVal(v)) for i, v in zip(I, idx)]
        got = z3.simplify(z3.substitute(lit, *sub)).as_long()
        real = concrete_block(shape_vals, n0v, idx)
        if got != real[0]:
            problems.append('block %s: translated literal %d, real %d' % (shape_vals, got, real[0]))
        ev2 = Evaluator(ev.assumptions + [z3.And(1 <= i, i <= r) for i, r in zip(I, R)])
        back = ev2.call_method(obj, 'to_index', [lit])
        gotb = [z3.simplify(z3.substitute(b, *sub)).as_long() for b in back]
        if gotb != real[1]:
            problems.append('block %s: translated to_index %s, real %s' % (shape_vals, gotb, real[1]))
    # vdw bounds against the real generator
    from cnfgen.families.ramsey import _vdw_ap_generator
    obl, _ = vdw_obligations()
    for Nv, kv in ((9, 3), (10, 4), (5, 2), (3, 5)):
        real = {(ap[0], ap[1] - ap[0]) for ap in _vdw_ap_generator(Nv, kv)}
        name, base, goal, _ = obl[0]
        N, d, i, k = z3.Ints('N d i k')
        visited = goal.arg(0)
        mine = set()
        for dv in range(0, Nv + 2):
            for iv in range(0, Nv + 2):
                t = z3.simplify(z3.substitute(visited, (N, z3.IntVal(Nv)), (k, z3.IntVal(kv)), (d, z3.IntVal(dv)), (i, z3.IntVal(iv))))
                if z3.is_true(t):
                    mine.add((iv, dv))
        if mine != real:
            problems.append('vdw bounds N=%d k=%d: translated %s, real %s' % (Nv, kv, sorted(mine)[:5], sorted(real)[:5]))
    return problems


def replay_model(recipe, values):
    """concrete re-run of a counterexample on the real code; returns (reproduced, message)"""
    kind = recipe['kind']
    if kind == 'block':
        shape = recipe['shape']
        d = len(shape)
        rv = [values.get('r%d' % i, shape[i]) if shape[i] is None else shape[i] for i in range(d)]
        n0 = values.get('n0', 0)
        from cnfgen.formula.cnf import CNF
        F = CNF()
        F.update_variable_number(n0)
        X = F.new_block(*rv)
        N = len(X)
        msgs = []
        if all(('i%d' % t) in values for t in range(d)):
            idx = [values['i%d' % t] for t in range(d)]
            if all(1 <= a <= r for a, r in zip(idx, rv)):
                lit = X(*idx)
                if not (n0 + 1 <= lit <= n0 + N) or list(X.to_index(lit)) != idx or list(X.to_index(-lit)) != idx:
                    return True, 'block%s offset %d index %s -> literal %d -> %s' % (rv, n0, idx, lit, list(X.to_index(lit)))
                if all(('j%d' % t) in values for t in range(d)):
                    jdx = [values['j%d' % t] for t in range(d)]
                    if all(1 <= a <= r for a, r in zip(jdx, rv)) and idx < jdx and not X(*idx) < X(*jdx):
                        return True, 'order broken: %s -> %d, %s -> %d' % (idx, X(*idx), jdx, X(*jdx))
        if 'v' in values and n0 + 1 <= values['v'] <= n0 + N:
            v = values['v']
            idx = list(X.to_index(v))
            if X(*idx) != v:
                return True, 'identifier %d -> index %s -> identifier %d' % (v, idx, X(*idx))
        return False, 'the real code behaves correctly on the model values %s' % values
    if kind == 'vdw':
        from cnfgen.families.ramsey import _vdw_ap_generator
        N, k, d, i = values.get('N', 0), values.get('k', recipe.get('k') or 2), values.get('d', 0), values.get('i', 0)
        if N > 400:
            return False, 'model too large to enumerate'
        real = {(ap[0], ap[1] - ap[0]) for ap in _vdw_ap_generator(N, k)} if k >= 2 else set()
        is_ap = d >= 1 and i >= 1 and i + d * (k - 1) <= N
        return ((i, d) in real) != is_ap, 'N=%d k=%d: progression start %d step %d is%s generated, should%s be' % (
            N, k, i, d, '' if (i, d) in real else ' not', '' if is_ap else ' not')
    if kind == 'threshold':
        from cnfgen.formula.linear import CNFLinear
        n, cnt = values.get('n', 0), values.get('cnt', 0)
        if n > 16:
            return False, 'model too large'
        F = CNFLinear()
        getattr(F, recipe['name'])(list(range(1, n + 1)))
        a = [v <= cnt for v in range(1, n + 1)]
        val = all(any(a[abs(l) - 1] == (l > 0) for l in c) for c in F)
        want = {'add_loose_majority': 2 * cnt >= n, 'add_strict_majority': 2 * cnt > n, 'add_loose_minority': 2 * cnt <= n, 'add_strict_minority': 2 * cnt < n}[recipe['name']]
        return val != want, '%s on %d literals with %d true: clauses say %s, meaning says %s' % (recipe['name'], n, cnt, val, want)
    if kind == 'binmap':
        return False, 'binary mapping kernels: replay through C11 harness h_s_binmap'
    return False, 'unknown recipe'


def run_group(fn, part, timeout_ms=60000):
    """discharge one group of obligations; returns list of candidate cases"""
    cases = []
    try:
        obligations, notes = fn()
    except TranslationRefused as e:
        part.counts['t_refused'] += 1
        part.records.append({'condition': 'engine T', 'verdict': 'refused', 'detail': str(e)})
        return cases
    for name, assumptions, goal, recipe in obligations:
        t = time.time()
        r, model = prove(assumptions, goal, timeout_ms)
        dt = time.time() - t
        part.solver_s += dt
        part.counts['t_' + r] += 1
        rec = {'condition': 'T: ' + name, 'verdict': {'unsat': 'proved', 'sat': 'refuted', 'unknown': 'inconclusive'}[r], 'seconds': round(dt, 2),
               'mode': 'symbolic (unbounded integers)', 'notes': notes[:3]}
        if r == 'unsat':
            part.counts['unsat'] += 1
            part.nontrivial.add('T:' + name)
        elif r == 'sat':
            values = {str(dcl): model[dcl].as_long() for dcl in model.decls() if model[dcl] is not None and z3.is_int_value(model[dcl])}
            rec['model'] = values
            cases.append({'harness': 'c11.t', 'kind': 'kernel_counterexample', 'input': {'recipe': recipe, 'values': values, 'obligation': name},
                          'what': 'z3 model falsifies: ' + name})
        part.records.append(rec)
    return cases


def run_all(part, tier, kinds, harness):
    """discharge the obligation groups whose kind is in `kinds`; candidate cases are tagged with `harness`"""
    try:
        problems = validate()
    except TranslationRefused as e:
        # the current source of a kernel uses a construct outside the translated subset: engine T decides nothing on
        # this tree (the CrossHair harnesses of the same property still run); recorded, never guessed
        part.counts['t_refused'] += 1
        part.records.append({'condition': 'engine T', 'verdict': 'refused', 'detail': 'translator validation: %s' % e})
        return
    for pb in problems:
        part.errors.append('engine T translator validation failed: ' + pb)
    if problems:
        return
    part.counts['t_translator_validation_points'] += 8
    for kind, fn in all_obligations(tier):
        if kind not in kinds:
            continue
        for c in run_group(fn, part, 30000 if tier == 'quick' else 120000):
            c['harness'] = harness
            part.cases.append(c)
    from cnfgen.formula.variables import BlockOfVariables, BinaryMappingVariables, BaseVariableGroup
    from cnfgen.families.ramsey import _vdw_ap_generator
    from cnfgen.formula.linear import CNFLinear
    part.encoded(BlockOfVariables.__init__, BlockOfVariables._unsafe_index_to_lit, BlockOfVariables.to_index, BaseVariableGroup.__contains__,
                 BinaryMappingVariables._unsafe_index_to_lit, BinaryMappingVariables.to_index, _vdw_ap_generator,
                 CNFLinear.add_loose_majority, CNFLinear.add_strict_majority, CNFLinear.add_loose_minority, CNFLinear.add_strict_minority)


def replay_case(case):
    inp = case['input']
    return replay_model(inp['recipe'], inp['values'])
