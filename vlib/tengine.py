"""Engine T: a small symbolic evaluator of Python source (AST -> z3 Int terms) for integer index kernels.

The functions are re-parsed from /repo's CURRENT source (inspect.getsource + ast) on every run.  Supported subset:
assignment (incl. tuple unpacking, augmented), return, for over sequences of concrete length (lists, zip, range
with concrete bounds, reversed slices), list.append / list.pop, + - * // %, comparisons, and/or/not, abs, len, sum over
a generator, int(), attribute access on `self`, calls of other methods of the same object (inlined), membership in a
range with symbolic bounds.  `if <guard>: raise ...` adds NOT guard to the path assumptions (the documented
precondition); `//` and `%` require the divisor to be provably positive under the assumptions (else the translator
refuses); anything else makes the translator REFUSE (TranslationRefused) - it never guesses.
"""
import ast
import inspect
import textwrap

import z3


class TranslationRefused(Exception):
    pass


class SymRange:
    def __init__(self, lo, hi):
        self.lo, self.hi = lo, hi

    def contains(self, x):
        return z3.And(self.lo <= x, x < self.hi)


class _Return(Exception):
    def __init__(self, value):
        self.value = value


class Obj:
    """a symbolic object: attribute dict + the python class whose methods may be inlined"""
    def __init__(self, cls, attrs=None):
        self.cls = cls
        self.attrs = dict(attrs or {})


class Opaque:
    """a value the kernels never compute with (labels, formula objects): only methods listed here answer"""
    def __init__(self, methods=None):
        self.methods = methods or {}


def _is_sym(x):
    return isinstance(x, z3.ExprRef)


class Evaluator:
    def __init__(self, assumptions=None):
        self.assumptions = list(assumptions or [])
        self.notes = []
        self.depth = 0
        self.funcs = {}          # stubs for free functions (e.g. isgenerator)
        self.intercept = {}      # method name -> python callable recording the call instead of inlining it

    # -------------------------------------------------------------- helpers
    def entails(self, cond):
        s = z3.Solver()
        s.set('timeout', 20000)
        s.add(*self.assumptions)
        s.add(z3.Not(cond))
        return str(s.check()) == 'unsat'

    def method_ast(self, cls, name):
        for k in cls.__mro__:
            if name in k.__dict__:
                src = textwrap.dedent(inspect.getsource(k.__dict__[name]))
                return ast.parse(src).body[0], k
        raise TranslationRefused('no method %s' % name)

    def call_method(self, obj, name, args, kwargs=None):
        fn, owner = self.method_ast(obj.cls, name)
        params = [a.arg for a in fn.args.args]
        env = {params[0]: obj}
        defaults = fn.args.defaults
        for i, p in enumerate(params[1:]):
            if i < len(args):
                env[p] = args[i]
            elif kwargs and p in kwargs:
                env[p] = kwargs[p]
            else:
                j = i - (len(params) - 1 - len(defaults))
                if j < 0:
                    raise TranslationRefused('missing argument %s' % p)
                env[p] = self.expr(defaults[j], {})
        env['__owner__'] = owner
        self.depth += 1
        if self.depth > 12:
            raise TranslationRefused('call depth')
        try:
            self.block(fn.body, env)
        except _Return as r:
            return r.value
        finally:
            self.depth -= 1
        return None

    # ----------------------------------------------------------- statements
    def block(self, stmts, env):
        for st in stmts:
            self.stmt(st, env)

    def stmt(self, st, env):
        if isinstance(st, ast.Expr):
            if isinstance(st.value, ast.Constant) and isinstance(st.value.value, str):
                return                                         # docstring
            self.expr(st.value, env)
            return
        if isinstance(st, ast.Assign):
            v = self.expr(st.value, env)
            for t in st.targets:
                self.assign(t, v, env)
            return
        if isinstance(st, ast.AugAssign):
            cur = self.expr(st.target, env)
            v = self.binop(st.op, cur, self.expr(st.value, env))
            self.assign(st.target, v, env)
            return
        if isinstance(st, ast.Return):
            raise _Return(self.expr(st.value, env) if st.value is not None else None)
        if isinstance(st, ast.For):
            seq = self.expr(st.iter, env)
            if not isinstance(seq, (list, tuple)):
                raise TranslationRefused('for over a sequence of unknown length')
            for item in seq:
                self.assign(st.target, item, env)
                self.block(st.body, env)
            if st.orelse:
                raise TranslationRefused('for/else')
            return
        if isinstance(st, ast.If):
            only_raise = all(isinstance(b, ast.Raise) for b in st.body) and not st.orelse
            try:
                test = self.expr(st.test, env)
            except TranslationRefused as e:
                if only_raise:
                    self.notes.append('untranslated validation guard skipped (input assumed valid): line %d' % st.lineno)
                    return
                raise
            if isinstance(test, bool):
                if test:
                    self.block(st.body, env)
                else:
                    self.block(st.orelse, env)
                return
            if only_raise:
                self.assumptions.append(z3.Not(test))            # the documented precondition
                return
            # a symbolic branch: decide it if the assumptions do
            if self.entails(test):
                self.block(st.body, env)
                return
            if self.entails(z3.Not(test)):
                self.block(st.orelse, env)
                return
            raise TranslationRefused('symbolic branch at line %d' % st.lineno)
        if isinstance(st, ast.Try):
            self.notes.append('try block treated as validation and skipped: line %d' % st.lineno)
            return
        if isinstance(st, ast.Pass):
            return
        if isinstance(st, ast.Raise):
            raise TranslationRefused('unconditional raise reached')
        raise TranslationRefused('statement %s' % type(st).__name__)

    def assign(self, target, value, env):
        if isinstance(target, ast.Name):
            env[target.id] = value
        elif isinstance(target, (ast.Tuple, ast.List)):
            vals = list(value)
            if len(vals) != len(target.elts):
                raise TranslationRefused('unpack')
            for t, v in zip(target.elts, vals):
                self.assign(t, v, env)
        elif isinstance(target, ast.Attribute):
            obj = self.expr(target.value, env)
            if not isinstance(obj, Obj):
                raise TranslationRefused('attribute store')
            obj.attrs[target.attr] = value
        elif isinstance(target, ast.Subscript):
            seq = self.expr(target.value, env)
            idx = self.expr(target.slice, env)
            if not isinstance(seq, list) or not isinstance(idx, int):
                raise TranslationRefused('subscript store')
            seq[idx] = value
        else:
            raise TranslationRefused('assignment target')

    # ---------------------------------------------------------- expressions
    def binop(self, op, a, b):
        if isinstance(op, ast.Add):
            if isinstance(a, (list, tuple)) and isinstance(b, (list, tuple)):
                return list(a) + list(b)
            return a + b
        if isinstance(op, ast.Sub):
            return a - b
        if isinstance(op, ast.Mult):
            if isinstance(a, list) and isinstance(b, int):
                return a * b
            return a * b
        if isinstance(op, (ast.FloorDiv, ast.Mod)):
            if isinstance(a, int) and isinstance(b, int):
                return a // b if isinstance(op, ast.FloorDiv) else a % b
            bb = b if _is_sym(b) else z3.IntVal(b)
            if not self.entails(bb > 0):
                raise TranslationRefused('divisor not provably positive')
            aa = a if _is_sym(a) else z3.IntVal(a)
            return aa / bb if isinstance(op, ast.FloorDiv) else aa % bb   # z3 div/mod = python floor semantics for positive divisors
        raise TranslationRefused('operator %s' % type(op).__name__)

    def expr(self, e, env):
        if isinstance(e, ast.Constant):
            return e.value
        if isinstance(e, ast.Name):
            if e.id in env:
                return env[e.id]
            if e.id in ('True', 'False', 'None'):
                return {'True': True, 'False': False, 'None': None}[e.id]
            raise TranslationRefused('free name %s' % e.id)
        if isinstance(e, ast.BinOp):
            return self.binop(e.op, self.expr(e.left, env), self.expr(e.right, env))
        if isinstance(e, ast.UnaryOp):
            v = self.expr(e.operand, env)
            if isinstance(e.op, ast.USub):
                return -v
            if isinstance(e.op, ast.Not):
                return (not v) if isinstance(v, bool) else z3.Not(v)
            raise TranslationRefused('unary')
        if isinstance(e, ast.BoolOp):
            vals = [self.expr(v, env) for v in e.values]
            if all(isinstance(v, bool) for v in vals):
                return all(vals) if isinstance(e.op, ast.And) else any(vals)
            vals = [z3.BoolVal(v) if isinstance(v, bool) else v for v in vals]
            return z3.And(*vals) if isinstance(e.op, ast.And) else z3.Or(*vals)
        if isinstance(e, ast.Compare):
            left = self.expr(e.left, env)
            out = []
            for op, rhs in zip(e.ops, e.comparators):
                right = self.expr(rhs, env)
                out.append(self.compare(op, left, right, env))
                left = right
            if all(isinstance(o, bool) for o in out):
                return all(out)
            out = [z3.BoolVal(o) if isinstance(o, bool) else o for o in out]
            return z3.And(*out) if len(out) > 1 else out[0]
        if isinstance(e, (ast.List, ast.Tuple)):
            return [self.expr(x, env) for x in e.elts]
        if isinstance(e, ast.Attribute):
            obj = self.expr(e.value, env)
            if isinstance(obj, Obj):
                if e.attr in obj.attrs:
                    return obj.attrs[e.attr]
                raise TranslationRefused('attribute %s not set' % e.attr)
            raise TranslationRefused('attribute of non-object')
        if isinstance(e, ast.Subscript):
            seq = self.expr(e.value, env)
            if isinstance(e.slice, ast.Slice):
                lo = self.expr(e.slice.lower, env) if e.slice.lower else None
                hi = self.expr(e.slice.upper, env) if e.slice.upper else None
                st = self.expr(e.slice.step, env) if e.slice.step else None
                return list(seq)[lo:hi:st]
            idx = self.expr(e.slice, env)
            if isinstance(seq, (list, tuple)) and isinstance(idx, int):
                return seq[idx]
            raise TranslationRefused('subscript')
        if isinstance(e, ast.GeneratorExp) or isinstance(e, ast.ListComp):
            if len(e.generators) != 1 or e.generators[0].ifs:
                raise TranslationRefused('comprehension')
            gen = e.generators[0]
            seq = self.expr(gen.iter, env)
            if not isinstance(seq, (list, tuple)):
                raise TranslationRefused('comprehension over unknown length')
            out = []
            for item in seq:
                env2 = dict(env)
                self.assign(gen.target, item, env2)
                out.append(self.expr(e.elt, env2))
            return out
        if isinstance(e, ast.Call):
            return self.call(e, env)
        if isinstance(e, ast.IfExp):
            t = self.expr(e.test, env)
            if isinstance(t, bool):
                return self.expr(e.body if t else e.orelse, env)
            return z3.If(t, self.expr(e.body, env), self.expr(e.orelse, env))
        raise TranslationRefused('expression %s' % type(e).__name__)

    def compare(self, op, a, b, env):
        if isinstance(op, (ast.In, ast.NotIn)):
            if isinstance(b, SymRange):
                r = b.contains(a)
            elif isinstance(b, Obj):
                r = self.call_method(b, '__contains__', [a])
            elif isinstance(b, (list, tuple)) and not _is_sym(a) and all(not _is_sym(x) for x in b):
                r = a in b
            else:
                raise TranslationRefused('membership')
            if isinstance(op, ast.NotIn):
                return (not r) if isinstance(r, bool) else z3.Not(r)
            return r
        if isinstance(op, (ast.Is, ast.IsNot)):
            if b is None or a is None:
                r = a is b
                return r if isinstance(op, ast.Is) else (not r)
            raise TranslationRefused('identity comparison')
        table = {ast.Eq: lambda: a == b, ast.NotEq: lambda: a != b, ast.Lt: lambda: a < b, ast.LtE: lambda: a <= b,
                 ast.Gt: lambda: a > b, ast.GtE: lambda: a >= b}
        for k, f in table.items():
            if isinstance(op, k):
                return f()
        raise TranslationRefused('comparison')

    def call(self, e, env):
        f = e.func
        if isinstance(f, ast.Name) and f.id == 'isinstance':
            self.notes.append('isinstance(...) assumed true (inputs are integers)')
            return True
        args = [self.expr(a, env) for a in e.args]
        kwargs = {k.arg: self.expr(k.value, env) for k in e.keywords}
        if isinstance(f, ast.Name):
            if f.id == 'abs':
                x = args[0]
                return abs(x) if isinstance(x, int) else z3.If(x >= 0, x, -x)
            if f.id == 'len':
                if isinstance(args[0], (list, tuple)):
                    return len(args[0])
                if isinstance(args[0], Obj) and '__len__' in args[0].attrs:
                    return args[0].attrs['__len__']
                raise TranslationRefused('len')
            if f.id == 'sum':
                tot = 0
                for x in args[0]:
                    tot = tot + x
                return tot
            if f.id == 'zip':
                return [list(t) for t in zip(*args)]
            if f.id == 'range':
                if all(isinstance(a, int) for a in args):
                    return list(range(*args))
                if len(args) == 2:
                    return SymRange(args[0], args[1])
                raise TranslationRefused('range')
            if f.id in ('int', 'list', 'tuple'):
                return args[0]
            if f.id == 'isinstance':
                return True
            if f.id == 'enumerate':
                return [[i, x] for i, x in enumerate(args[0])]
            if f.id in self.funcs:
                return self.funcs[f.id](*args, **kwargs)
            raise TranslationRefused('call of %s' % f.id)
        if isinstance(f, ast.Attribute):
            # explicit base-class initialiser:  Base.__init__(self, ...)
            if isinstance(f.value, ast.Name) and f.value.id not in env and f.attr == '__init__' and args and isinstance(args[0], Obj):
                obj = args[0]
                base = None
                for k in obj.cls.__mro__:
                    if k.__name__ == f.value.id:
                        base = k
                if base is None:
                    raise TranslationRefused('unknown base %s' % f.value.id)
                saved = obj.cls
                fn, _ = self.method_ast(base, '__init__')
                tmp = Obj(base, obj.attrs)
                self.call_method(tmp, '__init__', args[1:], kwargs)
                obj.attrs = tmp.attrs
                obj.cls = saved
                return None
            recv = self.expr(f.value, env)
            if isinstance(recv, list):
                if f.attr == 'append':
                    recv.append(args[0])
                    return None
                if f.attr == 'pop':
                    return recv.pop(*args)
                raise TranslationRefused('list method %s' % f.attr)
            if isinstance(recv, Obj):
                if f.attr in self.intercept:
                    return self.intercept[f.attr](*args, **kwargs)
                return self.call_method(recv, f.attr, args, kwargs)
            if isinstance(recv, Opaque):
                if f.attr in recv.methods:
                    return recv.methods[f.attr](*args)
                raise TranslationRefused('opaque method %s' % f.attr)
            if isinstance(recv, str):
                raise TranslationRefused('string method')
            raise TranslationRefused('method call on %s' % type(recv).__name__)
        raise TranslationRefused('call')


def prove(assumptions, goal, timeout_ms=60000):
    """('unsat', None) = goal holds for all integer values under the assumptions; ('sat', model) = counterexample"""
    s = z3.Solver()
    s.set('timeout', timeout_ms)
    s.add(*assumptions)
    s.add(z3.Not(goal))
    r = str(s.check())
    return r, (s.model() if r == 'sat' else None)
