"""Boolean/arithmetic algebra with two interpretations.

Reference predicates (``Spec``) are written once against this tiny interface.
`Z3Alg` builds z3 terms (the deciding interpretation: one solver query covers
all assignments); `PyAlg` evaluates the same predicate on one concrete
assignment and is used only to replay a solver counterexample against the
real formula in a process that has no solver loaded.
"""


def _flat(xs):
    if len(xs) == 1 and not _is_term(xs[0]):
        return list(xs[0])
    return list(xs)


def _is_term(x):
    return isinstance(x, (bool, int)) or type(x).__module__.startswith('z3')


class PyAlg:
    """Concrete interpretation: variables are python bools."""
    name = 'py'
    true = True
    false = False

    def __init__(self, assignment):
        # assignment: dict var->bool, or list (index 0 unused / or 0-based list of n bools)
        if isinstance(assignment, dict):
            self.a = assignment
        else:
            self.a = {i + 1: bool(v) for i, v in enumerate(assignment)}

    def var(self, i):
        return self.a[i]

    def lit(self, l):
        return self.a[l] if l > 0 else (not self.a[-l])

    def And(self, *xs):
        return all(_flat(xs))

    def Or(self, *xs):
        return any(_flat(xs))

    def Not(self, x):
        return not x

    def Implies(self, a, b):
        return (not a) or b

    def Iff(self, a, b):
        return bool(a) == bool(b)

    def Xor(self, *xs):
        r = False
        for x in _flat(xs):
            r ^= bool(x)
        return r

    def Ite(self, c, a, b):
        return a if c else b

    def Count(self, xs):
        return sum(1 for x in xs if x)

    def WSum(self, pairs):
        return sum(w for w, x in pairs if x)

    def AtMost(self, xs, k):
        return self.Count(list(xs)) <= k

    def AtLeast(self, xs, k):
        return self.Count(list(xs)) >= k

    def Exactly(self, xs, k):
        return self.Count(list(xs)) == k

    def Eq(self, a, b):
        return a == b

    def Ne(self, a, b):
        return a != b

    def Lt(self, a, b):
        return a < b

    def Le(self, a, b):
        return a <= b

    def Mod2(self, a):
        return a % 2


class Z3Alg:
    """Symbolic interpretation: variables are z3 Bools x1..xn (one context per process)."""
    name = 'z3'

    def __init__(self, prefix='x'):
        import z3
        self.z3 = z3
        self.prefix = prefix
        self.true = z3.BoolVal(True)
        self.false = z3.BoolVal(False)
        self._vars = {}

    def var(self, i):
        v = self._vars.get(i)
        if v is None:
            v = self._vars[i] = self.z3.Bool('%s%d' % (self.prefix, i))
        return v

    def lit(self, l):
        return self.var(l) if l > 0 else self.z3.Not(self.var(-l))

    def _b(self, x):
        if isinstance(x, bool):
            return self.true if x else self.false
        return x

    def And(self, *xs):
        xs = [self._b(x) for x in _flat(xs)]
        if not xs:
            return self.true
        return self.z3.And(*xs) if len(xs) > 1 else xs[0]

    def Or(self, *xs):
        xs = [self._b(x) for x in _flat(xs)]
        if not xs:
            return self.false
        return self.z3.Or(*xs) if len(xs) > 1 else xs[0]

    def Not(self, x):
        return self.z3.Not(self._b(x))

    def Implies(self, a, b):
        return self.z3.Implies(self._b(a), self._b(b))

    def Iff(self, a, b):
        return self._b(a) == self._b(b)

    def Xor(self, *xs):
        r = self.false
        for x in _flat(xs):
            r = self.z3.Xor(r, self._b(x))
        return r

    def Ite(self, c, a, b):
        return self.z3.If(self._b(c), a, b)

    def Count(self, xs):
        xs = [self._b(x) for x in xs]
        if not xs:
            return self.z3.IntVal(0)
        return self.z3.Sum([self.z3.If(x, 1, 0) for x in xs])

    def WSum(self, pairs):
        pairs = list(pairs)
        if not pairs:
            return self.z3.IntVal(0)
        return self.z3.Sum([self.z3.If(self._b(x), w, 0) for w, x in pairs])

    def AtMost(self, xs, k):
        xs = [self._b(x) for x in xs]
        if k < 0:
            return self.false
        if k >= len(xs):
            return self.true
        return self.z3.PbLe([(x, 1) for x in xs], k)

    def AtLeast(self, xs, k):
        xs = [self._b(x) for x in xs]
        if k <= 0:
            return self.true
        if k > len(xs):
            return self.false
        return self.z3.PbGe([(x, 1) for x in xs], k)

    def Exactly(self, xs, k):
        xs = [self._b(x) for x in xs]
        if k < 0 or k > len(xs):
            return self.false
        if not xs:
            return self.true  # k == 0
        return self.z3.PbEq([(x, 1) for x in xs], k)

    def Eq(self, a, b):
        return a == b

    def Ne(self, a, b):
        return a != b

    def Lt(self, a, b):
        return a < b

    def Le(self, a, b):
        return a <= b

    def Mod2(self, a):
        return a % 2


# ---------------------------------------------------------------- encodings

def is_opb(F):
    return hasattr(F, 'constraints') and not hasattr(F, 'clauses')


def rows_of(F):
    """The rows of a formula as plain python data (copied)."""
    if is_opb(F):
        return [list(c) for c in F.constraints()]
    return [list(c) for c in F.clauses()]


def enc_clause(alg, clause):
    return alg.Or([alg.lit(l) for l in clause])


def enc_pb(alg, row, int_sum=False):
    """A pseudo-Boolean row [(c,l)..., op, d] with any integer coefficients
    and any of the operators the library accepts."""
    terms, op, d = row[:-2], row[-2], row[-1]
    if isinstance(alg, PyAlg) or int_sum or any(c <= 0 for c, _ in terms):
        s = alg.WSum([(c, alg.lit(l)) for c, l in terms])
        return {'>=': lambda: s >= d, '<=': lambda: s <= d, '==': lambda: s == d,
                '>': lambda: s > d, '<': lambda: s < d, '!=': lambda: s != d}[op]()
    z3 = alg.z3
    tot = sum(c for c, _ in terms)
    args = [(alg.lit(l), c) for c, l in terms]
    if op == '>':
        op, d = '>=', d + 1
    if op == '<':
        op, d = '<=', d - 1
    if op == '>=':
        if d <= 0:
            return alg.true
        if d > tot:
            return alg.false
        return z3.PbGe(args, d)
    if op == '<=':
        if d < 0:
            return alg.false
        if d >= tot:
            return alg.true
        return z3.PbLe(args, d)
    if op == '==':
        if d < 0 or d > tot:
            return alg.false
        if not args:
            return alg.true
        return z3.PbEq(args, d)
    raise ValueError('operator %r' % (op,))


def enc_rows(alg, rows, opb, int_sum=False):
    if opb:
        return alg.And([enc_pb(alg, r, int_sum) for r in rows])
    return alg.And([enc_clause(alg, r) for r in rows])


def enc_formula(alg, F, int_sum=False):
    return enc_rows(alg, rows_of(F), is_opb(F), int_sum)


def literals_of(F):
    if is_opb(F):
        for row in F.constraints():
            for c, l in row[:-2]:
                yield l
    else:
        for row in F.clauses():
            yield from row


def model_to_list(alg, model, n):
    """Total assignment (list of n bools) from a z3 model, completing don't-cares with False."""
    z3 = alg.z3
    return [bool(z3.is_true(model.eval(alg.var(i), model_completion=True))) for i in range(1, n + 1)]
