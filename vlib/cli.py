import argparse
import importlib
import json
import os
import sys


def main():
    ap = argparse.ArgumentParser()
    ap.add_argument('what')
    ap.add_argument('arg', nargs='?')
    ap.add_argument('--tier', default=os.environ.get('VERIF_TIER') or 'quick', choices=['quick', 'thorough'])
    a = ap.parse_args()
    if a.what == 'replay':
        from .core import replay_case
        case = json.load(open(a.arg))
        status, msg = replay_case(case)
        print(status.upper(), msg)
        sys.exit(1 if status == 'reproduced' else (0 if status == 'not_reproduced' else 3))
    mod = importlib.import_module('vlib.props.' + a.what.lower())
    sys.exit(mod.run(a.tier))


if __name__ == '__main__':
    main()
