"""Shared run context: sharding, evidence, replay dispatch, known findings, exit codes.

Exit codes: 0 = held on everything decided, 1 = reproduced violation not in
known_findings.json, 3 = harness error (non-reproducing counterexample, nothing
decided, oracle self-test failed, solver `unknown` in a place that must decide).
"""
import collections
import hashlib
import inspect
import json
import multiprocessing
import os
import subprocess
import sys
import time
import traceback

VERIF = os.path.dirname(os.path.dirname(os.path.abspath(__file__)))
REPO = os.environ.get('VERIF_REPO', '/repo')
NPROC = int(os.environ.get('VERIF_NPROC', '16'))
PLAIN_PY = '/venv/bin/python'


def fn_sig(obj):
    """qualified name + sha1 of the *current* source of a function/class of /repo."""
    try:
        src = inspect.getsource(obj)
    except Exception:
        src = repr(obj)
    name = getattr(obj, '__module__', '?') + '.' + getattr(obj, '__qualname__', repr(obj))
    return name, hashlib.sha1(src.encode()).hexdigest()[:12]


def jsonable(x):
    if isinstance(x, (str, int, float, bool)) or x is None:
        return x
    if isinstance(x, dict):
        return {str(k): jsonable(v) for k, v in x.items()}
    if isinstance(x, (list, tuple, set, frozenset, range)):
        return [jsonable(v) for v in x]
    return repr(x)


class Part:
    """Result of one shard (picklable)."""
    def __init__(self):
        self.counts = collections.Counter()
        self.solver_s = 0.0
        self.samples = []
        self.cases = []       # candidate violations (dicts)
        self.errors = []      # harness errors (strings)
        self.functions = {}
        self.nontrivial = set()
        self.records = []     # one record per CrossHair condition (kept in full)

    def merge(self, other):
        self.counts.update(other.counts)
        self.solver_s += other.solver_s
        for s in other.samples:
            if len(self.samples) < 12:
                self.samples.append(s)
        self.cases.extend(other.cases)
        self.errors.extend(other.errors)
        self.functions.update(other.functions)
        self.nontrivial |= other.nontrivial
        self.records.extend(other.records)

    def case(self, harness, kind, inp, what):
        self.cases.append({'harness': harness, 'kind': kind, 'input': jsonable(inp), 'what': what})

    def sample(self, s):
        if len(self.samples) < 6:
            self.samples.append(jsonable(s))

    def encoded(self, *objs):
        for o in objs:
            n, h = fn_sig(o)
            self.functions[n] = h


def _shard_worker(args):
    fn, items, idx = args
    part = Part()
    try:
        fn(items, part)
    except BaseException as e:  # noqa
        if isinstance(e, KeyboardInterrupt):
            raise
        part.errors.append('shard %d crashed: %s' % (idx, ''.join(traceback.format_exception_only(type(e), e)).strip()
                                                     + ' | ' + traceback.format_exc()[-1500:]))
    return part


def run_shards(fn, items, nproc=None, chunk=None):
    """Run fn(list_of_items, part) over `items` split into interleaved shards."""
    items = list(items)
    nproc = nproc or NPROC
    total = Part()
    if not items:
        return total
    nshards = min(len(items), nproc * (chunk or 4))
    shards = [items[i::nshards] for i in range(nshards)]
    if nproc == 1 or len(items) == 1:
        for i, sh in enumerate(shards):
            total.merge(_shard_worker((fn, sh, i)))
        return total
    ctx = multiprocessing.get_context('fork')
    with ctx.Pool(min(nproc, nshards)) as pool:
        for part in pool.imap_unordered(_shard_worker, [(fn, sh, i) for i, sh in enumerate(shards)]):
            total.merge(part)
    return total


# ----------------------------------------------------------------- findings

def load_known():
    p = os.path.join(VERIF, 'known_findings.json')
    if not os.path.exists(p):
        return []
    data = json.load(open(p))
    return [e for e in data.get('findings', []) if e.get('status', 'open') == 'open']


def _match(entry, case):
    if entry.get('harness') and entry['harness'] != case['harness']:
        return False
    if entry.get('kind') and entry['kind'] != case['kind']:
        return False
    inp = case.get('input') or {}
    for k, v in (entry.get('match') or {}).items():
        if inp.get(k) != v:
            return False
    cond = entry.get('when')
    if cond:
        try:
            if not eval(cond, {'__builtins__': {'len': len, 'abs': abs, 'min': min, 'max': max, 'sum': sum}}, dict(inp)):
                return False
        except Exception:
            return False
    sub = entry.get('what_contains')
    if sub and sub not in case.get('what', ''):
        return False
    return True


def replay_case(case, timeout=600):
    """Replay one candidate in a plain interpreter (no CrossHair tracing, no solver
    in the process).  Returns (status, message), status in reproduced/not_reproduced/error."""
    env = dict(os.environ)
    env['PYTHONPATH'] = REPO + os.pathsep + VERIF
    env['PYTHONWARNINGS'] = 'ignore'
    env['PYTHONDONTWRITEBYTECODE'] = '1'
    env.pop('PYTHONHASHSEED', None)
    try:
        r = subprocess.run([PLAIN_PY, '-W', 'ignore', '-m', 'vlib.replay', '-'], input=json.dumps(case),
                           capture_output=True, text=True, timeout=timeout, env=env, cwd=VERIF)
    except subprocess.TimeoutExpired:
        return 'error', 'replay timed out'
    out = (r.stdout or '').strip().splitlines()
    last = out[-1] if out else ''
    if r.returncode == 1 and last.startswith('REPRODUCED'):
        return 'reproduced', last[len('REPRODUCED'):].strip()
    if r.returncode == 0 and last.startswith('NOT-REPRODUCED'):
        return 'not_reproduced', last[len('NOT-REPRODUCED'):].strip()
    return 'error', (r.stderr or r.stdout or '')[-800:]


class Run:
    def __init__(self, pid, tier, level='other'):
        self.pid = pid
        self.tier = tier
        self.level = level
        self.seed = int(os.environ.get('VERIF_SEED', '0') or 0)
        self.t0 = time.time()
        self.total = Part()
        self.sections = []     # per-harness-group descriptions for the evidence
        self.assumptions = []
        self.bounds = []
        self.outside = []
        self.explanation = ''
        self.decided_keys = ('unsat', 'sat', 'confirmed', 'refuted', 'valid')
        self.exhaustive = True   # False when part of the run is sampling (seeds, draw streams, command tables)

    def add(self, part, section=None):
        if section is not None:
            sec = dict(section)
            sec['counts'] = dict(part.counts)
            sec['solver_s'] = round(part.solver_s, 2)
            sec['candidates'] = len(part.cases)
            self.sections.append(sec)
        self.total.merge(part)

    def finish(self):
        tot = self.total
        known = load_known()
        reported = []
        known_hit = collections.OrderedDict()
        errors = list(tot.errors)
        # de-duplicate candidates and bound the number of replays per harness
        seen = set()
        cands = []
        per_h = collections.Counter()
        for c in tot.cases:
            key = json.dumps([c['harness'], c['kind'], c['input']], sort_keys=True)
            if key in seen:
                continue
            seen.add(key)
            cands.append(c)
        cands.sort(key=lambda c: (c['harness'], len(json.dumps(c['input']))))
        import shutil
        shutil.rmtree(os.path.join(VERIF, 'replays', self.pid), ignore_errors=True)
        os.makedirs(os.path.join(VERIF, 'replays', self.pid), exist_ok=True)
        n_repro = 0
        skipped = 0
        for c in cands:
            c['property'] = self.pid
            ent = next((e for e in known if e['property'] == self.pid and _match(e, c)), None)
            # replay budget: every candidate that matches no known finding is replayed (max 25
            # per harness+kind); known-finding matches are replayed 3 times per entry.
            bucket = ('K', ent['id']) if ent else (c['harness'], c['kind'])
            limit = 3 if ent else 6
            if per_h[bucket] >= limit:
                skipped += 1
                if ent:
                    known_hit.setdefault(ent['id'], [ent, 0])[1] += 1
                continue
            per_h[bucket] += 1
            status, msg = replay_case(c)
            if status == 'not_reproduced':
                errors.append('counterexample did not reproduce on the real code (encoding/stub bug): %s %s %s'
                              % (c['harness'], json.dumps(c['input'])[:300], msg))
                continue
            if status == 'error':
                errors.append('replay failed: %s %s :: %s' % (c['harness'], json.dumps(c['input'])[:300], msg))
                continue
            n_repro += 1
            if ent:
                known_hit.setdefault(ent['id'], [ent, 0])[1] += 1
                continue
            h = hashlib.sha1(json.dumps(c, sort_keys=True).encode()).hexdigest()[:12]
            path = os.path.join(VERIF, 'replays', self.pid, h + '.json')
            c['replay_message'] = msg
            with open(path, 'w') as f:
                json.dump(c, f, indent=1, sort_keys=True)
            reported.append((c, path))
        for eid, (ent, n) in known_hit.items():
            print('KNOWN-FINDING: property=%s %s [%s; %d matching case(s) this run, up to 3 replayed]'
                  % (self.pid, ent['what'], eid, n))
        for c, path in reported[:40]:
            print('VIOLATION property=%s replay=%s' % (self.pid, path))
            print('  # %s [%s] %s -- %s' % (c['harness'], c['kind'], json.dumps(c['input'])[:400], c['what'][:300]))
        decided = sum(tot.counts.get(k, 0) for k in self.decided_keys)
        if decided == 0:
            errors.append('nothing was decided by a solver verdict in this run')
        for e in errors[:30]:
            print('HARNESS-ERROR: ' + e[:2000])
        wall = time.time() - self.t0
        counts = dict(tot.counts)
        ev = {
            'property_id': self.pid,
            'tier': self.tier,
            'seed': self.seed,
            'level': self.level,
            'coverage': {
                'explanation': self.explanation,
                'evaluations': int(sum(v for k, v in counts.items() if k.startswith('inst'))) or int(decided),
                'distinct_nontrivial': len(tot.nontrivial),
                'rule': 'one evaluation = one instance (point of the parameter box, or CrossHair condition) '
                        'decided by solver queries; distinct = distinct (harness, parameters) keys; '
                        'non-trivial = the encoded object has at least one variable and one row / the '
                        'harness reached its final assertion',
                'samples': tot.samples[:12] or ['(none)'],
                'exhaustive': bool(self.exhaustive),
                'queries_by_verdict': counts,
                'queries_decided': int(decided),
                'solver_s': round(tot.solver_s, 2),
                'functions_encoded': [{'name': k, 'sha1': v} for k, v in sorted(tot.functions.items())],
                'bounds': self.bounds,
                'outside_the_claim': self.outside,
                'sections': self.sections,
                'conditions': tot.records,
                'candidates_total': len(cands),
                'candidates_reproduced': n_repro,
                'candidates_not_replayed_over_budget': skipped,
                'known_findings_hit': [{'id': k, 'cases': v[1]} for k, v in known_hit.items()],
                'harness_errors': errors[:30],
            },
            'assumptions': self.assumptions,
            'wall_s': round(wall, 2),
            'violations': len(reported),
        }
        # runs against another checkout (VERIF_REPO: seeded changes) must not overwrite the evidence of /repo
        evdir = os.path.join(VERIF, 'evidence') if not os.environ.get('VERIF_REPO') else os.environ.get('VERIF_EVIDENCE_DIR', '/tmp/verif_evidence_mut')
        os.makedirs(evdir, exist_ok=True)
        with open(os.path.join(evdir, self.pid + '.json'), 'w') as f:
            json.dump(ev, f, indent=1)
        print('%s %s: decided=%d counts=%s solver_s=%.1f wall_s=%.1f violations=%d known=%d errors=%d'
              % (self.pid, self.tier, decided, {k: v for k, v in sorted(counts.items())}, tot.solver_s, wall,
                 len(reported), len(known_hit), len(errors)))
        if reported:
            return 1
        if errors:
            return 3
        return 0
