"""Replay one candidate counterexample against the real code in a plain interpreter.

Reads the case (JSON) from the file given as argument or from stdin ('-').  Prints
`REPRODUCED <msg>` and exits 1, or `NOT-REPRODUCED <msg>` and exits 0.
"""
import importlib
import json
import sys


def main():
    src = sys.argv[1] if len(sys.argv) > 1 else '-'
    case = json.load(sys.stdin if src == '-' else open(src))
    modname = case['harness'].split('.')[0]
    mod = importlib.import_module('vlib.props.' + modname)
    if hasattr(mod, 'replay'):
        ok, msg = mod.replay(case)
    else:
        from .sengine import replay
        ok, msg = replay(case)
    if ok:
        print('REPRODUCED ' + msg.replace('\n', ' '))
        sys.exit(1)
    print('NOT-REPRODUCED ' + msg.replace('\n', ' '))
    sys.exit(0)


if __name__ == '__main__':
    main()
