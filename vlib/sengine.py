"""Engine S: decide `Enc(F) <=> Spec` (or per-axiom-schema entailment) with z3 for every
point of a parameter box.  The generator under test is the real code in /repo, run
concretely on the (concrete) structural parameters; the truth assignment is symbolic.
"""
import time

from .alg import Z3Alg, PyAlg, enc_rows, enc_clause, enc_pb, rows_of, is_opb, literals_of, model_to_list

TIMEOUT_MS = 60000


class SHarness:
    """One family/builder.  Subclasses (or instances built with keyword arguments) provide:

    name            unique id, also the replay key
    points(tier)    iterable of JSON-able parameter dicts
    build(p)        call the real code, return the formula (ValueError = refused)
    spec(alg,p,F)   reference predicate over alg.var(1..n)        [mode 'equiv']
    schemas(alg,p,F) list of (name, predicate)                     [mode 'schema']
    Optional: nvars(p), labels(p), sat_expected(p), count_expected(p), refusal_ok(p),
              expect_unsat(p) (schema mode), funcs (objects whose source is hashed)
    """
    mode = 'equiv'
    funcs = ()
    max_count = 4096

    def __init__(self, name=None, **kw):
        if name:
            self.name = name
        for k, v in kw.items():
            setattr(self, k, v)

    def refusal_ok(self, p):
        return False

    nvars = None
    labels = None
    sat_expected = None
    count_expected = None
    expect_unsat = None


REGISTRY = {}


def register(h):
    REGISTRY[h.name] = h
    return h


def _solver(alg):
    s = alg.z3.Solver()
    s.set('timeout', TIMEOUT_MS)
    return s


def _check(s, part):
    t = time.time()
    r = str(s.check())
    part.solver_s += time.time() - t
    part.counts[r] += 1
    return r


def count_models(alg, term, n, limit, part):
    """Number of models of `term` over x1..xn by blocking clauses (None if above limit)."""
    z3 = alg.z3
    s = _solver(alg)
    s.add(term)
    xs = [alg.var(i) for i in range(1, n + 1)]
    cnt = 0
    while True:
        t = time.time()
        r = str(s.check())
        part.solver_s += time.time() - t
        part.counts['enum_' + r] += 1
        if r == 'unknown':
            return None
        if r == 'unsat':
            return cnt
        cnt += 1
        if cnt > limit:
            return None
        m = s.model()
        s.add(z3.Or([x != m.eval(x, model_completion=True) for x in xs]) if xs else z3.BoolVal(False))


def build_checked(h, p, part):
    """Run the real generator.  Returns F or None (refused / crashed, already recorded)."""
    try:
        return h.build(p)
    except ValueError as e:
        if h.refusal_ok(p):
            part.counts['refused_as_documented'] += 1
        else:
            part.case(h.name, 'unexpected_refusal', p, 'ValueError: %s' % e)
        return None
    except Exception as e:  # noqa: a foreign exception type is a finding of its own
        part.case(h.name, 'exception', p, '%s: %s' % (type(e).__name__, e))
        return None


_PTS = {}


def _caller_edits_its_graphs():
    from . import gen
    try:
        gen.edit_library_graphs()
        gen.edit_cli_graphs()
    except Exception:  # noqa: the edits are the caller's business; a failure here is not a verdict on the generator
        pass


def _other_points(h, p):
    pts = _PTS.get(h.name)
    if pts is None:
        pts = _PTS[h.name] = [q for q in h.points('quick') if not q.get('big')]
    if not pts:
        return []
    c = __import__('zlib').crc32(repr(sorted(p.items(), key=lambda kv: kv[0])).encode())
    return [pts[-1], pts[(c // 3) % len(pts)], pts[len(pts) // 2 + (c // 7) % (len(pts) - len(pts) // 2)]]


def check_point(h, p, alg, part):
    part.counts['instances'] += 1
    F = build_checked(h, p, part)
    if F is None:
        return
    if h.refusal_ok(p) and getattr(h, 'must_refuse', None) and h.must_refuse(p):
        part.case(h.name, 'missing_refusal', p, 'a formula was returned where the documentation promises ValueError')
        return
    n = F.number_of_variables()
    rows = rows_of(F)
    opb = is_opb(F)
    if getattr(h, 'deterministic', True) and __import__('zlib').crc32(repr(sorted(p.items(), key=lambda kv: kv[0])).encode()) % 3 == 0:
        # the same call again (after whatever other calls this process has made): a generator is a function of
        # its arguments - no state may be kept between calls
        try:
            F2 = h.build(p)
            same = (F2.number_of_variables() == n and rows_of(F2) == rows and
                    list(F2.all_variable_labels()) == list(F.all_variable_labels()))
        except Exception as e:  # noqa
            same = False
        part.counts['rebuilt_twice'] += 1
        if not same:
            part.case(h.name, 'second_call_differs', p, 'calling the generator a second time with the same arguments gives a different formula')
            return
    if getattr(h, 'deterministic', True) and __import__('zlib').crc32(repr(sorted(p.items(), key=lambda kv: kv[0])).encode()) % 3 == 1:
        # the same call again after calls with OTHER arguments (the last point of the box and one chosen by hash)
        qs = _other_points(h, p)
        for q in qs:
            try:
                h.build(q)
            except Exception:  # noqa
                pass
        # ... and after the caller has edited, in place, graph objects it obtained from the library's public constructors
        _caller_edits_its_graphs()
        try:
            F3 = h.build(p)
            same = (F3.number_of_variables() == n and rows_of(F3) == rows and
                    list(F3.all_variable_labels()) == list(F.all_variable_labels()))
        except Exception as e:  # noqa
            same = False
        part.counts['rebuilt_after_other_calls'] += 1
        if not same:
            part.case(h.name, 'call_after_other_calls_differs', dict(p, _after=qs),
                      'the generator gives a different formula for the same arguments once it has been called with other arguments and the caller has edited graph objects of its own (obtained from the public constructors)')
            return
    bad = [l for l in literals_of(F) if not isinstance(l, int) or isinstance(l, bool) or l == 0 or abs(l) > n]
    if bad:
        part.case(h.name, 'literal_out_of_range', p, 'literals %s with %d declared variables' % (bad[:5], n))
        return
    if h.nvars is not None:
        exp = h.nvars(p)
        if exp is not None and exp != n:
            part.case(h.name, 'nvars', p, 'number_of_variables()=%d, documented %d' % (n, exp))
            return
    if h.labels is not None:
        exp = h.labels(p)
        if exp is not None:
            got = list(F.all_variable_labels())
            if got != list(exp):
                part.case(h.name, 'labels', p, 'all_variable_labels()=%s, documented %s' % (got[:8], list(exp)[:8]))
                return
    if n > 0 and rows:
        part.nontrivial.add((h.name, repr(sorted(p.items()))))
    enc = enc_rows(alg, rows, opb)
    if h.mode == 'equiv':
        _equiv_point(h, p, alg, part, F, n, rows, opb, enc)
    elif h.mode == 'custom':
        h.check(alg, p, F, n, rows, opb, enc, part)
    else:
        _schema_point(h, p, alg, part, F, n, rows, opb, enc)
    part.sample({'harness': h.name, 'params': p, 'nvars': n, 'rows': len(rows)})


def _equiv_point(h, p, alg, part, F, n, rows, opb, enc):
    z3 = alg.z3
    if getattr(h, 'spec_alternatives', None) is not None:
        specs = [alg._b(t) for t in h.spec_alternatives(alg, p, F)]
    else:
        specs = [alg._b(h.spec(alg, p, F))]
    wits = []
    spec = None
    for sp in specs:
        s = _solver(alg)
        if p.get('big'):
            s.set('timeout', 15000)
        s.add(z3.Xor(enc, sp))
        r = _check(s, part)
        if r == 'unsat':
            spec = sp
            break
        if r != 'sat':
            if p.get('big'):
                part.counts[r] -= 1
                part.counts['big_inconclusive'] += 1       # a size-threshold point the solver did not decide: not counted, not reported
                return
            part.errors.append('%s %s: solver answered %s on the equivalence query' % (h.name, p, r))
            return
        wits.append(model_to_list(alg, s.model(), n))
    if spec is None:
        if len(specs) == 1:
            part.case(h.name, 'spec_mismatch', dict(p, _assignment=wits[0]),
                      'formula and documented meaning differ on this assignment')
        else:
            part.case(h.name, 'spec_mismatch', dict(p, _assignments=wits),
                      'formula differs from every admissible reading of the documentation (one assignment per reading)')
        return
    if p.get('big'):
        # size-threshold points (10/11, 16/17, 32/33 ... vertices, pigeons, colours): the equivalence is the whole check
        part.counts['big_points'] += 1
        return
    # oracle self-test: a one-literal / one-row mutant of the encoding must be told apart
    for mut in _mutants(rows, opb):
        s = _solver(alg)
        s.add(z3.Xor(enc_rows(alg, mut, opb), spec))
        t = time.time()
        rr = str(s.check())
        part.solver_s += time.time() - t
        part.counts['selftest_mutants'] += 1
        if rr == 'sat':
            part.counts['selftest_distinguished'] += 1
    sat_and_count(h, p, alg, part, n, enc)


def sat_and_count(h, p, alg, part, n, enc):
    need_sat = h.sat_expected is not None or h.count_expected is not None
    if need_sat:
        s = _solver(alg)
        s.add(enc)
        r = _check(s, part)
        if r == 'unknown':
            part.errors.append('%s %s: unknown on sat query' % (h.name, p))
            return
        part.counts['formula_' + r] += 1
        if h.sat_expected is not None:
            exp = h.sat_expected(p)
            if exp is not None and exp != (r == 'sat'):
                a = model_to_list(alg, s.model(), n) if r == 'sat' else None
                part.case(h.name, 'satisfiability', dict(p, _assignment=a, _expected_sat=exp),
                          'formula is %s but the documented criterion says %s' % (r, 'sat' if exp else 'unsat'))
                return
        if h.count_expected is not None:
            exp = h.count_expected(p)
            if exp is not None and exp <= h.max_count:
                got = count_models(alg, enc, n, max(exp, 1) + 2, part)
                part.counts['model_counts'] += 1
                if got is None:
                    got = '>%d' % (max(exp, 1) + 2)
                if got != exp:
                    part.case(h.name, 'model_count', dict(p, _expected_count=exp),
                              'formula has %s models, documented number of objects is %d' % (got, exp))


def _mutants(rows, opb):
    out = []
    idx = [i for i, r in enumerate(rows) if (len(r) > 2 if opb else len(r) > 0)]
    if idx:
        i = idx[len(idx) // 2]
        r = list(rows[i])
        if opb:
            c, l = r[0]
            r[0] = (c, -l)
        else:
            r[0] = -r[0]
        out.append(rows[:i] + [r] + rows[i + 1:])
    if rows:
        out.append(rows[:-1])
    return out


def _row(alg, row, opb):
    return enc_pb(alg, row) if opb else enc_clause(alg, row)


def _schema_point(h, p, alg, part, F, n, rows, opb, enc):
    z3 = alg.z3
    schemas = [(nm, alg._b(t)) for nm, t in h.schemas(alg, p, F)]
    if h.expect_unsat is not None:
        exp = h.expect_unsat(p)
        if exp is not None:
            s = _solver(alg)
            s.add(enc)
            r = _check(s, part)
            if r == 'unknown':
                part.errors.append('%s %s: unknown on unsat query' % (h.name, p))
                return
            part.counts['formula_' + r] += 1
            if (r == 'unsat') != exp:
                a = model_to_list(alg, s.model(), n) if r == 'sat' else None
                part.case(h.name, 'satisfiability', dict(p, _assignment=a, _expected_sat=not exp),
                          'formula is %s, documented as %s' % (r, 'a contradiction' if exp else 'satisfiable'))
                return
    res = _schema_verdict(alg, schemas, rows, opb, n, part, 'unsat_q')
    if res == 'unknown':
        part.errors.append('%s %s: unknown in schema query' % (h.name, p))
        return
    if res is not None:
        kind, data, what = res
        part.case(h.name, kind, dict(p, **data), what)
        return
    part.counts['schemas_checked'] += len(schemas)
    # oracle self-test on one point in four: a one-literal / one-row mutant must fail the schema test
    if __import__("zlib").crc32(repr(sorted(p.items())).encode()) % 4 == 0:
        for mut in _mutants(rows, opb):
            part.counts['selftest_mutants'] += 1
            if _schema_verdict(alg, schemas, mut, opb, n, part, 'selftest_q') not in (None, 'unknown'):
                part.counts['selftest_distinguished'] += 1


def _schema_verdict(alg, schemas, rows, opb, n, part, ckey):
    """None if `rows` are exactly the documented axioms (none extra, none missing), else (kind, data, what)."""
    z3 = alg.z3

    def chk(*terms):
        s = _solver(alg)
        s.add(*terms)
        if ckey == 'unsat_q':
            r = _check(s, part)
        else:
            t = time.time()
            r = str(s.check())
            part.solver_s += time.time() - t
            part.counts[ckey] += 1
        return r, s
    owner = {}
    wit_not_implied = {}
    enc_rows_ = [_row(alg, r, opb) for r in rows]
    for i, er in enumerate(enc_rows_):
        owner[i] = []
        for gi, (nm, g) in enumerate(schemas):
            r, s = chk(g, z3.Not(er))
            if r == 'unsat':
                owner[i].append(gi)
            elif r == 'sat':
                wit_not_implied[(i, gi)] = model_to_list(alg, s.model(), n)
            else:
                return 'unknown'
        if not owner[i]:
            return ('extra_row', {'_row': i, '_witnesses': {str(gi): wit_not_implied[(i, gi)] for gi in range(len(schemas))}},
                    'row %d %s is not a consequence of any documented axiom schema' % (i, rows[i]))
    for gi, (nm, g) in enumerate(schemas):
        mine = [enc_rows_[i] for i in range(len(rows)) if gi in owner[i]]
        r, s = chk(alg.And(mine), z3.Not(g))
        if r == 'unknown':
            return 'unknown'
        if r == 'sat':
            a = model_to_list(alg, s.model(), n)
            pa = PyAlg(a)
            fals = [i for i, rr in enumerate(rows) if not _row(pa, rr, opb)]
            return ('missing_axiom', {'_schema': gi, '_schema_name': nm, '_assignment': a,
                                      '_falsified': {str(i): wit_not_implied[(i, gi)] for i in fals}},
                    'axiom schema %r is not enforced: the assignment violates it but satisfies every row that follows from it' % nm)
    return None


_HISTORY = []   # every (harness, point) built so far in this process


def shard_fn(items, part):
    alg = Z3Alg()
    for name, p in items:
        h = REGISTRY[name]
        if h.funcs:
            part.encoded(*h.funcs)
        before = len(part.cases)
        try:
            try:
                check_point(h, p, alg, part)
            except KeyError as e:
                # raised by gen.Vars / gen.label_map: the formula does not report a variable under its documented name
                # - the documented variables are part of what every family promises
                if 'documented name' not in str(e):
                    raise
                part.case(h.name, 'documented_variable_missing', p, str(e))
            for c in part.cases[before:]:
                # the calls this process made earlier: replay tries a fresh process first and, if the
                # behaviour does not show there, repeats these calls first (state kept between calls)
                if sum(1 for d in part.cases if d['harness'] == c['harness'] and d['kind'] == c['kind']) <= 4:
                    c['history'] = [[a, b] for a, b in _HISTORY]
            _HISTORY.append((name, p))
        except Exception as e:  # noqa
            import traceback
            part.errors.append('%s %s: checker exception %s: %s | %s' % (name, p, type(e).__name__, e, traceback.format_exc()[-800:]))


# ------------------------------------------------------------------ replay

def replay(case):
    """Concrete re-evaluation in a solver-free process.  Returns (reproduced, message).
    First in a fresh process; if the behaviour does not show there and the case carries the list of generator
    calls its shard had made before, after repeating those calls (a history of calls in one process)."""
    ok, msg = _replay_once(case)
    if ok or not case.get('history'):
        return ok, msg
    for name, q in case['history']:
        try:
            REGISTRY[name].build(q)
        except Exception:  # noqa
            pass
    ok, msg = _replay_once(case)
    if ok:
        msg = 'only after the %d generator calls made earlier in the same process (state kept between calls): %s' % (len(case['history']), msg)
    return ok, msg


def _replay_once(case):
    h = REGISTRY[case['harness']]
    inp = dict(case['input'])
    p = {k: v for k, v in inp.items() if not k.startswith('_')}
    kind = case['kind']
    try:
        F = h.build(p)
    except ValueError as e:
        if kind == 'unexpected_refusal':
            return True, 'build%r raised ValueError: %s' % (p, e)
        return False, 'build raised ValueError: %s' % e
    except Exception as e:  # noqa
        if kind == 'exception':
            return True, 'build%r raised %s: %s' % (p, type(e).__name__, e)
        return False, 'build raised %s: %s' % (type(e).__name__, e)
    if kind in ('unexpected_refusal', 'exception'):
        return False, 'build succeeded'
    if kind == 'documented_variable_missing':
        alg = PyAlg([False] * F.number_of_variables())          # solver-free: evaluate the documented meaning on one assignment, names looked up as usual
        for attr in ('spec', 'spec_alternatives', 'schemas'):
            f = getattr(h, attr, None)
            if f is None:
                continue
            try:
                f(alg, p, F)
            except KeyError as e:
                if 'documented name' in str(e):
                    return True, 'all_variable_labels()=%s: %s' % (list(F.all_variable_labels())[:12], e)
            except Exception:  # noqa
                pass
        return False, 'the documented variables are all there'
    n = F.number_of_variables()
    rows = rows_of(F)
    opb = is_opb(F)
    if kind == 'missing_refusal':
        return True, 'formula with %d variables returned' % n
    if kind == 'second_call_differs':
        F2 = h.build(p)
        diff = not (F2.number_of_variables() == n and rows_of(F2) == rows and list(F2.all_variable_labels()) == list(F.all_variable_labels()))
        if not diff:
            # the difference may need the calls made before: build a few other points first
            for q in list(h.points('quick'))[:40]:
                try:
                    h.build(q)
                except Exception:  # noqa
                    pass
            F3 = h.build(p)
            diff = not (F3.number_of_variables() == n and rows_of(F3) == rows and list(F3.all_variable_labels()) == list(F.all_variable_labels()))
        return diff, 'two calls with the same arguments differ: %s' % diff
    if kind == 'call_after_other_calls_differs':
        for q in inp['_after']:
            try:
                h.build(q)
            except Exception:  # noqa
                pass
        _caller_edits_its_graphs()
        F3 = h.build(p)
        diff = not (F3.number_of_variables() == n and rows_of(F3) == rows and list(F3.all_variable_labels()) == list(F.all_variable_labels()))
        return diff, 'first call and the call after %d other calls differ: %s' % (len(inp['_after']), diff)
    if kind == 'literal_out_of_range':
        bad = [l for l in literals_of(F) if not isinstance(l, int) or l == 0 or abs(l) > n]
        return bool(bad), 'literals %s, n=%d' % (bad[:5], n)
    if kind == 'nvars':
        return h.nvars(p) != n, 'number_of_variables()=%d documented=%s' % (n, h.nvars(p))
    if kind == 'labels':
        got = list(F.all_variable_labels())
        return got != list(h.labels(p)), 'labels %s' % got[:10]
    if kind == 'spec_mismatch' and '_assignments' in inp:
        msgs = []
        for i, a in enumerate(inp['_assignments']):
            if len(a) != n:
                return False, 'assignment size'
            alg = PyAlg(a)
            fv = bool(enc_rows(alg, rows, opb))
            sv = bool(h.spec_alternatives(alg, p, F)[i])
            if fv == sv:
                return False, 'reading %d agrees on its witness' % i
            msgs.append('reading %d: formula %s, spec %s under %s' % (i, fv, sv, a))
        return True, '; '.join(msgs)
    if kind == 'spec_mismatch':
        a = inp['_assignment']
        if len(a) != n:
            return False, 'assignment has %d values, formula %d variables' % (len(a), n)
        alg = PyAlg(a)
        fv = bool(enc_rows(alg, rows, opb))
        if getattr(h, 'spec_alternatives', None) is not None:
            sv = bool(h.spec_alternatives(alg, p, F)[0])
        else:
            sv = bool(h.spec(alg, p, F))
        return fv != sv, 'formula evaluates to %s, documented meaning to %s under %s' % (fv, sv, a)
    if kind == 'satisfiability':
        a = inp.get('_assignment')
        if a is not None:
            alg = PyAlg(a)
            fv = bool(enc_rows(alg, rows, opb))
            return fv and not inp['_expected_sat'], 'assignment %s satisfies the formula (evaluated on the real clause list): %s' % (a, fv)
        # claimed unsat although criterion says sat: brute force when small
        if n <= 22:
            for bits in range(1 << n):
                a = [(bits >> i) & 1 == 1 for i in range(n)]
                if enc_rows(PyAlg(a), rows, opb):
                    return False, 'brute force found a model'
            return True, 'brute force over 2^%d assignments: no model, criterion says satisfiable' % n
        return False, 'too large to confirm unsat without a solver'
    if kind == 'model_count':
        if n <= 22:
            cnt = 0
            for bits in range(1 << n):
                a = [(bits >> i) & 1 == 1 for i in range(n)]
                if enc_rows(PyAlg(a), rows, opb):
                    cnt += 1
            return cnt != inp['_expected_count'], 'brute force model count %d, documented %d' % (cnt, inp['_expected_count'])
        return False, 'too large to count without a solver'
    if kind == 'extra_row':
        i = inp['_row']
        for gi, a in inp['_witnesses'].items():
            alg = PyAlg(a)
            sch = h.schemas(alg, p, F)
            if not sch[int(gi)][1] or _row(alg, rows[i], opb):
                return False, 'witness for schema %s does not separate' % gi
        return True, 'row %d = %s: for every documented schema there is an assignment satisfying the schema and falsifying the row' % (i, rows[i])
    if kind == 'missing_axiom':
        a = inp['_assignment']
        gi = inp['_schema']
        alg = PyAlg(a)
        if h.schemas(alg, p, F)[gi][1]:
            return False, 'schema holds under the assignment'
        fals = [i for i, rr in enumerate(rows) if not _row(alg, rr, opb)]
        for i in fals:
            b = inp['_falsified'].get(str(i))
            if b is None:
                return False, 'row %d falsified without witness' % i
            balg = PyAlg(b)
            if not h.schemas(balg, p, F)[gi][1] or _row(balg, rows[i], opb):
                return False, 'witness for row %d does not separate' % i
        return True, 'assignment %s violates schema %r; the %d rows it falsifies are each shown not to follow from that schema' % (a, inp.get('_schema_name'), len(fals))
    if hasattr(h, 'replay_custom'):
        return h.replay_custom(case, p, F, n, rows, opb)
    return False, 'unknown kind ' + kind
