"""CrossHair harnesses for C11: variable groups are bijections index <-> identifier with aligned names.

Symbolic harnesses (h_s_*): the number of variables that exist before the group is created (UNBOUNDED), the
index and the sign of the literal stay symbolic through the real index arithmetic; only the shape is concretised.
Enumerative harnesses (h_e_*): shapes, graphs and histories are concretised first (dict/hash boundaries) and the
generic group check runs untraced.
"""
from itertools import combinations, combinations_with_replacement, permutations, product

from cnfgen.formula.cnf import CNF
from cnfgen.graphs import Graph, DirectedGraph, BipartiteGraph
from vlib.xh.xutil import pick, pickb, untraced


# ----------------------------------------------------------------- symbolic: blocks
def _block_sym(ranges, off, idx, neg):
    F = CNF()
    F.update_variable_number(off)
    X = F.new_block(*ranges)
    N = 1
    for r in ranges:
        N *= r
    if len(X) != N or F.number_of_variables() != off + N:
        return False
    inside = True
    for i, r in zip(idx, ranges):
        if not (1 <= i <= r):
            inside = False
    if not inside:
        try:
            X(*idx)
        except ValueError:
            return True
        return False
    lit = X(*idx)
    if not (off + 1 <= lit <= off + N):
        return False
    # mixed radix position: lexicographic order of indices = identifier order
    pos = 0
    for i, r in zip(idx, ranges):
        pos = pos * r + (i - 1)
    if lit != off + 1 + pos:
        return False
    back = X.to_index(-lit if neg else lit)
    return list(back) == list(idx)


def h_s_block1(r1: int, off: int, i1: int, neg: bool) -> bool:
    """
    pre: 0 <= r1 <= 6 and off >= 0 and -1 <= i1 <= 8
    post: _
    """
    return _block_sym([pick(r1, 0, 6)], off, [i1], neg)


def h_s_block2_0(r2: int, off: int, i1: int, i2: int, neg: bool) -> bool:
    """
    pre: 0 <= r2 <= 4 and off >= 0 and 0 <= i1 <= 5 and 0 <= i2 <= 5
    post: _
    """
    return _block_sym([0, pick(r2, 0, 4)], off, [i1, i2], neg)


def h_s_block2_1(r2: int, off: int, i1: int, i2: int, neg: bool) -> bool:
    """
    pre: 0 <= r2 <= 4 and off >= 0 and 0 <= i1 <= 5 and 0 <= i2 <= 5
    post: _
    """
    return _block_sym([1, pick(r2, 0, 4)], off, [i1, i2], neg)


def h_s_block2_2(r2: int, off: int, i1: int, i2: int, neg: bool) -> bool:
    """
    pre: 0 <= r2 <= 4 and off >= 0 and 0 <= i1 <= 5 and 0 <= i2 <= 5
    post: _
    """
    return _block_sym([2, pick(r2, 0, 4)], off, [i1, i2], neg)


def h_s_block2_3(r2: int, off: int, i1: int, i2: int, neg: bool) -> bool:
    """
    pre: 0 <= r2 <= 4 and off >= 0 and 0 <= i1 <= 5 and 0 <= i2 <= 5
    post: _
    """
    return _block_sym([3, pick(r2, 0, 4)], off, [i1, i2], neg)


def h_s_block2_4(r2: int, off: int, i1: int, i2: int, neg: bool) -> bool:
    """
    pre: 0 <= r2 <= 4 and off >= 0 and 0 <= i1 <= 5 and 0 <= i2 <= 5
    post: _
    """
    return _block_sym([4, pick(r2, 0, 4)], off, [i1, i2], neg)


def h_s_block3_10(r3: int, off: int, i1: int, i2: int, i3: int, neg: bool) -> bool:
    """
    pre: 1 <= r3 <= 3 and off >= 0 and 0 <= i1 <= 4 and 0 <= i2 <= 4 and 0 <= i3 <= 4
    post: _
    """
    return _block_sym([1, 0, pick(r3, 1, 3)], off, [i1, i2, i3], neg)


def h_s_block3_11(r3: int, off: int, i1: int, i2: int, i3: int, neg: bool) -> bool:
    """
    pre: 1 <= r3 <= 3 and off >= 0 and 0 <= i1 <= 4 and 0 <= i2 <= 4 and 0 <= i3 <= 4
    post: _
    """
    return _block_sym([1, 1, pick(r3, 1, 3)], off, [i1, i2, i3], neg)


def h_s_block3_12(r3: int, off: int, i1: int, i2: int, i3: int, neg: bool) -> bool:
    """
    pre: 1 <= r3 <= 3 and off >= 0 and 0 <= i1 <= 4 and 0 <= i2 <= 4 and 0 <= i3 <= 4
    post: _
    """
    return _block_sym([1, 2, pick(r3, 1, 3)], off, [i1, i2, i3], neg)


def h_s_block3_13(r3: int, off: int, i1: int, i2: int, i3: int, neg: bool) -> bool:
    """
    pre: 1 <= r3 <= 3 and off >= 0 and 0 <= i1 <= 4 and 0 <= i2 <= 4 and 0 <= i3 <= 4
    post: _
    """
    return _block_sym([1, 3, pick(r3, 1, 3)], off, [i1, i2, i3], neg)


def h_s_block3_20(r3: int, off: int, i1: int, i2: int, i3: int, neg: bool) -> bool:
    """
    pre: 1 <= r3 <= 3 and off >= 0 and 0 <= i1 <= 4 and 0 <= i2 <= 4 and 0 <= i3 <= 4
    post: _
    """
    return _block_sym([2, 0, pick(r3, 1, 3)], off, [i1, i2, i3], neg)


def h_s_block3_21(r3: int, off: int, i1: int, i2: int, i3: int, neg: bool) -> bool:
    """
    pre: 1 <= r3 <= 3 and off >= 0 and 0 <= i1 <= 4 and 0 <= i2 <= 4 and 0 <= i3 <= 4
    post: _
    """
    return _block_sym([2, 1, pick(r3, 1, 3)], off, [i1, i2, i3], neg)


def h_s_block3_22(r3: int, off: int, i1: int, i2: int, i3: int, neg: bool) -> bool:
    """
    pre: 1 <= r3 <= 3 and off >= 0 and 0 <= i1 <= 4 and 0 <= i2 <= 4 and 0 <= i3 <= 4
    post: _
    """
    return _block_sym([2, 2, pick(r3, 1, 3)], off, [i1, i2, i3], neg)


def h_s_block3_23(r3: int, off: int, i1: int, i2: int, i3: int, neg: bool) -> bool:
    """
    pre: 1 <= r3 <= 3 and off >= 0 and 0 <= i1 <= 4 and 0 <= i2 <= 4 and 0 <= i3 <= 4
    post: _
    """
    return _block_sym([2, 3, pick(r3, 1, 3)], off, [i1, i2, i3], neg)


def h_s_block3_30(r3: int, off: int, i1: int, i2: int, i3: int, neg: bool) -> bool:
    """
    pre: 1 <= r3 <= 3 and off >= 0 and 0 <= i1 <= 4 and 0 <= i2 <= 4 and 0 <= i3 <= 4
    post: _
    """
    return _block_sym([3, 0, pick(r3, 1, 3)], off, [i1, i2, i3], neg)


def h_s_block3_31(r3: int, off: int, i1: int, i2: int, i3: int, neg: bool) -> bool:
    """
    pre: 1 <= r3 <= 3 and off >= 0 and 0 <= i1 <= 4 and 0 <= i2 <= 4 and 0 <= i3 <= 4
    post: _
    """
    return _block_sym([3, 1, pick(r3, 1, 3)], off, [i1, i2, i3], neg)


def h_s_block3_32(r3: int, off: int, i1: int, i2: int, i3: int, neg: bool) -> bool:
    """
    pre: 1 <= r3 <= 3 and off >= 0 and 0 <= i1 <= 4 and 0 <= i2 <= 4 and 0 <= i3 <= 4
    post: _
    """
    return _block_sym([3, 2, pick(r3, 1, 3)], off, [i1, i2, i3], neg)


def h_s_block3_33(r3: int, off: int, i1: int, i2: int, i3: int, neg: bool) -> bool:
    """
    pre: 1 <= r3 <= 3 and off >= 0 and 0 <= i1 <= 4 and 0 <= i2 <= 4 and 0 <= i3 <= 4
    post: _
    """
    return _block_sym([3, 3, pick(r3, 1, 3)], off, [i1, i2, i3], neg)


def _block_inverse(ranges, off, lit):
    """identifier -> index -> identifier, for a symbolic identifier inside or outside the group"""
    F = CNF()
    F.update_variable_number(off)
    X = F.new_block(*ranges)
    N = len(X)
    var = lit if lit > 0 else -lit
    if not (off + 1 <= var <= off + N):
        try:
            X.to_index(lit)
        except ValueError:
            return True
        return False
    idx = X.to_index(lit)
    for i, r in zip(idx, ranges):
        if not (1 <= i <= r):
            return False
    return X(*idx) == var


def h_s_block_inv2(r1: int, r2: int, off: int, lit: int) -> bool:
    """
    pre: 0 <= r1 <= 4 and 0 <= r2 <= 4 and off >= 0 and lit != 0
    post: _
    """
    return _block_inverse([pick(r1, 0, 4), pick(r2, 0, 4)], off, lit)


def h_s_block_inv3(r1: int, r2: int, r3: int, off: int, lit: int) -> bool:
    """
    pre: 1 <= r1 <= 3 and 1 <= r2 <= 3 and 1 <= r3 <= 3 and off >= 0 and lit != 0
    post: _
    """
    return _block_inverse([pick(r1, 1, 3), pick(r2, 1, 3), pick(r3, 1, 3)], off, lit)


# ------------------------------------------------------- symbolic: binary mappings
def _bits(m):
    b = 0
    while (1 << b) < m:
        b += 1
    return b


def _binmap_sym(n, m, off, i, b, neg):
    F = CNF()
    F.update_variable_number(off)
    V = F.new_binary_mapping(n, m)
    k = _bits(m)
    if V.bits() != k or len(V) != n * k or F.number_of_variables() != off + n * k:
        return False
    if not (1 <= i <= n and 0 <= b < k):
        try:
            V(i, b)
        except ValueError:
            return True
        return False
    lit = V(i, b)
    # documented layout: v(i,k-1) ... v(i,0) are consecutive, most significant bit first
    if lit != off + (i - 1) * k + (k - 1 - b) + 1:
        return False
    return tuple(V.to_index(-lit if neg else lit)) == (i, b)


def h_s_binmap(n: int, m: int, off: int, i: int, b: int, neg: bool) -> bool:
    """
    pre: 1 <= n <= 4 and 1 <= m <= 9 and off >= 0 and 0 <= i <= 5 and -1 <= b <= 4
    post: _
    """
    return _binmap_sym(pick(n, 1, 4), pick(m, 1, 9), off, i, b, neg)


def _forbid_sym(n, m, off, i, j, a):
    """forbid(i,j) is the clause falsified exactly by 'the bits of i spell j'"""
    F = CNF()
    F.update_variable_number(off)
    V = F.new_binary_mapping(n, m)
    k = _bits(m)
    cl = V.forbid(i, j)
    if len(cl) != k:
        return False
    val = 0
    for t in range(k):
        if a[t]:
            val += 1 << t
    sat = False
    for lit in cl:
        var = lit if lit > 0 else -lit
        ii, bb = V.to_index(var)
        if ii != i:
            return False
        bit = a[bb]
        if (lit > 0) == bit:
            sat = True
    return sat == (val != j)


def h_s_forbid_1(off: int, i: int, j: int) -> bool:
    """
    pre: 0 <= off <= 40 and 1 <= i <= 2 and 0 <= j < 1
    post: _
    """
    return _forbid_sym(2, 1, off, i, j, [])


def h_s_forbid_2(off: int, i: int, j: int, a0: bool) -> bool:
    """
    pre: 0 <= off <= 40 and 1 <= i <= 2 and 0 <= j < 2
    post: _
    """
    return _forbid_sym(2, 2, off, i, j, [a0])


def h_s_forbid_3(off: int, i: int, j: int, a0: bool, a1: bool) -> bool:
    """
    pre: 0 <= off <= 40 and 1 <= i <= 2 and 0 <= j < 4
    post: _
    """
    return _forbid_sym(2, 3, off, i, j, [a0, a1])


def h_s_forbid_4(off: int, i: int, j: int, a0: bool, a1: bool) -> bool:
    """
    pre: 0 <= off <= 40 and 1 <= i <= 2 and 0 <= j < 4
    post: _
    """
    return _forbid_sym(2, 4, off, i, j, [a0, a1])


def h_s_forbid_5(off: int, i: int, j: int, a0: bool, a1: bool, a2: bool) -> bool:
    """
    pre: 0 <= off <= 40 and 1 <= i <= 2 and 0 <= j < 8
    post: _
    """
    return _forbid_sym(2, 5, off, i, j, [a0, a1, a2])


def h_s_forbid_7(off: int, i: int, j: int, a0: bool, a1: bool, a2: bool) -> bool:
    """
    pre: 0 <= off <= 40 and 1 <= i <= 2 and 0 <= j < 8
    post: _
    """
    return _forbid_sym(2, 7, off, i, j, [a0, a1, a2])


def h_s_forbid_8(off: int, i: int, j: int, a0: bool, a1: bool, a2: bool) -> bool:
    """
    pre: 0 <= off <= 40 and 1 <= i <= 2 and 0 <= j < 8
    post: _
    """
    return _forbid_sym(2, 8, off, i, j, [a0, a1, a2])


def h_s_forbid_9(off: int, i: int, j: int, a0: bool, a1: bool, a2: bool, a3: bool) -> bool:
    """
    pre: 0 <= off <= 40 and 1 <= i <= 2 and 0 <= j < 16
    post: _
    """
    return _forbid_sym(2, 9, off, i, j, [a0, a1, a2, a3])


# ---------------------------------------------------------- generic group check
def _match(idx, pattern):
    for a, b in zip(idx, pattern):
        if b is not None and a != b:
            return False
    return True


def _group_ok(vg, first, idx_list, labels, patterns=True, zero_ok=()):
    ids = list(vg)
    n = len(idx_list)
    if ids != list(range(first, first + n)) or len(vg) != n:
        return False
    if [tuple(t) for t in vg.indices()] != idx_list:
        return False
    if idx_list != [()] and list(vg()) != ids:      # for 0-ary words vg() addresses the single index ()
        return False
    if list(vg.label()) != labels:
        return False
    for k in range(n):
        idx, vid = idx_list[k], ids[k]
        if vg(*idx) != vid:
            return False
        if tuple(vg.to_index(vid)) != idx or tuple(vg.to_index(-vid)) != idx:
            return False
        got = vg.to_index(vid)
        if isinstance(got, list):
            # the answer is the caller's to keep or to edit: editing it does not change later answers
            got.append(0)
            got[0] = -7
            if tuple(vg.to_index(vid)) != idx or tuple(vg.to_index(-vid)) != idx or vg(*idx) != vid:
                return False
        if vg.label(*idx) != labels[k]:
            return False
        if vid not in vg or -vid not in vg:
            return False
    for bad in (first - 1, first + n, -(first + n)):
        if bad == 0:
            continue
        try:
            vg.to_index(bad)
            return False
        except ValueError:
            pass
        if bad in vg:
            return False
    if patterns and n > 0:
        arity = len(idx_list[0])
        doms = [sorted({t[p] for t in idx_list}) for p in range(arity)]
        for pat in product(*[[None] + d for d in doms]):
            want = sorted(t for t in idx_list if _match(t, pat))
            try:
                got = sorted(tuple(t) for t in vg.indices(*pat))
            except ValueError:
                got = None
            if None in pat or len(want) == 1:
                if got != want:
                    return False
            else:
                if got is not None and got != want:     # a fully specified index outside the domain must be refused
                    return False
        # a wildcard pattern whose fixed coordinate lies outside the domain is refused (never an empty or a
        # made-up enumeration, never another exception type)
        for pos in range(arity):
            for bad in (0, -1, 99):
                if arity == 1:
                    continue
                pat = [None] * arity
                pat[pos] = bad
                if bad == 0 and pos in zero_ok:
                    continue
                try:
                    list(vg.indices(*pat))
                    return False
                except ValueError:
                    pass
                try:
                    r = vg(*pat)
                    list(r)
                    return False
                except ValueError:
                    pass
    return True


def _outside_refused(vg, idx_list, arity, top):
    """every fully specified index tuple over 0..top that is not a legal index is refused with ValueError"""
    legal = set(idx_list)
    for t in product(range(0, top + 1), repeat=arity):
        if t in legal:
            continue
        try:
            vg(*t)
            return False
        except ValueError:
            pass
    return True


# -------------------------------------------------------------- enumerative: blocks
def _e_block(ranges, off):
    F = CNF()
    F.update_variable_number(off)
    X = F.new_block(*ranges)
    idx_list = [tuple(t) for t in product(*[range(1, r + 1) for r in ranges])]
    fmt = 'X(' + ','.join(['{}'] * len(ranges)) + ')'
    labels = [fmt.format(*t) for t in idx_list]
    return _group_ok(X, off + 1, idx_list, labels) and _outside_refused(X, idx_list, len(ranges), max(ranges) + 1)


def h_e_block2(r1: int, r2: int, off: int) -> bool:
    """
    pre: 0 <= r1 <= 4 and 0 <= r2 <= 4 and 0 <= off <= 3
    post: _
    """
    return untraced(_e_block, [pick(r1, 0, 4), pick(r2, 0, 4)], pick(off, 0, 3))


def h_e_block3(r1: int, r2: int, r3: int, off: int) -> bool:
    """
    pre: 0 <= r1 <= 3 and 0 <= r2 <= 3 and 0 <= r3 <= 3 and 0 <= off <= 2
    post: _
    """
    return untraced(_e_block, [pick(r1, 0, 3), pick(r2, 0, 3), pick(r3, 0, 3)], pick(off, 0, 2))


def h_e_block4(r1: int, r2: int, r3: int, r4: int) -> bool:
    """
    pre: 1 <= r1 <= 2 and 0 <= r2 <= 2 and 1 <= r3 <= 3 and 1 <= r4 <= 2
    post: _
    """
    return untraced(_e_block, [pick(r1, 1, 2), pick(r2, 0, 2), pick(r3, 1, 3), pick(r4, 1, 2)], 5)


# --------------------------------------------------------------- enumerative: words
def _e_words(kind, n, k, off):
    F = CNF()
    F.update_variable_number(off)
    if kind == 0:
        X = F.new_combinations(n, k)
        gen = combinations(range(1, n + 1), k)
    elif kind == 1:
        X = F.new_combinations_with_replacement(n, k)
        gen = combinations_with_replacement(range(1, n + 1), k)
    elif kind == 2:
        X = F.new_permutations(n, k)
        gen = permutations(range(1, n + 1), k)
    else:
        X = F.new_words(n, k)
        gen = product(range(1, n + 1), repeat=k)
    idx_list = [tuple(t) for t in gen]
    labels = ['p_{' + ','.join(str(x) for x in t) + '}' for t in idx_list]
    if not _group_ok(X, off + 1, idx_list, labels, patterns=False):
        return False
    if k >= 1:
        return _outside_refused(X, idx_list, k, n + 1)
    return True


def _e_words0(kind, n, off):
    """words of length 0: exactly one variable, whose index is the empty tuple"""
    F = CNF()
    F.update_variable_number(off)
    X = [F.new_combinations, F.new_combinations_with_replacement, F.new_permutations, F.new_words][kind](n, 0)
    if len(X) != 1 or list(X) != [off + 1] or F.number_of_variables() != off + 1:
        return False
    if [tuple(t) for t in X.indices()] != [()] or tuple(X.to_index(off + 1)) != () or tuple(X.to_index(-(off + 1))) != ():
        return False
    return len(list(F.all_variable_labels())) == off + 1


def h_e_words0(kind: int, n: int, off: int) -> bool:
    """
    pre: 0 <= kind <= 3 and 0 <= n <= 4 and 0 <= off <= 2
    post: _
    """
    return untraced(_e_words0, pick(kind, 0, 3), pick(n, 0, 4), pick(off, 0, 2))


def h_e_words(kind: int, n: int, k: int, off: int) -> bool:
    """
    pre: 0 <= kind <= 3 and 0 <= n <= 4 and 1 <= k <= 3 and 0 <= off <= 2
    post: _
    """
    return untraced(_e_words, pick(kind, 0, 3), pick(n, 0, 4), pick(k, 1, 3), pick(off, 0, 2))


# ------------------------------------------------------- enumerative: edge groups
def _e_bip(l, r, bits, off, mapping):
    B = BipartiteGraph(l, r)
    P = [(u, v) for u in range(1, l + 1) for v in range(1, r + 1)]
    E = []
    for i, b in enumerate(bits):
        if b:
            B.add_edge(*P[i])
            E.append(P[i])
    F = CNF()
    F.update_variable_number(off)
    if mapping:
        X = F.new_sparse_mapping(B)
        labels = ['f({})={}'.format(u, v) for (u, v) in E]
        if list(X.domain()) != list(range(1, l + 1)) or list(X.range()) != list(range(1, r + 1)):
            return False
        for u in range(1, l + 1):
            if list(X.range(u)) != [b for (a, b) in E if a == u]:
                return False
        for v in range(1, r + 1):
            if list(X.domain(v)) != [a for (a, b) in E if b == v]:
                return False
    else:
        X = F.new_bipartite_edges(B)
        labels = ['e({},{})'.format(u, v) for (u, v) in E]
    return _group_ok(X, off + 1, E, labels) and _outside_refused(X, E, 2, max(l, r) + 1)


def h_e_bip22(b1: bool, b2: bool, b3: bool, b4: bool, off: int, mapping: bool) -> bool:
    """
    pre: 0 <= off <= 2
    post: _
    """
    return untraced(_e_bip, 2, 2, [pickb(b1), pickb(b2), pickb(b3), pickb(b4)], pick(off, 0, 2), pickb(mapping))


def h_e_bip32(b1: bool, b2: bool, b3: bool, b4: bool, b5: bool, b6: bool, off: int, mapping: bool) -> bool:
    """
    pre: 0 <= off <= 1
    post: _
    """
    return untraced(_e_bip, 3, 2, [pickb(b1), pickb(b2), pickb(b3), pickb(b4), pickb(b5), pickb(b6)], pick(off, 0, 1), pickb(mapping))


def h_e_bip23(b1: bool, b2: bool, b3: bool, b4: bool, b5: bool, b6: bool, off: int, mapping: bool) -> bool:
    """
    pre: 0 <= off <= 1
    post: _
    """
    return untraced(_e_bip, 2, 3, [pickb(b1), pickb(b2), pickb(b3), pickb(b4), pickb(b5), pickb(b6)], pick(off, 0, 1), pickb(mapping))


def _e_graph(n, bits, off, rev):
    G = Graph(n)
    P = [(u, v) for u in range(1, n + 1) for v in range(u + 1, n + 1)]
    E = []
    for i, b in enumerate(bits):
        if b:
            if rev:
                G.add_edge(P[i][1], P[i][0])
            else:
                G.add_edge(*P[i])
            E.append(P[i])
    F = CNF()
    F.update_variable_number(off)
    X = F.new_graph_edges(G)
    labels = ['e({},{})'.format(u, v) for (u, v) in E]
    ids = list(X)
    if ids != list(range(off + 1, off + 1 + len(E))) or len(X) != len(E):
        return False
    if [tuple(t) for t in X.indices()] != E or list(X()) != ids or list(X.label()) != labels:
        return False
    for k, (u, v) in enumerate(E):
        if X(u, v) != ids[k] or X(v, u) != ids[k]:          # an edge is addressed from either end
            return False
        if tuple(X.to_index(ids[k])) != (u, v) or tuple(X.to_index(-ids[k])) != (u, v):
            return False
        if X.label(u, v) != labels[k]:
            return False
    for w in range(1, n + 1):
        want = sorted(e for e in E if w in e)
        if sorted(tuple(sorted(t)) for t in X.indices(w, None)) != want:
            return False
        if sorted(tuple(sorted(t)) for t in X.indices(None, w)) != want:
            return False
        if sorted(X(w, None)) != sorted(ids[k] for k, e in enumerate(E) if w in e):
            return False
    for u in range(0, n + 2):
        for v in range(0, n + 2):
            if (min(u, v), max(u, v)) in E:
                continue
            try:
                X(u, v)
                return False
            except ValueError:
                pass
    for bad in (off, off + len(E) + 1):
        if bad != 0:
            try:
                X.to_index(bad)
                return False
            except ValueError:
                pass
    return True


def h_e_graph3(b1: bool, b2: bool, b3: bool, off: int, rev: bool) -> bool:
    """
    pre: 0 <= off <= 2
    post: _
    """
    return untraced(_e_graph, 3, [pickb(b1), pickb(b2), pickb(b3)], pick(off, 0, 2), pickb(rev))


def h_e_graph4(b1: bool, b2: bool, b3: bool, b4: bool, b5: bool, b6: bool, off: int) -> bool:
    """
    pre: 0 <= off <= 1
    post: _
    """
    return untraced(_e_graph, 4, [pickb(b1), pickb(b2), pickb(b3), pickb(b4), pickb(b5), pickb(b6)], pick(off, 0, 1), False)


def _e_digraph(n, bits, off, sortby):
    D = DirectedGraph(n)
    P = [(u, v) for u in range(1, n + 1) for v in range(1, n + 1)]
    E = []
    for i, b in enumerate(bits):
        if b:
            D.add_edge(*P[i])
            E.append(P[i])
    F = CNF()
    F.update_variable_number(off)
    X = F.new_digraph_edges(D, sortby=sortby)
    if sortby == 'pred':
        order = sorted(E)
    else:
        order = sorted(E, key=lambda e: (e[1], e[0]))
    labels = ['e({},{})'.format(u, v) for (u, v) in order]
    return _group_ok(X, off + 1, order, labels) and _outside_refused(X, order, 2, n + 1)


def h_e_digraph2(b1: bool, b2: bool, b3: bool, b4: bool, off: int, succ: bool) -> bool:
    """
    pre: 0 <= off <= 2
    post: _
    """
    return untraced(_e_digraph, 2, [pickb(b1), pickb(b2), pickb(b3), pickb(b4)], pick(off, 0, 2), 'succ' if pickb(succ) else 'pred')


def h_e_digraph3(b1: bool, b2: bool, b3: bool, b4: bool, b5: bool, b6: bool, b7: bool, b8: bool, b9: bool, succ: bool) -> bool:
    """
    post: _
    """
    return untraced(_e_digraph, 3, [pickb(b1), pickb(b2), pickb(b3), pickb(b4), pickb(b5), pickb(b6), pickb(b7), pickb(b8), pickb(b9)],
                    1, 'succ' if pickb(succ) else 'pred')


def _e_mapping(n, m, off, binary):
    F = CNF()
    F.update_variable_number(off)
    if binary:
        V = F.new_binary_mapping(n, m)
        k = _bits(m)
        idx = [(i, b) for i in range(1, n + 1) for b in range(k - 1, -1, -1)]
        labels = ['v({},{})'.format(i, b) for (i, b) in idx]
        if list(V.domain()) != list(range(1, n + 1)) or list(V.range()) != list(range(m)):
            return False
        return _group_ok(V, off + 1, idx, labels, zero_ok=(1,)) and _outside_refused(V, idx, 2, max(n, k) + 1)
    V = F.new_mapping(n, m)
    idx = [(i, j) for i in range(1, n + 1) for j in range(1, m + 1)]
    labels = ['f({})={}'.format(i, j) for (i, j) in idx]
    return _group_ok(V, off + 1, idx, labels) and _outside_refused(V, idx, 2, max(n, m) + 1)


def h_e_mapping(n: int, m: int, off: int, binary: bool) -> bool:
    """
    pre: 1 <= n <= 3 and 1 <= m <= 9 and 0 <= off <= 2
    post: _
    """
    return untraced(_e_mapping, pick(n, 1, 3), pick(m, 1, 9), pick(off, 0, 2), pickb(binary))


def _e_unary_empty(n, m):
    F = CNF()
    F.update_variable_number(2)
    V = F.new_mapping(n, m)
    idx = [(i, j) for i in range(1, n + 1) for j in range(1, m + 1)]
    return _group_ok(V, 3, idx, ['f({})={}'.format(i, j) for (i, j) in idx])


def h_e_mapping_empty(n: int, m: int) -> bool:
    """
    pre: 0 <= n <= 2 and 0 <= m <= 2
    post: _
    """
    return untraced(_e_unary_empty, pick(n, 0, 2), pick(m, 0, 2))


# ------------------------------------------------ histories: names stay aligned
def _history(ops):
    """ops: list of (kind, a, b).  Returns True iff the i-th reported name is the name of variable i."""
    F = CNF()
    expect = {}
    for (kind, a, b) in ops:
        n0 = F.number_of_variables()
        if kind == 0:                         # named single variable
            v = F.new_variable('N%d' % (len(expect) + 1))
            if v != n0 + 1:
                return False
            expect[v] = 'N%d' % (len(expect) + 1)
        elif kind == 1:                       # anonymous variables by raising the count
            F.update_variable_number(n0 + a)
        elif kind == 2:                       # anonymous variables mentioned by a clause
            F.add_clause([n0 + a, -(n0 + 1)] if a >= 1 else [])
        elif kind == 3:                       # block (possibly empty)
            X = F.new_block(a, b, label='B%d[{},{}]' % n0)
            for (i, j) in product(range(1, a + 1), range(1, b + 1)):
                expect[X(i, j)] = ('B%d[{},{}]' % n0).format(i, j)
        elif kind == 4:                       # combinations
            X = F.new_combinations(a + 1, b, label='C%d<{}>' % n0)
            for t in combinations(range(1, a + 2), b):
                expect[X(*t)] = ('C%d<{}>' % n0).format(','.join(str(x) for x in t))
        elif kind == 5:                       # edges of a path / empty graph
            G = Graph(a + 1)
            for u in range(1, a + 1):
                if b:
                    G.add_edge(u, u + 1)
            X = F.new_graph_edges(G, label='E%d({},{})' % n0)
            for (u, v) in G.edges():
                expect[X(u, v)] = ('E%d({},{})' % n0).format(u, v)
        else:                                 # binary mapping
            X = F.new_binary_mapping(a + 1, b + 1, label='M%d({},{})' % n0)
            for (i, t) in X.indices():
                expect[X(i, t)] = ('M%d({},{})' % n0).format(i, t)
    n = F.number_of_variables()
    labels = list(F.all_variable_labels())
    if len(labels) != n:
        return False
    for v in range(1, n + 1):
        if labels[v - 1] != expect.get(v, 'x{}'.format(v)):
            return False
    for v in expect:
        if not (1 <= v <= n):
            return False
    # the same through the 'c varname' comment lines of the DIMACS output
    import io
    buf = io.StringIO()
    F.to_file(buf, fileformat='dimacs', export_header=False, export_varnames=True)
    text = buf.getvalue()
    names = {}
    for line in text.split('\n'):
        if line.startswith('c varname '):
            parts = line.split(' ', 3)
            names[int(parts[2])] = parts[3]
    for v in range(1, n + 1):
        if names.get(v) != labels[v - 1]:
            return False
    return True


def h_e_hist2(k1: int, a1: int, b1: int, k2: int, a2: int, b2: int) -> bool:
    """
    pre: 0 <= k1 <= 6 and 0 <= a1 <= 2 and 0 <= b1 <= 2 and 0 <= k2 <= 6 and 0 <= a2 <= 2 and 0 <= b2 <= 2
    post: _
    """
    return untraced(_history, [(pick(k1, 0, 6), pick(a1, 0, 2), pick(b1, 0, 2)), (pick(k2, 0, 6), pick(a2, 0, 2), pick(b2, 0, 2))])


def _hist3(k1, k2, k3, a1, a2, a3, b):
    return _history([(k1, a1, b), (k2, a2, 1 + b), (k3, a3, b)])


def h_e_hist3(k1: int, k2: int, k3: int, a1: int, a2: int, a3: int, b: int) -> bool:
    """
    pre: 0 <= k1 <= 6 and 0 <= k2 <= 6 and 0 <= k3 <= 6 and 0 <= a1 <= 2 and 1 <= a2 <= 2 and 0 <= a3 <= 1 and 0 <= b <= 1
    post: _
    """
    return untraced(_hist3, pick(k1, 0, 6), pick(k2, 0, 6), pick(k3, 0, 6), pick(a1, 0, 2), pick(a2, 1, 2), pick(a3, 0, 1), pick(b, 0, 1))


# ------------------------------------------------ an index with the wrong number of coordinates is outside the domain
def _arity(kind, off, i1, i2, extra, wild):
    F = CNF()
    F.update_variable_number(off)
    if kind == 0:
        g, full = F.new_block(3, 4), [i1, i2]
    elif kind == 1:
        g, full = F.new_block(2, 3, 2), [1 + i1 % 2, i2 % 3 + 1, 1 + i1 % 2]
    elif kind == 2:
        g, full = F.new_combinations(4, 2), sorted([i1, i1 + 1])
    elif kind == 3:
        g, full = F.new_words(3, 2), [i1, i2 % 3 + 1]
    elif kind == 4:
        g, full = F.new_mapping(3, 4), [i1, i2]
    elif kind == 5:
        B = BipartiteGraph(3, 4)
        for u in range(1, 4):
            for v in range(1, 5):
                B.add_edge(u, v)
        g, full = F.new_sparse_mapping(B), [i1, i2]
    elif kind == 6:
        H = Graph.complete_graph(4)
        g, full = F.new_graph_edges(H), [min(i1, i2 if i2 != i1 else 4), max(i1, i2 if i2 != i1 else 4)]
    elif kind == 7:
        g, full = F.new_binary_mapping(3, 4), [i1, i2 % 2]
    else:
        g, full = F.new_permutations(3, 2), [i1, i1 % 3 + 1]
    try:
        ok = g(*full)
    except ValueError:
        return False                      # the full index is legal
    if not isinstance(ok, int):
        return False
    bad = list(full[:-1]) if extra == 0 else list(full) + [1]
    if extra == 2:
        bad = list(full) + [None]
    if wild and bad:
        bad[0] = None
    if not bad:
        return True                       # no argument at all is the documented way to enumerate the group
    try:
        r = g(*bad)
        if not isinstance(r, int):
            list(r)
    except ValueError:
        return True
    return False


def h_e_arity(kind: int, off: int, i1: int, i2: int, extra: int, wild: bool) -> bool:
    """
    pre: 0 <= kind <= 8 and 0 <= off <= 2 and 1 <= i1 <= 3 and 1 <= i2 <= 4 and 0 <= extra <= 2
    post: _
    """
    return untraced(_arity, pick(kind, 0, 8), pick(off, 0, 2), pick(i1, 1, 3), pick(i2, 1, 4), pick(extra, 0, 2), pickb(wild))
