"""CrossHair harnesses for C19: transformations leave their inputs untouched and record provenance.

Enumerative part: input formulas from the exhaustive small-CNF set of C05 (solver-chosen index), every
transformation and every chain of two; deep snapshots before/after, aliasing tests, header provenance.
Symbolic part: argument immutability of the constraint builders with symbolic literals, operator and an unbounded
integer constant.
"""
import copy
import io

from cnfgen.formula.cnf import CNF
from cnfgen.formula.opb import OPB
from cnfgen.transformations.shuffle import Shuffle
import cnfgen.graphs as GR
from vlib.xh.xutil import pick, pickb, untraced
from vlib.props import c05

CNFS = c05.small_cnfs()
TR = [t for t in c05.transformations('thorough', 0) if t.get('k', 1) <= 3 and (t.get('K', 1) in (0, 1, 2))]
TR += [{'t': 'shuffle'}, {'t': 'xorcomp'}, {'t': 'majcomp'}]


def snapshot(F):
    return (F.number_of_variables(), [list(c) for c in F.clauses()], list(F.all_variable_labels()), list(F.header.items()),
            len(F), F.to_dimacs())


def _apply(F, t):
    if t['t'] == 'shuffle':
        return Shuffle(F)
    if t['t'] in ('xorcomp', 'majcomp'):
        n = F.number_of_variables()
        B = GR.BipartiteGraph(n, 2)
        for u in range(1, n + 1):
            B.add_edge(u, 1 + u % 2)
            if u % 3 == 0:
                B.add_edge(u, 1)
        snapB = (B.left_order(), B.right_order(), sorted(B.edges()))
        from cnfgen.transformations.substitutions import VariableCompression
        R = VariableCompression(F, B, 'xor' if t['t'] == 'xorcomp' else 'maj')
        if snapB != (B.left_order(), B.right_order(), sorted(B.edges())):
            raise AssertionError('compression graph was modified')
        return R
    return c05.apply(F, t)


def _mk(fi, named):
    f = CNFS[fi]
    if named:
        F = CNF(description='input formula %d' % fi)
        if f['n'] > 0:
            F.new_block(f['n'], label='v_{}')
        for c in f['clauses']:
            F.add_clause(list(c))
        F.header['custom entry'] = 'kept'
    else:
        F = c05.mk_input(f)
    return F


def _one(fi, named, t1, t2, two):
    F = _mk(fi, named)
    before = snapshot(F)
    chain = [TR[t1]] + ([TR[t2]] if two else [])
    R = F
    inter = []
    for t in chain:
        prev = R
        psnap = snapshot(prev)
        R = _apply(prev, t)
        if R is prev:
            return False                       # a new formula object is returned
        if snapshot(prev) != psnap:
            return False                       # the input of this step is untouched
        inter.append((prev, psnap))
    if snapshot(F) != before:
        return False
    # provenance: description kept (Shuffle appends ' (reshuffled)'), earlier entries kept, one numbered entry per step
    hdr = list(R.header.items())
    desc0 = dict(before[3])['description']
    want_desc = desc0 + ''.join(' (reshuffled)' for t in chain if t['t'] == 'shuffle')
    if R.header.get('description') != want_desc:
        return False
    for k, v in before[3]:
        if k != 'description' and R.header.get(k) != v:
            return False
    tkeys = [k for k, _ in hdr if k.startswith('transformation ')]
    if tkeys != ['transformation %d' % (i + 1) for i in range(len(chain))]:
        return False
    if any(not isinstance(R.header[k], str) or not R.header[k] for k in tkeys):
        return False
    text = io.StringIO()
    R.to_file(text, fileformat='dimacs', export_header=True)
    for i in range(len(chain)):
        if ('c transformation %d: ' % (i + 1)) not in text.getvalue():
            return False
    # aliasing: mutating the result must not reach the input (nor the intermediate formula)
    R.add_clause([1] if R.number_of_variables() >= 1 else [])
    R.header['description'] = 'changed'
    R.header['transformation 1'] = 'changed'
    R.header['new entry'] = 'x'
    for c in R.clauses():
        pass
    if len(R) > 0:
        first = R[0]
        first.append(99)
    if snapshot(F) != before:
        return False
    for prev, psnap in inter:
        if snapshot(prev) != psnap:
            return False
    # and the other way round: extending the input afterwards does not reach the result already returned
    rsnap = snapshot(R)
    F.add_clause([-1] if F.number_of_variables() >= 1 else [])
    F.header['later entry'] = 'y'
    return snapshot(R) == rsnap


def _idx(name, **kw):
    for i, t in enumerate(TR):
        if t['t'] == name and all(t.get(k) == v for k, v in kw.items()):
            return i
    raise KeyError(name)


SECOND = [_idx('xor', k=2), _idx('maj', k=3), _idx('lift', k=2), _idx('ite'), _idx('flip'), _idx('shuffle'), _idx('one', k=2)]


def _longchain(fi, length, pattern):
    """a long chain of cheap steps: one numbered provenance entry per step, in order, none overwritten"""
    from cnfgen.transformations import substitutions as S
    F = _mk(fi, True)
    before = snapshot(F)
    R = F
    texts = []
    for i in range(length):
        kind = (pattern + i) % 4
        if kind == 0:
            R = S.FlipPolarity(R)
        elif kind == 1:
            R = S.OrSubstitution(R, 1)
        elif kind == 2:
            R = Shuffle(R, 'fixed', 'fixed', 'fixed')
        else:
            R = S.XorSubstitution(R, 1)
        texts.append(R.header.get('transformation %d' % (i + 1)))
        keys = [k for k in R.header if k.startswith('transformation ')]
        if keys != ['transformation %d' % (j + 1) for j in range(i + 1)]:
            return False
        if [R.header[k] for k in keys] != texts:
            return False                     # an earlier entry was overwritten
    return snapshot(F) == before


def h_e_longchain(hi: int, length: int, pattern: int) -> bool:
    """
    pre: 0 <= hi <= 9 and 1 <= length <= 23 and 0 <= pattern <= 3
    post: _
    """
    return untraced(_longchain, 30 * pick(hi, 0, 9), pick(length, 1, 23), pick(pattern, 0, 3))


# ------------------------------------------------------- argument immutability (symbolic)
def _builder_args(cls, op, s1, s2, s3, c, as_list):
    lits = [1 if s1 else -1, 2 if s2 else -2, 3 if s3 else -3]
    arg = list(lits) if as_list else tuple(lits)
    keep = list(lits)
    F = CNF() if cls == 0 else OPB()
    if cls == 0:
        if op <= 5:
            F.add_linear(arg, ['<=', '>=', '<', '>', '==', '!='][op], c)
        elif op == 6:
            F.add_parity(arg, c % 2)
        else:
            [F.add_loose_majority, F.add_strict_majority, F.add_loose_minority, F.add_strict_minority][op - 7](arg)
    else:
        if op <= 3:
            [F.cardinality_leq, F.cardinality_geq, F.cardinality_eq, F.cardinality_neq][op](arg, c)
        elif op == 4:
            F.add_parity(arg, c % 2)
        elif op == 5:
            F.add_constraint([(2, lits[0]), (-1, lits[1]), '<=', c])
        else:
            [F.add_loose_majority, F.add_strict_majority, F.add_loose_minority, F.add_strict_minority][(op - 6) % 4](arg)
    return list(arg) == keep and type(arg) is (list if as_list else tuple)


def h_s_builder_cnf(op: int, s1: bool, s2: bool, s3: bool, c: int, as_list: bool) -> bool:
    """
    pre: 0 <= op <= 10
    post: _
    """
    return _builder_args(0, pick(op, 0, 10), s1, s2, s3, c, as_list)


def h_s_builder_opb(op: int, s1: bool, s2: bool, s3: bool, c: int, as_list: bool) -> bool:
    """
    pre: 0 <= op <= 9
    post: _
    """
    return _builder_args(1, pick(op, 0, 9), s1, s2, s3, c, as_list)


def _constraint_row(c1, c2, op, d):
    """add_constraint must not modify the row object it is given"""
    row = [(c1, 1), (c2, -2), ['>=', '<=', '>', '<', '=='][op], d]
    keep = list(row)
    F = OPB()
    F.add_constraint(row)
    return row == keep


def h_s_constraint_row(c1: int, c2: int, op: int, d: int) -> bool:
    """
    pre: -3 <= c1 <= 3 and -3 <= c2 <= 3 and c1 != 0 and c2 != 0 and 0 <= op <= 4
    post: _
    """
    return _constraint_row(c1, c2, pick(op, 0, 4), d)


# -------------------------------------------------------------- other arguments (enumerative)
def _other(which, n, bits):
    from cnfgen.families.tseitin import TseitinFormula
    if which == 0:
        G = GR.Graph(n)
        k = 0
        for u in range(1, n + 1):
            for v in range(u + 1, n + 1):
                if bits >> k & 1:
                    G.add_edge(u, v)
                k += 1
        charges = [bool(bits >> i & 1) for i in range(max(n - 1, 0))]
        keepc = list(charges)
        snap = (G.number_of_vertices(), sorted(G.edges()), G.name)
        TseitinFormula(G, charges)
        return charges == keepc and snap == (G.number_of_vertices(), sorted(G.edges()), G.name)
    if which == 1:
        pattern = [[2, 0, 1], [1, 0], [3, 3 - 1], [], [0]][bits % 5]
        keep = list(pattern)
        GR.bipartite_shift(max(n, 1), 4, pattern)
        d = GR.bipartite_shift(2, 3)            # the shared default argument stays empty, too
        return pattern == keep and d.number_of_edges() == 0
    # graph-taking generators leave the graph's views unchanged
    from cnfgen.families.coloring import GraphColoringFormula
    from cnfgen.families.dominatingset import DominatingSet, Tiling
    from cnfgen.families.subgraph import CliqueFormula, RamseyWitnessFormula
    from cnfgen.families.ordering import GraphOrderingPrinciple
    from cnfgen.families.counting import PerfectMatchingPrinciple
    from cnfgen.families.graphisomorphism import GraphIsomorphism
    from cnfgen.families.pigeonhole import GraphPigeonholePrinciple
    from cnfgen.families.subsetcardinality import SubsetCardinalityFormula
    from cnfgen.families.pebbling import PebblingFormula, StoneFormula
    G = GR.Graph(n)
    k = 0
    for u in range(1, n + 1):
        for v in range(u + 1, n + 1):
            if bits >> k & 1:
                G.add_edge(u, v)
            k += 1
    snap = (G.number_of_vertices(), sorted(G.edges()), [list(G.neighbors(v)) for v in range(1, n + 1)], G.name)
    for f in (lambda: GraphColoringFormula(G, 2), lambda: DominatingSet(G, 2), lambda: Tiling(G), lambda: CliqueFormula(G, 2),
              lambda: RamseyWitnessFormula(G, 2, 2), lambda: GraphOrderingPrinciple(G), lambda: PerfectMatchingPrinciple(G),
              lambda: GraphIsomorphism(G, G)):
        f()
        if snap != (G.number_of_vertices(), sorted(G.edges()), [list(G.neighbors(v)) for v in range(1, n + 1)], G.name):
            return False
    B = GR.BipartiteGraph(n, 2)
    for u in range(1, n + 1):
        if bits >> u & 1:
            B.add_edge(u, 1)
        if bits >> (u + 1) & 1:
            B.add_edge(u, 2)
    sb = (B.left_order(), B.right_order(), sorted(B.edges()), B.name)
    GraphPigeonholePrinciple(B)
    SubsetCardinalityFormula(B)
    if sb != (B.left_order(), B.right_order(), sorted(B.edges()), B.name):
        return False
    D = GR.DirectedGraph(n)
    k = 0
    for u in range(1, n + 1):
        for v in range(u + 1, n + 1):
            if bits >> k & 1:
                D.add_edge(u, v)
            k += 1
    sd = (D.number_of_vertices(), sorted(D.edges()), D.name)
    PebblingFormula(D)
    StoneFormula(D, 2)
    return sd == (D.number_of_vertices(), sorted(D.edges()), D.name)


def _nx_args(which, bits, as_str):
    """networkx graphs passed to generators / transformations keep nodes, node data, edges and graph attributes"""
    import networkx
    from cnfgen.families.pigeonhole import GraphPigeonholePrinciple
    from cnfgen.families.subsetcardinality import SubsetCardinalityFormula
    from cnfgen.families.pebbling import PebblingFormula, SparseStoneFormula
    from cnfgen.families.tseitin import TseitinFormula
    from cnfgen.families.coloring import GraphColoringFormula
    from cnfgen.families.counting import PerfectMatchingPrinciple
    from cnfgen.transformations.substitutions import VariableCompression

    def snap(N):
        return (list(N.nodes(data=True)), sorted(map(repr, N.edges(data=True))), dict(N.graph), type(N).__name__)
    if which == 0:
        N = networkx.Graph()
        for u in range(3):
            N.add_node('a%d' % u, bipartite='0' if as_str else 0)
        for v in range(2):
            N.add_node('b%d' % v, bipartite='1' if as_str else 1)
        k = 0
        for u in range(3):
            for v in range(2):
                if bits >> k & 1:
                    N.add_edge('b%d' % v, 'a%d' % u) if (k % 2) else N.add_edge('a%d' % u, 'b%d' % v)
                k += 1
        before = copy.deepcopy(snap(N))
        GraphPigeonholePrinciple(N)
        SubsetCardinalityFormula(N)
        F = CNF([[1, -2], [3]])
        VariableCompression(F, N, 'xor')
        D = networkx.DiGraph()
        D.add_nodes_from([1, 2, 3])
        D.add_edges_from([(1, 3), (2, 3)])
        dsnap = copy.deepcopy(snap(D))
        SparseStoneFormula(D, N)
        return snap(N) == before and snap(D) == dsnap
    if which == 1:
        N = networkx.Graph()
        # vertex names: all strings, or (as_str) a mix that cannot be sorted - strings, an integer, a tuple
        names = ['x', 7, ('p', 1), 'w'] if as_str else ['x', 'y', 'z', 'w']
        N.add_nodes_from(names, colour='red')
        P = [(names[a], names[b]) for a in range(4) for b in range(a + 1, 4)]
        for k, e in enumerate(P):
            if bits >> k & 1:
                N.add_edge(*e, weight=k)
        N.graph['name'] = 'my graph'
        before = copy.deepcopy(snap(N))
        TseitinFormula(N)
        GraphColoringFormula(N, 2)
        PerfectMatchingPrinciple(N)
        return snap(N) == before
    D = networkx.DiGraph()
    names = [1, 'two', (3,), 4.5] if as_str else [1, 2, 3, 4]
    D.add_nodes_from(names, tag='t')
    P = [(names[a], names[b]) for a in range(4) for b in range(a + 1, 4)]
    for k, e in enumerate(P):
        if bits >> k & 1:
            D.add_edge(*e)
    before = copy.deepcopy(snap(D))
    try:
        PebblingFormula(D)
    except ValueError:
        pass                                   # insertion order need not be a topological order of the names
    return snap(D) == before


def h_e_nx_args(which: int, bits: int, as_str: bool) -> bool:
    """
    pre: 0 <= which <= 2 and 0 <= bits <= 63
    post: _
    """
    return untraced(_nx_args, pick(which, 0, 2), pick(bits, 0, 63), pickb(as_str))


def h_e_other(which: int, n: int, bits: int) -> bool:
    """
    pre: 0 <= which <= 2 and 0 <= n <= 4 and 0 <= bits <= 63
    post: _
    """
    return untraced(_other, pick(which, 0, 2), pick(n, 0, 4), pick(bits, 0, 63))


PL_STREAMS = [lambda i: 0, lambda i: 10 ** 6 - 1, lambda i: (i // 3) % 2, lambda i: i // 2, lambda i: (i * 7 + 3) % 5]
PLANTED = [[[1, 2, 3], [-1]], [[-3, 2, -1], [2]], [[3, -2, 1]], [[1, -2, 3], [-1, -2, -3]], [[-2], [1, 2, 3], [3]], []]


def _planted(kind, k, m, pi, st):
    """the random families leave the list of planted assignments (and each assignment in it) as the caller wrote it;
    draws come from streams that make the rejection phase give up, so the dense fallback runs as well"""
    import copy
    from cnfgen.families import randomformulas, randomkxor
    from vlib.xh.xutil import Tape, FakeRandom
    mod = randomformulas if kind == 0 else randomkxor
    fn = mod.RandomKCNF if kind == 0 else mod.RandomKXOR
    planted = copy.deepcopy(PLANTED[pi])
    keep = copy.deepcopy(planted)
    inner = [id(a) for a in planted]
    old = mod.random
    mod.random = FakeRandom(Tape(concrete=PL_STREAMS[st], limit=10 ** 6))
    try:
        fn(k, 3, m, planted_assignments=planted)
    except ValueError:
        pass
    finally:
        mod.random = old
    return planted == keep and inner == [id(a) for a in planted]


def h_e_planted(kind: int, k: int, m: int, pi: int, st: int) -> bool:
    """
    pre: 0 <= kind <= 1 and 1 <= k <= 3 and 0 <= m <= 13 and 0 <= pi <= 5 and 0 <= st <= 4
    post: _
    """
    return untraced(_planted, pick(kind, 0, 1), pick(k, 1, 3), pick(m, 0, 13), pick(pi, 0, 5), pick(st, 0, 4))


# generated: one harness per first transformation

def h_e_tr_0(hi: int, lo: int, named: bool, t2: int, two: bool) -> bool:
    """
    pre: 0 <= hi <= 36 and 0 <= lo <= 7 and 0 <= t2 <= 6
    post: _
    """
    # first transformation: {'t': 'xor', 'k': 1} ; optionally followed by one of xor 2 / maj 3 / lift 2 / ite / flip / shuffle / one 2
    return untraced(_one, 8 * pick(hi, 0, 36) + pick(lo, 0, 7), pickb(named), 0, SECOND[pick(t2, 0, 6)], pickb(two))


def h_q_tr_0(hi: int, named: bool, t2: int, two: bool) -> bool:
    """
    pre: 0 <= hi <= 36 and 0 <= t2 <= 6
    post: _
    """
    # first transformation: {'t': 'xor', 'k': 1} ; optionally followed by one of xor 2 / maj 3 / lift 2 / ite / flip / shuffle / one 2
    return untraced(_one, 8 * pick(hi, 0, 36) + 0, pickb(named), 0, SECOND[pick(t2, 0, 6)], pickb(two))


def h_e_tr_1(hi: int, lo: int, named: bool, t2: int, two: bool) -> bool:
    """
    pre: 0 <= hi <= 36 and 0 <= lo <= 7 and 0 <= t2 <= 6
    post: _
    """
    # first transformation: {'t': 'or', 'k': 1} ; optionally followed by one of xor 2 / maj 3 / lift 2 / ite / flip / shuffle / one 2
    return untraced(_one, 8 * pick(hi, 0, 36) + pick(lo, 0, 7), pickb(named), 1, SECOND[pick(t2, 0, 6)], pickb(two))


def h_q_tr_1(hi: int, named: bool, t2: int, two: bool) -> bool:
    """
    pre: 0 <= hi <= 36 and 0 <= t2 <= 6
    post: _
    """
    # first transformation: {'t': 'or', 'k': 1} ; optionally followed by one of xor 2 / maj 3 / lift 2 / ite / flip / shuffle / one 2
    return untraced(_one, 8 * pick(hi, 0, 36) + 1, pickb(named), 1, SECOND[pick(t2, 0, 6)], pickb(two))


def h_e_tr_2(hi: int, lo: int, named: bool, t2: int, two: bool) -> bool:
    """
    pre: 0 <= hi <= 36 and 0 <= lo <= 7 and 0 <= t2 <= 6
    post: _
    """
    # first transformation: {'t': 'maj', 'k': 1} ; optionally followed by one of xor 2 / maj 3 / lift 2 / ite / flip / shuffle / one 2
    return untraced(_one, 8 * pick(hi, 0, 36) + pick(lo, 0, 7), pickb(named), 2, SECOND[pick(t2, 0, 6)], pickb(two))


def h_q_tr_2(hi: int, named: bool, t2: int, two: bool) -> bool:
    """
    pre: 0 <= hi <= 36 and 0 <= t2 <= 6
    post: _
    """
    # first transformation: {'t': 'maj', 'k': 1} ; optionally followed by one of xor 2 / maj 3 / lift 2 / ite / flip / shuffle / one 2
    return untraced(_one, 8 * pick(hi, 0, 36) + 2, pickb(named), 2, SECOND[pick(t2, 0, 6)], pickb(two))


def h_e_tr_3(hi: int, lo: int, named: bool, t2: int, two: bool) -> bool:
    """
    pre: 0 <= hi <= 36 and 0 <= lo <= 7 and 0 <= t2 <= 6
    post: _
    """
    # first transformation: {'t': 'eq', 'k': 1} ; optionally followed by one of xor 2 / maj 3 / lift 2 / ite / flip / shuffle / one 2
    return untraced(_one, 8 * pick(hi, 0, 36) + pick(lo, 0, 7), pickb(named), 3, SECOND[pick(t2, 0, 6)], pickb(two))


def h_q_tr_3(hi: int, named: bool, t2: int, two: bool) -> bool:
    """
    pre: 0 <= hi <= 36 and 0 <= t2 <= 6
    post: _
    """
    # first transformation: {'t': 'eq', 'k': 1} ; optionally followed by one of xor 2 / maj 3 / lift 2 / ite / flip / shuffle / one 2
    return untraced(_one, 8 * pick(hi, 0, 36) + 3, pickb(named), 3, SECOND[pick(t2, 0, 6)], pickb(two))


def h_e_tr_4(hi: int, lo: int, named: bool, t2: int, two: bool) -> bool:
    """
    pre: 0 <= hi <= 36 and 0 <= lo <= 7 and 0 <= t2 <= 6
    post: _
    """
    # first transformation: {'t': 'neq', 'k': 1} ; optionally followed by one of xor 2 / maj 3 / lift 2 / ite / flip / shuffle / one 2
    return untraced(_one, 8 * pick(hi, 0, 36) + pick(lo, 0, 7), pickb(named), 4, SECOND[pick(t2, 0, 6)], pickb(two))


def h_q_tr_4(hi: int, named: bool, t2: int, two: bool) -> bool:
    """
    pre: 0 <= hi <= 36 and 0 <= t2 <= 6
    post: _
    """
    # first transformation: {'t': 'neq', 'k': 1} ; optionally followed by one of xor 2 / maj 3 / lift 2 / ite / flip / shuffle / one 2
    return untraced(_one, 8 * pick(hi, 0, 36) + 4, pickb(named), 4, SECOND[pick(t2, 0, 6)], pickb(two))


def h_e_tr_5(hi: int, lo: int, named: bool, t2: int, two: bool) -> bool:
    """
    pre: 0 <= hi <= 36 and 0 <= lo <= 7 and 0 <= t2 <= 6
    post: _
    """
    # first transformation: {'t': 'one', 'k': 1} ; optionally followed by one of xor 2 / maj 3 / lift 2 / ite / flip / shuffle / one 2
    return untraced(_one, 8 * pick(hi, 0, 36) + pick(lo, 0, 7), pickb(named), 5, SECOND[pick(t2, 0, 6)], pickb(two))


def h_q_tr_5(hi: int, named: bool, t2: int, two: bool) -> bool:
    """
    pre: 0 <= hi <= 36 and 0 <= t2 <= 6
    post: _
    """
    # first transformation: {'t': 'one', 'k': 1} ; optionally followed by one of xor 2 / maj 3 / lift 2 / ite / flip / shuffle / one 2
    return untraced(_one, 8 * pick(hi, 0, 36) + 5, pickb(named), 5, SECOND[pick(t2, 0, 6)], pickb(two))


def h_e_tr_6(hi: int, lo: int, named: bool, t2: int, two: bool) -> bool:
    """
    pre: 0 <= hi <= 36 and 0 <= lo <= 7 and 0 <= t2 <= 6
    post: _
    """
    # first transformation: {'t': 'lift', 'k': 1} ; optionally followed by one of xor 2 / maj 3 / lift 2 / ite / flip / shuffle / one 2
    return untraced(_one, 8 * pick(hi, 0, 36) + pick(lo, 0, 7), pickb(named), 6, SECOND[pick(t2, 0, 6)], pickb(two))


def h_q_tr_6(hi: int, named: bool, t2: int, two: bool) -> bool:
    """
    pre: 0 <= hi <= 36 and 0 <= t2 <= 6
    post: _
    """
    # first transformation: {'t': 'lift', 'k': 1} ; optionally followed by one of xor 2 / maj 3 / lift 2 / ite / flip / shuffle / one 2
    return untraced(_one, 8 * pick(hi, 0, 36) + 6, pickb(named), 6, SECOND[pick(t2, 0, 6)], pickb(two))


def h_e_tr_7(hi: int, lo: int, named: bool, t2: int, two: bool) -> bool:
    """
    pre: 0 <= hi <= 36 and 0 <= lo <= 7 and 0 <= t2 <= 6
    post: _
    """
    # first transformation: {'t': 'xor', 'k': 2} ; optionally followed by one of xor 2 / maj 3 / lift 2 / ite / flip / shuffle / one 2
    return untraced(_one, 8 * pick(hi, 0, 36) + pick(lo, 0, 7), pickb(named), 7, SECOND[pick(t2, 0, 6)], pickb(two))


def h_q_tr_7(hi: int, named: bool, t2: int, two: bool) -> bool:
    """
    pre: 0 <= hi <= 36 and 0 <= t2 <= 6
    post: _
    """
    # first transformation: {'t': 'xor', 'k': 2} ; optionally followed by one of xor 2 / maj 3 / lift 2 / ite / flip / shuffle / one 2
    return untraced(_one, 8 * pick(hi, 0, 36) + 7, pickb(named), 7, SECOND[pick(t2, 0, 6)], pickb(two))


def h_e_tr_8(hi: int, lo: int, named: bool, t2: int, two: bool) -> bool:
    """
    pre: 0 <= hi <= 36 and 0 <= lo <= 7 and 0 <= t2 <= 6
    post: _
    """
    # first transformation: {'t': 'or', 'k': 2} ; optionally followed by one of xor 2 / maj 3 / lift 2 / ite / flip / shuffle / one 2
    return untraced(_one, 8 * pick(hi, 0, 36) + pick(lo, 0, 7), pickb(named), 8, SECOND[pick(t2, 0, 6)], pickb(two))


def h_q_tr_8(hi: int, named: bool, t2: int, two: bool) -> bool:
    """
    pre: 0 <= hi <= 36 and 0 <= t2 <= 6
    post: _
    """
    # first transformation: {'t': 'or', 'k': 2} ; optionally followed by one of xor 2 / maj 3 / lift 2 / ite / flip / shuffle / one 2
    return untraced(_one, 8 * pick(hi, 0, 36) + 0, pickb(named), 8, SECOND[pick(t2, 0, 6)], pickb(two))


def h_e_tr_9(hi: int, lo: int, named: bool, t2: int, two: bool) -> bool:
    """
    pre: 0 <= hi <= 36 and 0 <= lo <= 7 and 0 <= t2 <= 6
    post: _
    """
    # first transformation: {'t': 'maj', 'k': 2} ; optionally followed by one of xor 2 / maj 3 / lift 2 / ite / flip / shuffle / one 2
    return untraced(_one, 8 * pick(hi, 0, 36) + pick(lo, 0, 7), pickb(named), 9, SECOND[pick(t2, 0, 6)], pickb(two))


def h_q_tr_9(hi: int, named: bool, t2: int, two: bool) -> bool:
    """
    pre: 0 <= hi <= 36 and 0 <= t2 <= 6
    post: _
    """
    # first transformation: {'t': 'maj', 'k': 2} ; optionally followed by one of xor 2 / maj 3 / lift 2 / ite / flip / shuffle / one 2
    return untraced(_one, 8 * pick(hi, 0, 36) + 1, pickb(named), 9, SECOND[pick(t2, 0, 6)], pickb(two))


def h_e_tr_10(hi: int, lo: int, named: bool, t2: int, two: bool) -> bool:
    """
    pre: 0 <= hi <= 36 and 0 <= lo <= 7 and 0 <= t2 <= 6
    post: _
    """
    # first transformation: {'t': 'eq', 'k': 2} ; optionally followed by one of xor 2 / maj 3 / lift 2 / ite / flip / shuffle / one 2
    return untraced(_one, 8 * pick(hi, 0, 36) + pick(lo, 0, 7), pickb(named), 10, SECOND[pick(t2, 0, 6)], pickb(two))


def h_q_tr_10(hi: int, named: bool, t2: int, two: bool) -> bool:
    """
    pre: 0 <= hi <= 36 and 0 <= t2 <= 6
    post: _
    """
    # first transformation: {'t': 'eq', 'k': 2} ; optionally followed by one of xor 2 / maj 3 / lift 2 / ite / flip / shuffle / one 2
    return untraced(_one, 8 * pick(hi, 0, 36) + 2, pickb(named), 10, SECOND[pick(t2, 0, 6)], pickb(two))


def h_e_tr_11(hi: int, lo: int, named: bool, t2: int, two: bool) -> bool:
    """
    pre: 0 <= hi <= 36 and 0 <= lo <= 7 and 0 <= t2 <= 6
    post: _
    """
    # first transformation: {'t': 'neq', 'k': 2} ; optionally followed by one of xor 2 / maj 3 / lift 2 / ite / flip / shuffle / one 2
    return untraced(_one, 8 * pick(hi, 0, 36) + pick(lo, 0, 7), pickb(named), 11, SECOND[pick(t2, 0, 6)], pickb(two))


def h_q_tr_11(hi: int, named: bool, t2: int, two: bool) -> bool:
    """
    pre: 0 <= hi <= 36 and 0 <= t2 <= 6
    post: _
    """
    # first transformation: {'t': 'neq', 'k': 2} ; optionally followed by one of xor 2 / maj 3 / lift 2 / ite / flip / shuffle / one 2
    return untraced(_one, 8 * pick(hi, 0, 36) + 3, pickb(named), 11, SECOND[pick(t2, 0, 6)], pickb(two))


def h_e_tr_12(hi: int, lo: int, named: bool, t2: int, two: bool) -> bool:
    """
    pre: 0 <= hi <= 36 and 0 <= lo <= 7 and 0 <= t2 <= 6
    post: _
    """
    # first transformation: {'t': 'one', 'k': 2} ; optionally followed by one of xor 2 / maj 3 / lift 2 / ite / flip / shuffle / one 2
    return untraced(_one, 8 * pick(hi, 0, 36) + pick(lo, 0, 7), pickb(named), 12, SECOND[pick(t2, 0, 6)], pickb(two))


def h_q_tr_12(hi: int, named: bool, t2: int, two: bool) -> bool:
    """
    pre: 0 <= hi <= 36 and 0 <= t2 <= 6
    post: _
    """
    # first transformation: {'t': 'one', 'k': 2} ; optionally followed by one of xor 2 / maj 3 / lift 2 / ite / flip / shuffle / one 2
    return untraced(_one, 8 * pick(hi, 0, 36) + 4, pickb(named), 12, SECOND[pick(t2, 0, 6)], pickb(two))


def h_e_tr_13(hi: int, lo: int, named: bool, t2: int, two: bool) -> bool:
    """
    pre: 0 <= hi <= 36 and 0 <= lo <= 7 and 0 <= t2 <= 6
    post: _
    """
    # first transformation: {'t': 'lift', 'k': 2} ; optionally followed by one of xor 2 / maj 3 / lift 2 / ite / flip / shuffle / one 2
    return untraced(_one, 8 * pick(hi, 0, 36) + pick(lo, 0, 7), pickb(named), 13, SECOND[pick(t2, 0, 6)], pickb(two))


def h_q_tr_13(hi: int, named: bool, t2: int, two: bool) -> bool:
    """
    pre: 0 <= hi <= 36 and 0 <= t2 <= 6
    post: _
    """
    # first transformation: {'t': 'lift', 'k': 2} ; optionally followed by one of xor 2 / maj 3 / lift 2 / ite / flip / shuffle / one 2
    return untraced(_one, 8 * pick(hi, 0, 36) + 5, pickb(named), 13, SECOND[pick(t2, 0, 6)], pickb(two))


def h_e_tr_14(hi: int, lo: int, named: bool, t2: int, two: bool) -> bool:
    """
    pre: 0 <= hi <= 36 and 0 <= lo <= 7 and 0 <= t2 <= 6
    post: _
    """
    # first transformation: {'t': 'xor', 'k': 3} ; optionally followed by one of xor 2 / maj 3 / lift 2 / ite / flip / shuffle / one 2
    return untraced(_one, 8 * pick(hi, 0, 36) + pick(lo, 0, 7), pickb(named), 14, SECOND[pick(t2, 0, 6)], pickb(two))


def h_q_tr_14(hi: int, named: bool, t2: int, two: bool) -> bool:
    """
    pre: 0 <= hi <= 36 and 0 <= t2 <= 6
    post: _
    """
    # first transformation: {'t': 'xor', 'k': 3} ; optionally followed by one of xor 2 / maj 3 / lift 2 / ite / flip / shuffle / one 2
    return untraced(_one, 8 * pick(hi, 0, 36) + 6, pickb(named), 14, SECOND[pick(t2, 0, 6)], pickb(two))


def h_e_tr_15(hi: int, lo: int, named: bool, t2: int, two: bool) -> bool:
    """
    pre: 0 <= hi <= 36 and 0 <= lo <= 7 and 0 <= t2 <= 6
    post: _
    """
    # first transformation: {'t': 'or', 'k': 3} ; optionally followed by one of xor 2 / maj 3 / lift 2 / ite / flip / shuffle / one 2
    return untraced(_one, 8 * pick(hi, 0, 36) + pick(lo, 0, 7), pickb(named), 15, SECOND[pick(t2, 0, 6)], pickb(two))


def h_q_tr_15(hi: int, named: bool, t2: int, two: bool) -> bool:
    """
    pre: 0 <= hi <= 36 and 0 <= t2 <= 6
    post: _
    """
    # first transformation: {'t': 'or', 'k': 3} ; optionally followed by one of xor 2 / maj 3 / lift 2 / ite / flip / shuffle / one 2
    return untraced(_one, 8 * pick(hi, 0, 36) + 7, pickb(named), 15, SECOND[pick(t2, 0, 6)], pickb(two))


def h_e_tr_16(hi: int, lo: int, named: bool, t2: int, two: bool) -> bool:
    """
    pre: 0 <= hi <= 36 and 0 <= lo <= 7 and 0 <= t2 <= 6
    post: _
    """
    # first transformation: {'t': 'maj', 'k': 3} ; optionally followed by one of xor 2 / maj 3 / lift 2 / ite / flip / shuffle / one 2
    return untraced(_one, 8 * pick(hi, 0, 36) + pick(lo, 0, 7), pickb(named), 16, SECOND[pick(t2, 0, 6)], pickb(two))


def h_q_tr_16(hi: int, named: bool, t2: int, two: bool) -> bool:
    """
    pre: 0 <= hi <= 36 and 0 <= t2 <= 6
    post: _
    """
    # first transformation: {'t': 'maj', 'k': 3} ; optionally followed by one of xor 2 / maj 3 / lift 2 / ite / flip / shuffle / one 2
    return untraced(_one, 8 * pick(hi, 0, 36) + 0, pickb(named), 16, SECOND[pick(t2, 0, 6)], pickb(two))


def h_e_tr_17(hi: int, lo: int, named: bool, t2: int, two: bool) -> bool:
    """
    pre: 0 <= hi <= 36 and 0 <= lo <= 7 and 0 <= t2 <= 6
    post: _
    """
    # first transformation: {'t': 'eq', 'k': 3} ; optionally followed by one of xor 2 / maj 3 / lift 2 / ite / flip / shuffle / one 2
    return untraced(_one, 8 * pick(hi, 0, 36) + pick(lo, 0, 7), pickb(named), 17, SECOND[pick(t2, 0, 6)], pickb(two))


def h_q_tr_17(hi: int, named: bool, t2: int, two: bool) -> bool:
    """
    pre: 0 <= hi <= 36 and 0 <= t2 <= 6
    post: _
    """
    # first transformation: {'t': 'eq', 'k': 3} ; optionally followed by one of xor 2 / maj 3 / lift 2 / ite / flip / shuffle / one 2
    return untraced(_one, 8 * pick(hi, 0, 36) + 1, pickb(named), 17, SECOND[pick(t2, 0, 6)], pickb(two))


def h_e_tr_18(hi: int, lo: int, named: bool, t2: int, two: bool) -> bool:
    """
    pre: 0 <= hi <= 36 and 0 <= lo <= 7 and 0 <= t2 <= 6
    post: _
    """
    # first transformation: {'t': 'neq', 'k': 3} ; optionally followed by one of xor 2 / maj 3 / lift 2 / ite / flip / shuffle / one 2
    return untraced(_one, 8 * pick(hi, 0, 36) + pick(lo, 0, 7), pickb(named), 18, SECOND[pick(t2, 0, 6)], pickb(two))


def h_q_tr_18(hi: int, named: bool, t2: int, two: bool) -> bool:
    """
    pre: 0 <= hi <= 36 and 0 <= t2 <= 6
    post: _
    """
    # first transformation: {'t': 'neq', 'k': 3} ; optionally followed by one of xor 2 / maj 3 / lift 2 / ite / flip / shuffle / one 2
    return untraced(_one, 8 * pick(hi, 0, 36) + 2, pickb(named), 18, SECOND[pick(t2, 0, 6)], pickb(two))


def h_e_tr_19(hi: int, lo: int, named: bool, t2: int, two: bool) -> bool:
    """
    pre: 0 <= hi <= 36 and 0 <= lo <= 7 and 0 <= t2 <= 6
    post: _
    """
    # first transformation: {'t': 'one', 'k': 3} ; optionally followed by one of xor 2 / maj 3 / lift 2 / ite / flip / shuffle / one 2
    return untraced(_one, 8 * pick(hi, 0, 36) + pick(lo, 0, 7), pickb(named), 19, SECOND[pick(t2, 0, 6)], pickb(two))


def h_q_tr_19(hi: int, named: bool, t2: int, two: bool) -> bool:
    """
    pre: 0 <= hi <= 36 and 0 <= t2 <= 6
    post: _
    """
    # first transformation: {'t': 'one', 'k': 3} ; optionally followed by one of xor 2 / maj 3 / lift 2 / ite / flip / shuffle / one 2
    return untraced(_one, 8 * pick(hi, 0, 36) + 3, pickb(named), 19, SECOND[pick(t2, 0, 6)], pickb(two))


def h_e_tr_20(hi: int, lo: int, named: bool, t2: int, two: bool) -> bool:
    """
    pre: 0 <= hi <= 36 and 0 <= lo <= 7 and 0 <= t2 <= 6
    post: _
    """
    # first transformation: {'t': 'lift', 'k': 3} ; optionally followed by one of xor 2 / maj 3 / lift 2 / ite / flip / shuffle / one 2
    return untraced(_one, 8 * pick(hi, 0, 36) + pick(lo, 0, 7), pickb(named), 20, SECOND[pick(t2, 0, 6)], pickb(two))


def h_q_tr_20(hi: int, named: bool, t2: int, two: bool) -> bool:
    """
    pre: 0 <= hi <= 36 and 0 <= t2 <= 6
    post: _
    """
    # first transformation: {'t': 'lift', 'k': 3} ; optionally followed by one of xor 2 / maj 3 / lift 2 / ite / flip / shuffle / one 2
    return untraced(_one, 8 * pick(hi, 0, 36) + 4, pickb(named), 20, SECOND[pick(t2, 0, 6)], pickb(two))


def h_e_tr_21(hi: int, lo: int, named: bool, t2: int, two: bool) -> bool:
    """
    pre: 0 <= hi <= 36 and 0 <= lo <= 7 and 0 <= t2 <= 6
    post: _
    """
    # first transformation: {'t': 'exact', 'k': 1, 'K': 0} ; optionally followed by one of xor 2 / maj 3 / lift 2 / ite / flip / shuffle / one 2
    return untraced(_one, 8 * pick(hi, 0, 36) + pick(lo, 0, 7), pickb(named), 21, SECOND[pick(t2, 0, 6)], pickb(two))


def h_q_tr_21(hi: int, named: bool, t2: int, two: bool) -> bool:
    """
    pre: 0 <= hi <= 36 and 0 <= t2 <= 6
    post: _
    """
    # first transformation: {'t': 'exact', 'k': 1, 'K': 0} ; optionally followed by one of xor 2 / maj 3 / lift 2 / ite / flip / shuffle / one 2
    return untraced(_one, 8 * pick(hi, 0, 36) + 5, pickb(named), 21, SECOND[pick(t2, 0, 6)], pickb(two))


def h_e_tr_22(hi: int, lo: int, named: bool, t2: int, two: bool) -> bool:
    """
    pre: 0 <= hi <= 36 and 0 <= lo <= 7 and 0 <= t2 <= 6
    post: _
    """
    # first transformation: {'t': 'atleast', 'k': 1, 'K': 0} ; optionally followed by one of xor 2 / maj 3 / lift 2 / ite / flip / shuffle / one 2
    return untraced(_one, 8 * pick(hi, 0, 36) + pick(lo, 0, 7), pickb(named), 22, SECOND[pick(t2, 0, 6)], pickb(two))


def h_q_tr_22(hi: int, named: bool, t2: int, two: bool) -> bool:
    """
    pre: 0 <= hi <= 36 and 0 <= t2 <= 6
    post: _
    """
    # first transformation: {'t': 'atleast', 'k': 1, 'K': 0} ; optionally followed by one of xor 2 / maj 3 / lift 2 / ite / flip / shuffle / one 2
    return untraced(_one, 8 * pick(hi, 0, 36) + 6, pickb(named), 22, SECOND[pick(t2, 0, 6)], pickb(two))


def h_e_tr_23(hi: int, lo: int, named: bool, t2: int, two: bool) -> bool:
    """
    pre: 0 <= hi <= 36 and 0 <= lo <= 7 and 0 <= t2 <= 6
    post: _
    """
    # first transformation: {'t': 'atmost', 'k': 1, 'K': 0} ; optionally followed by one of xor 2 / maj 3 / lift 2 / ite / flip / shuffle / one 2
    return untraced(_one, 8 * pick(hi, 0, 36) + pick(lo, 0, 7), pickb(named), 23, SECOND[pick(t2, 0, 6)], pickb(two))


def h_q_tr_23(hi: int, named: bool, t2: int, two: bool) -> bool:
    """
    pre: 0 <= hi <= 36 and 0 <= t2 <= 6
    post: _
    """
    # first transformation: {'t': 'atmost', 'k': 1, 'K': 0} ; optionally followed by one of xor 2 / maj 3 / lift 2 / ite / flip / shuffle / one 2
    return untraced(_one, 8 * pick(hi, 0, 36) + 7, pickb(named), 23, SECOND[pick(t2, 0, 6)], pickb(two))


def h_e_tr_24(hi: int, lo: int, named: bool, t2: int, two: bool) -> bool:
    """
    pre: 0 <= hi <= 36 and 0 <= lo <= 7 and 0 <= t2 <= 6
    post: _
    """
    # first transformation: {'t': 'anybut', 'k': 1, 'K': 0} ; optionally followed by one of xor 2 / maj 3 / lift 2 / ite / flip / shuffle / one 2
    return untraced(_one, 8 * pick(hi, 0, 36) + pick(lo, 0, 7), pickb(named), 24, SECOND[pick(t2, 0, 6)], pickb(two))


def h_q_tr_24(hi: int, named: bool, t2: int, two: bool) -> bool:
    """
    pre: 0 <= hi <= 36 and 0 <= t2 <= 6
    post: _
    """
    # first transformation: {'t': 'anybut', 'k': 1, 'K': 0} ; optionally followed by one of xor 2 / maj 3 / lift 2 / ite / flip / shuffle / one 2
    return untraced(_one, 8 * pick(hi, 0, 36) + 0, pickb(named), 24, SECOND[pick(t2, 0, 6)], pickb(two))


def h_e_tr_25(hi: int, lo: int, named: bool, t2: int, two: bool) -> bool:
    """
    pre: 0 <= hi <= 36 and 0 <= lo <= 7 and 0 <= t2 <= 6
    post: _
    """
    # first transformation: {'t': 'exact', 'k': 1, 'K': 1} ; optionally followed by one of xor 2 / maj 3 / lift 2 / ite / flip / shuffle / one 2
    return untraced(_one, 8 * pick(hi, 0, 36) + pick(lo, 0, 7), pickb(named), 25, SECOND[pick(t2, 0, 6)], pickb(two))


def h_q_tr_25(hi: int, named: bool, t2: int, two: bool) -> bool:
    """
    pre: 0 <= hi <= 36 and 0 <= t2 <= 6
    post: _
    """
    # first transformation: {'t': 'exact', 'k': 1, 'K': 1} ; optionally followed by one of xor 2 / maj 3 / lift 2 / ite / flip / shuffle / one 2
    return untraced(_one, 8 * pick(hi, 0, 36) + 1, pickb(named), 25, SECOND[pick(t2, 0, 6)], pickb(two))


def h_e_tr_26(hi: int, lo: int, named: bool, t2: int, two: bool) -> bool:
    """
    pre: 0 <= hi <= 36 and 0 <= lo <= 7 and 0 <= t2 <= 6
    post: _
    """
    # first transformation: {'t': 'atleast', 'k': 1, 'K': 1} ; optionally followed by one of xor 2 / maj 3 / lift 2 / ite / flip / shuffle / one 2
    return untraced(_one, 8 * pick(hi, 0, 36) + pick(lo, 0, 7), pickb(named), 26, SECOND[pick(t2, 0, 6)], pickb(two))


def h_q_tr_26(hi: int, named: bool, t2: int, two: bool) -> bool:
    """
    pre: 0 <= hi <= 36 and 0 <= t2 <= 6
    post: _
    """
    # first transformation: {'t': 'atleast', 'k': 1, 'K': 1} ; optionally followed by one of xor 2 / maj 3 / lift 2 / ite / flip / shuffle / one 2
    return untraced(_one, 8 * pick(hi, 0, 36) + 2, pickb(named), 26, SECOND[pick(t2, 0, 6)], pickb(two))


def h_e_tr_27(hi: int, lo: int, named: bool, t2: int, two: bool) -> bool:
    """
    pre: 0 <= hi <= 36 and 0 <= lo <= 7 and 0 <= t2 <= 6
    post: _
    """
    # first transformation: {'t': 'atmost', 'k': 1, 'K': 1} ; optionally followed by one of xor 2 / maj 3 / lift 2 / ite / flip / shuffle / one 2
    return untraced(_one, 8 * pick(hi, 0, 36) + pick(lo, 0, 7), pickb(named), 27, SECOND[pick(t2, 0, 6)], pickb(two))


def h_q_tr_27(hi: int, named: bool, t2: int, two: bool) -> bool:
    """
    pre: 0 <= hi <= 36 and 0 <= t2 <= 6
    post: _
    """
    # first transformation: {'t': 'atmost', 'k': 1, 'K': 1} ; optionally followed by one of xor 2 / maj 3 / lift 2 / ite / flip / shuffle / one 2
    return untraced(_one, 8 * pick(hi, 0, 36) + 3, pickb(named), 27, SECOND[pick(t2, 0, 6)], pickb(two))


def h_e_tr_28(hi: int, lo: int, named: bool, t2: int, two: bool) -> bool:
    """
    pre: 0 <= hi <= 36 and 0 <= lo <= 7 and 0 <= t2 <= 6
    post: _
    """
    # first transformation: {'t': 'anybut', 'k': 1, 'K': 1} ; optionally followed by one of xor 2 / maj 3 / lift 2 / ite / flip / shuffle / one 2
    return untraced(_one, 8 * pick(hi, 0, 36) + pick(lo, 0, 7), pickb(named), 28, SECOND[pick(t2, 0, 6)], pickb(two))


def h_q_tr_28(hi: int, named: bool, t2: int, two: bool) -> bool:
    """
    pre: 0 <= hi <= 36 and 0 <= t2 <= 6
    post: _
    """
    # first transformation: {'t': 'anybut', 'k': 1, 'K': 1} ; optionally followed by one of xor 2 / maj 3 / lift 2 / ite / flip / shuffle / one 2
    return untraced(_one, 8 * pick(hi, 0, 36) + 4, pickb(named), 28, SECOND[pick(t2, 0, 6)], pickb(two))


def h_e_tr_29(hi: int, lo: int, named: bool, t2: int, two: bool) -> bool:
    """
    pre: 0 <= hi <= 36 and 0 <= lo <= 7 and 0 <= t2 <= 6
    post: _
    """
    # first transformation: {'t': 'exact', 'k': 1, 'K': 2} ; optionally followed by one of xor 2 / maj 3 / lift 2 / ite / flip / shuffle / one 2
    return untraced(_one, 8 * pick(hi, 0, 36) + pick(lo, 0, 7), pickb(named), 29, SECOND[pick(t2, 0, 6)], pickb(two))


def h_q_tr_29(hi: int, named: bool, t2: int, two: bool) -> bool:
    """
    pre: 0 <= hi <= 36 and 0 <= t2 <= 6
    post: _
    """
    # first transformation: {'t': 'exact', 'k': 1, 'K': 2} ; optionally followed by one of xor 2 / maj 3 / lift 2 / ite / flip / shuffle / one 2
    return untraced(_one, 8 * pick(hi, 0, 36) + 5, pickb(named), 29, SECOND[pick(t2, 0, 6)], pickb(two))


def h_e_tr_30(hi: int, lo: int, named: bool, t2: int, two: bool) -> bool:
    """
    pre: 0 <= hi <= 36 and 0 <= lo <= 7 and 0 <= t2 <= 6
    post: _
    """
    # first transformation: {'t': 'atleast', 'k': 1, 'K': 2} ; optionally followed by one of xor 2 / maj 3 / lift 2 / ite / flip / shuffle / one 2
    return untraced(_one, 8 * pick(hi, 0, 36) + pick(lo, 0, 7), pickb(named), 30, SECOND[pick(t2, 0, 6)], pickb(two))


def h_q_tr_30(hi: int, named: bool, t2: int, two: bool) -> bool:
    """
    pre: 0 <= hi <= 36 and 0 <= t2 <= 6
    post: _
    """
    # first transformation: {'t': 'atleast', 'k': 1, 'K': 2} ; optionally followed by one of xor 2 / maj 3 / lift 2 / ite / flip / shuffle / one 2
    return untraced(_one, 8 * pick(hi, 0, 36) + 6, pickb(named), 30, SECOND[pick(t2, 0, 6)], pickb(two))


def h_e_tr_31(hi: int, lo: int, named: bool, t2: int, two: bool) -> bool:
    """
    pre: 0 <= hi <= 36 and 0 <= lo <= 7 and 0 <= t2 <= 6
    post: _
    """
    # first transformation: {'t': 'atmost', 'k': 1, 'K': 2} ; optionally followed by one of xor 2 / maj 3 / lift 2 / ite / flip / shuffle / one 2
    return untraced(_one, 8 * pick(hi, 0, 36) + pick(lo, 0, 7), pickb(named), 31, SECOND[pick(t2, 0, 6)], pickb(two))


def h_q_tr_31(hi: int, named: bool, t2: int, two: bool) -> bool:
    """
    pre: 0 <= hi <= 36 and 0 <= t2 <= 6
    post: _
    """
    # first transformation: {'t': 'atmost', 'k': 1, 'K': 2} ; optionally followed by one of xor 2 / maj 3 / lift 2 / ite / flip / shuffle / one 2
    return untraced(_one, 8 * pick(hi, 0, 36) + 7, pickb(named), 31, SECOND[pick(t2, 0, 6)], pickb(two))


def h_e_tr_32(hi: int, lo: int, named: bool, t2: int, two: bool) -> bool:
    """
    pre: 0 <= hi <= 36 and 0 <= lo <= 7 and 0 <= t2 <= 6
    post: _
    """
    # first transformation: {'t': 'anybut', 'k': 1, 'K': 2} ; optionally followed by one of xor 2 / maj 3 / lift 2 / ite / flip / shuffle / one 2
    return untraced(_one, 8 * pick(hi, 0, 36) + pick(lo, 0, 7), pickb(named), 32, SECOND[pick(t2, 0, 6)], pickb(two))


def h_q_tr_32(hi: int, named: bool, t2: int, two: bool) -> bool:
    """
    pre: 0 <= hi <= 36 and 0 <= t2 <= 6
    post: _
    """
    # first transformation: {'t': 'anybut', 'k': 1, 'K': 2} ; optionally followed by one of xor 2 / maj 3 / lift 2 / ite / flip / shuffle / one 2
    return untraced(_one, 8 * pick(hi, 0, 36) + 0, pickb(named), 32, SECOND[pick(t2, 0, 6)], pickb(two))


def h_e_tr_33(hi: int, lo: int, named: bool, t2: int, two: bool) -> bool:
    """
    pre: 0 <= hi <= 36 and 0 <= lo <= 7 and 0 <= t2 <= 6
    post: _
    """
    # first transformation: {'t': 'exact', 'k': 2, 'K': 0} ; optionally followed by one of xor 2 / maj 3 / lift 2 / ite / flip / shuffle / one 2
    return untraced(_one, 8 * pick(hi, 0, 36) + pick(lo, 0, 7), pickb(named), 33, SECOND[pick(t2, 0, 6)], pickb(two))


def h_q_tr_33(hi: int, named: bool, t2: int, two: bool) -> bool:
    """
    pre: 0 <= hi <= 36 and 0 <= t2 <= 6
    post: _
    """
    # first transformation: {'t': 'exact', 'k': 2, 'K': 0} ; optionally followed by one of xor 2 / maj 3 / lift 2 / ite / flip / shuffle / one 2
    return untraced(_one, 8 * pick(hi, 0, 36) + 1, pickb(named), 33, SECOND[pick(t2, 0, 6)], pickb(two))


def h_e_tr_34(hi: int, lo: int, named: bool, t2: int, two: bool) -> bool:
    """
    pre: 0 <= hi <= 36 and 0 <= lo <= 7 and 0 <= t2 <= 6
    post: _
    """
    # first transformation: {'t': 'atleast', 'k': 2, 'K': 0} ; optionally followed by one of xor 2 / maj 3 / lift 2 / ite / flip / shuffle / one 2
    return untraced(_one, 8 * pick(hi, 0, 36) + pick(lo, 0, 7), pickb(named), 34, SECOND[pick(t2, 0, 6)], pickb(two))


def h_q_tr_34(hi: int, named: bool, t2: int, two: bool) -> bool:
    """
    pre: 0 <= hi <= 36 and 0 <= t2 <= 6
    post: _
    """
    # first transformation: {'t': 'atleast', 'k': 2, 'K': 0} ; optionally followed by one of xor 2 / maj 3 / lift 2 / ite / flip / shuffle / one 2
    return untraced(_one, 8 * pick(hi, 0, 36) + 2, pickb(named), 34, SECOND[pick(t2, 0, 6)], pickb(two))


def h_e_tr_35(hi: int, lo: int, named: bool, t2: int, two: bool) -> bool:
    """
    pre: 0 <= hi <= 36 and 0 <= lo <= 7 and 0 <= t2 <= 6
    post: _
    """
    # first transformation: {'t': 'atmost', 'k': 2, 'K': 0} ; optionally followed by one of xor 2 / maj 3 / lift 2 / ite / flip / shuffle / one 2
    return untraced(_one, 8 * pick(hi, 0, 36) + pick(lo, 0, 7), pickb(named), 35, SECOND[pick(t2, 0, 6)], pickb(two))


def h_q_tr_35(hi: int, named: bool, t2: int, two: bool) -> bool:
    """
    pre: 0 <= hi <= 36 and 0 <= t2 <= 6
    post: _
    """
    # first transformation: {'t': 'atmost', 'k': 2, 'K': 0} ; optionally followed by one of xor 2 / maj 3 / lift 2 / ite / flip / shuffle / one 2
    return untraced(_one, 8 * pick(hi, 0, 36) + 3, pickb(named), 35, SECOND[pick(t2, 0, 6)], pickb(two))


def h_e_tr_36(hi: int, lo: int, named: bool, t2: int, two: bool) -> bool:
    """
    pre: 0 <= hi <= 36 and 0 <= lo <= 7 and 0 <= t2 <= 6
    post: _
    """
    # first transformation: {'t': 'anybut', 'k': 2, 'K': 0} ; optionally followed by one of xor 2 / maj 3 / lift 2 / ite / flip / shuffle / one 2
    return untraced(_one, 8 * pick(hi, 0, 36) + pick(lo, 0, 7), pickb(named), 36, SECOND[pick(t2, 0, 6)], pickb(two))


def h_q_tr_36(hi: int, named: bool, t2: int, two: bool) -> bool:
    """
    pre: 0 <= hi <= 36 and 0 <= t2 <= 6
    post: _
    """
    # first transformation: {'t': 'anybut', 'k': 2, 'K': 0} ; optionally followed by one of xor 2 / maj 3 / lift 2 / ite / flip / shuffle / one 2
    return untraced(_one, 8 * pick(hi, 0, 36) + 4, pickb(named), 36, SECOND[pick(t2, 0, 6)], pickb(two))


def h_e_tr_37(hi: int, lo: int, named: bool, t2: int, two: bool) -> bool:
    """
    pre: 0 <= hi <= 36 and 0 <= lo <= 7 and 0 <= t2 <= 6
    post: _
    """
    # first transformation: {'t': 'exact', 'k': 2, 'K': 1} ; optionally followed by one of xor 2 / maj 3 / lift 2 / ite / flip / shuffle / one 2
    return untraced(_one, 8 * pick(hi, 0, 36) + pick(lo, 0, 7), pickb(named), 37, SECOND[pick(t2, 0, 6)], pickb(two))


def h_q_tr_37(hi: int, named: bool, t2: int, two: bool) -> bool:
    """
    pre: 0 <= hi <= 36 and 0 <= t2 <= 6
    post: _
    """
    # first transformation: {'t': 'exact', 'k': 2, 'K': 1} ; optionally followed by one of xor 2 / maj 3 / lift 2 / ite / flip / shuffle / one 2
    return untraced(_one, 8 * pick(hi, 0, 36) + 5, pickb(named), 37, SECOND[pick(t2, 0, 6)], pickb(two))


def h_e_tr_38(hi: int, lo: int, named: bool, t2: int, two: bool) -> bool:
    """
    pre: 0 <= hi <= 36 and 0 <= lo <= 7 and 0 <= t2 <= 6
    post: _
    """
    # first transformation: {'t': 'atleast', 'k': 2, 'K': 1} ; optionally followed by one of xor 2 / maj 3 / lift 2 / ite / flip / shuffle / one 2
    return untraced(_one, 8 * pick(hi, 0, 36) + pick(lo, 0, 7), pickb(named), 38, SECOND[pick(t2, 0, 6)], pickb(two))


def h_q_tr_38(hi: int, named: bool, t2: int, two: bool) -> bool:
    """
    pre: 0 <= hi <= 36 and 0 <= t2 <= 6
    post: _
    """
    # first transformation: {'t': 'atleast', 'k': 2, 'K': 1} ; optionally followed by one of xor 2 / maj 3 / lift 2 / ite / flip / shuffle / one 2
    return untraced(_one, 8 * pick(hi, 0, 36) + 6, pickb(named), 38, SECOND[pick(t2, 0, 6)], pickb(two))


def h_e_tr_39(hi: int, lo: int, named: bool, t2: int, two: bool) -> bool:
    """
    pre: 0 <= hi <= 36 and 0 <= lo <= 7 and 0 <= t2 <= 6
    post: _
    """
    # first transformation: {'t': 'atmost', 'k': 2, 'K': 1} ; optionally followed by one of xor 2 / maj 3 / lift 2 / ite / flip / shuffle / one 2
    return untraced(_one, 8 * pick(hi, 0, 36) + pick(lo, 0, 7), pickb(named), 39, SECOND[pick(t2, 0, 6)], pickb(two))


def h_q_tr_39(hi: int, named: bool, t2: int, two: bool) -> bool:
    """
    pre: 0 <= hi <= 36 and 0 <= t2 <= 6
    post: _
    """
    # first transformation: {'t': 'atmost', 'k': 2, 'K': 1} ; optionally followed by one of xor 2 / maj 3 / lift 2 / ite / flip / shuffle / one 2
    return untraced(_one, 8 * pick(hi, 0, 36) + 7, pickb(named), 39, SECOND[pick(t2, 0, 6)], pickb(two))


def h_e_tr_40(hi: int, lo: int, named: bool, t2: int, two: bool) -> bool:
    """
    pre: 0 <= hi <= 36 and 0 <= lo <= 7 and 0 <= t2 <= 6
    post: _
    """
    # first transformation: {'t': 'anybut', 'k': 2, 'K': 1} ; optionally followed by one of xor 2 / maj 3 / lift 2 / ite / flip / shuffle / one 2
    return untraced(_one, 8 * pick(hi, 0, 36) + pick(lo, 0, 7), pickb(named), 40, SECOND[pick(t2, 0, 6)], pickb(two))


def h_q_tr_40(hi: int, named: bool, t2: int, two: bool) -> bool:
    """
    pre: 0 <= hi <= 36 and 0 <= t2 <= 6
    post: _
    """
    # first transformation: {'t': 'anybut', 'k': 2, 'K': 1} ; optionally followed by one of xor 2 / maj 3 / lift 2 / ite / flip / shuffle / one 2
    return untraced(_one, 8 * pick(hi, 0, 36) + 0, pickb(named), 40, SECOND[pick(t2, 0, 6)], pickb(two))


def h_e_tr_41(hi: int, lo: int, named: bool, t2: int, two: bool) -> bool:
    """
    pre: 0 <= hi <= 36 and 0 <= lo <= 7 and 0 <= t2 <= 6
    post: _
    """
    # first transformation: {'t': 'exact', 'k': 2, 'K': 2} ; optionally followed by one of xor 2 / maj 3 / lift 2 / ite / flip / shuffle / one 2
    return untraced(_one, 8 * pick(hi, 0, 36) + pick(lo, 0, 7), pickb(named), 41, SECOND[pick(t2, 0, 6)], pickb(two))


def h_q_tr_41(hi: int, named: bool, t2: int, two: bool) -> bool:
    """
    pre: 0 <= hi <= 36 and 0 <= t2 <= 6
    post: _
    """
    # first transformation: {'t': 'exact', 'k': 2, 'K': 2} ; optionally followed by one of xor 2 / maj 3 / lift 2 / ite / flip / shuffle / one 2
    return untraced(_one, 8 * pick(hi, 0, 36) + 1, pickb(named), 41, SECOND[pick(t2, 0, 6)], pickb(two))


def h_e_tr_42(hi: int, lo: int, named: bool, t2: int, two: bool) -> bool:
    """
    pre: 0 <= hi <= 36 and 0 <= lo <= 7 and 0 <= t2 <= 6
    post: _
    """
    # first transformation: {'t': 'atleast', 'k': 2, 'K': 2} ; optionally followed by one of xor 2 / maj 3 / lift 2 / ite / flip / shuffle / one 2
    return untraced(_one, 8 * pick(hi, 0, 36) + pick(lo, 0, 7), pickb(named), 42, SECOND[pick(t2, 0, 6)], pickb(two))


def h_q_tr_42(hi: int, named: bool, t2: int, two: bool) -> bool:
    """
    pre: 0 <= hi <= 36 and 0 <= t2 <= 6
    post: _
    """
    # first transformation: {'t': 'atleast', 'k': 2, 'K': 2} ; optionally followed by one of xor 2 / maj 3 / lift 2 / ite / flip / shuffle / one 2
    return untraced(_one, 8 * pick(hi, 0, 36) + 2, pickb(named), 42, SECOND[pick(t2, 0, 6)], pickb(two))


def h_e_tr_43(hi: int, lo: int, named: bool, t2: int, two: bool) -> bool:
    """
    pre: 0 <= hi <= 36 and 0 <= lo <= 7 and 0 <= t2 <= 6
    post: _
    """
    # first transformation: {'t': 'atmost', 'k': 2, 'K': 2} ; optionally followed by one of xor 2 / maj 3 / lift 2 / ite / flip / shuffle / one 2
    return untraced(_one, 8 * pick(hi, 0, 36) + pick(lo, 0, 7), pickb(named), 43, SECOND[pick(t2, 0, 6)], pickb(two))


def h_q_tr_43(hi: int, named: bool, t2: int, two: bool) -> bool:
    """
    pre: 0 <= hi <= 36 and 0 <= t2 <= 6
    post: _
    """
    # first transformation: {'t': 'atmost', 'k': 2, 'K': 2} ; optionally followed by one of xor 2 / maj 3 / lift 2 / ite / flip / shuffle / one 2
    return untraced(_one, 8 * pick(hi, 0, 36) + 3, pickb(named), 43, SECOND[pick(t2, 0, 6)], pickb(two))


def h_e_tr_44(hi: int, lo: int, named: bool, t2: int, two: bool) -> bool:
    """
    pre: 0 <= hi <= 36 and 0 <= lo <= 7 and 0 <= t2 <= 6
    post: _
    """
    # first transformation: {'t': 'anybut', 'k': 2, 'K': 2} ; optionally followed by one of xor 2 / maj 3 / lift 2 / ite / flip / shuffle / one 2
    return untraced(_one, 8 * pick(hi, 0, 36) + pick(lo, 0, 7), pickb(named), 44, SECOND[pick(t2, 0, 6)], pickb(two))


def h_q_tr_44(hi: int, named: bool, t2: int, two: bool) -> bool:
    """
    pre: 0 <= hi <= 36 and 0 <= t2 <= 6
    post: _
    """
    # first transformation: {'t': 'anybut', 'k': 2, 'K': 2} ; optionally followed by one of xor 2 / maj 3 / lift 2 / ite / flip / shuffle / one 2
    return untraced(_one, 8 * pick(hi, 0, 36) + 4, pickb(named), 44, SECOND[pick(t2, 0, 6)], pickb(two))


def h_e_tr_45(hi: int, lo: int, named: bool, t2: int, two: bool) -> bool:
    """
    pre: 0 <= hi <= 36 and 0 <= lo <= 7 and 0 <= t2 <= 6
    post: _
    """
    # first transformation: {'t': 'exact', 'k': 3, 'K': 0} ; optionally followed by one of xor 2 / maj 3 / lift 2 / ite / flip / shuffle / one 2
    return untraced(_one, 8 * pick(hi, 0, 36) + pick(lo, 0, 7), pickb(named), 45, SECOND[pick(t2, 0, 6)], pickb(two))


def h_q_tr_45(hi: int, named: bool, t2: int, two: bool) -> bool:
    """
    pre: 0 <= hi <= 36 and 0 <= t2 <= 6
    post: _
    """
    # first transformation: {'t': 'exact', 'k': 3, 'K': 0} ; optionally followed by one of xor 2 / maj 3 / lift 2 / ite / flip / shuffle / one 2
    return untraced(_one, 8 * pick(hi, 0, 36) + 5, pickb(named), 45, SECOND[pick(t2, 0, 6)], pickb(two))


def h_e_tr_46(hi: int, lo: int, named: bool, t2: int, two: bool) -> bool:
    """
    pre: 0 <= hi <= 36 and 0 <= lo <= 7 and 0 <= t2 <= 6
    post: _
    """
    # first transformation: {'t': 'atleast', 'k': 3, 'K': 0} ; optionally followed by one of xor 2 / maj 3 / lift 2 / ite / flip / shuffle / one 2
    return untraced(_one, 8 * pick(hi, 0, 36) + pick(lo, 0, 7), pickb(named), 46, SECOND[pick(t2, 0, 6)], pickb(two))


def h_q_tr_46(hi: int, named: bool, t2: int, two: bool) -> bool:
    """
    pre: 0 <= hi <= 36 and 0 <= t2 <= 6
    post: _
    """
    # first transformation: {'t': 'atleast', 'k': 3, 'K': 0} ; optionally followed by one of xor 2 / maj 3 / lift 2 / ite / flip / shuffle / one 2
    return untraced(_one, 8 * pick(hi, 0, 36) + 6, pickb(named), 46, SECOND[pick(t2, 0, 6)], pickb(two))


def h_e_tr_47(hi: int, lo: int, named: bool, t2: int, two: bool) -> bool:
    """
    pre: 0 <= hi <= 36 and 0 <= lo <= 7 and 0 <= t2 <= 6
    post: _
    """
    # first transformation: {'t': 'atmost', 'k': 3, 'K': 0} ; optionally followed by one of xor 2 / maj 3 / lift 2 / ite / flip / shuffle / one 2
    return untraced(_one, 8 * pick(hi, 0, 36) + pick(lo, 0, 7), pickb(named), 47, SECOND[pick(t2, 0, 6)], pickb(two))


def h_q_tr_47(hi: int, named: bool, t2: int, two: bool) -> bool:
    """
    pre: 0 <= hi <= 36 and 0 <= t2 <= 6
    post: _
    """
    # first transformation: {'t': 'atmost', 'k': 3, 'K': 0} ; optionally followed by one of xor 2 / maj 3 / lift 2 / ite / flip / shuffle / one 2
    return untraced(_one, 8 * pick(hi, 0, 36) + 7, pickb(named), 47, SECOND[pick(t2, 0, 6)], pickb(two))


def h_e_tr_48(hi: int, lo: int, named: bool, t2: int, two: bool) -> bool:
    """
    pre: 0 <= hi <= 36 and 0 <= lo <= 7 and 0 <= t2 <= 6
    post: _
    """
    # first transformation: {'t': 'anybut', 'k': 3, 'K': 0} ; optionally followed by one of xor 2 / maj 3 / lift 2 / ite / flip / shuffle / one 2
    return untraced(_one, 8 * pick(hi, 0, 36) + pick(lo, 0, 7), pickb(named), 48, SECOND[pick(t2, 0, 6)], pickb(two))


def h_q_tr_48(hi: int, named: bool, t2: int, two: bool) -> bool:
    """
    pre: 0 <= hi <= 36 and 0 <= t2 <= 6
    post: _
    """
    # first transformation: {'t': 'anybut', 'k': 3, 'K': 0} ; optionally followed by one of xor 2 / maj 3 / lift 2 / ite / flip / shuffle / one 2
    return untraced(_one, 8 * pick(hi, 0, 36) + 0, pickb(named), 48, SECOND[pick(t2, 0, 6)], pickb(two))


def h_e_tr_49(hi: int, lo: int, named: bool, t2: int, two: bool) -> bool:
    """
    pre: 0 <= hi <= 36 and 0 <= lo <= 7 and 0 <= t2 <= 6
    post: _
    """
    # first transformation: {'t': 'exact', 'k': 3, 'K': 1} ; optionally followed by one of xor 2 / maj 3 / lift 2 / ite / flip / shuffle / one 2
    return untraced(_one, 8 * pick(hi, 0, 36) + pick(lo, 0, 7), pickb(named), 49, SECOND[pick(t2, 0, 6)], pickb(two))


def h_q_tr_49(hi: int, named: bool, t2: int, two: bool) -> bool:
    """
    pre: 0 <= hi <= 36 and 0 <= t2 <= 6
    post: _
    """
    # first transformation: {'t': 'exact', 'k': 3, 'K': 1} ; optionally followed by one of xor 2 / maj 3 / lift 2 / ite / flip / shuffle / one 2
    return untraced(_one, 8 * pick(hi, 0, 36) + 1, pickb(named), 49, SECOND[pick(t2, 0, 6)], pickb(two))


def h_e_tr_50(hi: int, lo: int, named: bool, t2: int, two: bool) -> bool:
    """
    pre: 0 <= hi <= 36 and 0 <= lo <= 7 and 0 <= t2 <= 6
    post: _
    """
    # first transformation: {'t': 'atleast', 'k': 3, 'K': 1} ; optionally followed by one of xor 2 / maj 3 / lift 2 / ite / flip / shuffle / one 2
    return untraced(_one, 8 * pick(hi, 0, 36) + pick(lo, 0, 7), pickb(named), 50, SECOND[pick(t2, 0, 6)], pickb(two))


def h_q_tr_50(hi: int, named: bool, t2: int, two: bool) -> bool:
    """
    pre: 0 <= hi <= 36 and 0 <= t2 <= 6
    post: _
    """
    # first transformation: {'t': 'atleast', 'k': 3, 'K': 1} ; optionally followed by one of xor 2 / maj 3 / lift 2 / ite / flip / shuffle / one 2
    return untraced(_one, 8 * pick(hi, 0, 36) + 2, pickb(named), 50, SECOND[pick(t2, 0, 6)], pickb(two))


def h_e_tr_51(hi: int, lo: int, named: bool, t2: int, two: bool) -> bool:
    """
    pre: 0 <= hi <= 36 and 0 <= lo <= 7 and 0 <= t2 <= 6
    post: _
    """
    # first transformation: {'t': 'atmost', 'k': 3, 'K': 1} ; optionally followed by one of xor 2 / maj 3 / lift 2 / ite / flip / shuffle / one 2
    return untraced(_one, 8 * pick(hi, 0, 36) + pick(lo, 0, 7), pickb(named), 51, SECOND[pick(t2, 0, 6)], pickb(two))


def h_q_tr_51(hi: int, named: bool, t2: int, two: bool) -> bool:
    """
    pre: 0 <= hi <= 36 and 0 <= t2 <= 6
    post: _
    """
    # first transformation: {'t': 'atmost', 'k': 3, 'K': 1} ; optionally followed by one of xor 2 / maj 3 / lift 2 / ite / flip / shuffle / one 2
    return untraced(_one, 8 * pick(hi, 0, 36) + 3, pickb(named), 51, SECOND[pick(t2, 0, 6)], pickb(two))


def h_e_tr_52(hi: int, lo: int, named: bool, t2: int, two: bool) -> bool:
    """
    pre: 0 <= hi <= 36 and 0 <= lo <= 7 and 0 <= t2 <= 6
    post: _
    """
    # first transformation: {'t': 'anybut', 'k': 3, 'K': 1} ; optionally followed by one of xor 2 / maj 3 / lift 2 / ite / flip / shuffle / one 2
    return untraced(_one, 8 * pick(hi, 0, 36) + pick(lo, 0, 7), pickb(named), 52, SECOND[pick(t2, 0, 6)], pickb(two))


def h_q_tr_52(hi: int, named: bool, t2: int, two: bool) -> bool:
    """
    pre: 0 <= hi <= 36 and 0 <= t2 <= 6
    post: _
    """
    # first transformation: {'t': 'anybut', 'k': 3, 'K': 1} ; optionally followed by one of xor 2 / maj 3 / lift 2 / ite / flip / shuffle / one 2
    return untraced(_one, 8 * pick(hi, 0, 36) + 4, pickb(named), 52, SECOND[pick(t2, 0, 6)], pickb(two))


def h_e_tr_53(hi: int, lo: int, named: bool, t2: int, two: bool) -> bool:
    """
    pre: 0 <= hi <= 36 and 0 <= lo <= 7 and 0 <= t2 <= 6
    post: _
    """
    # first transformation: {'t': 'exact', 'k': 3, 'K': 2} ; optionally followed by one of xor 2 / maj 3 / lift 2 / ite / flip / shuffle / one 2
    return untraced(_one, 8 * pick(hi, 0, 36) + pick(lo, 0, 7), pickb(named), 53, SECOND[pick(t2, 0, 6)], pickb(two))


def h_q_tr_53(hi: int, named: bool, t2: int, two: bool) -> bool:
    """
    pre: 0 <= hi <= 36 and 0 <= t2 <= 6
    post: _
    """
    # first transformation: {'t': 'exact', 'k': 3, 'K': 2} ; optionally followed by one of xor 2 / maj 3 / lift 2 / ite / flip / shuffle / one 2
    return untraced(_one, 8 * pick(hi, 0, 36) + 5, pickb(named), 53, SECOND[pick(t2, 0, 6)], pickb(two))


def h_e_tr_54(hi: int, lo: int, named: bool, t2: int, two: bool) -> bool:
    """
    pre: 0 <= hi <= 36 and 0 <= lo <= 7 and 0 <= t2 <= 6
    post: _
    """
    # first transformation: {'t': 'atleast', 'k': 3, 'K': 2} ; optionally followed by one of xor 2 / maj 3 / lift 2 / ite / flip / shuffle / one 2
    return untraced(_one, 8 * pick(hi, 0, 36) + pick(lo, 0, 7), pickb(named), 54, SECOND[pick(t2, 0, 6)], pickb(two))


def h_q_tr_54(hi: int, named: bool, t2: int, two: bool) -> bool:
    """
    pre: 0 <= hi <= 36 and 0 <= t2 <= 6
    post: _
    """
    # first transformation: {'t': 'atleast', 'k': 3, 'K': 2} ; optionally followed by one of xor 2 / maj 3 / lift 2 / ite / flip / shuffle / one 2
    return untraced(_one, 8 * pick(hi, 0, 36) + 6, pickb(named), 54, SECOND[pick(t2, 0, 6)], pickb(two))


def h_e_tr_55(hi: int, lo: int, named: bool, t2: int, two: bool) -> bool:
    """
    pre: 0 <= hi <= 36 and 0 <= lo <= 7 and 0 <= t2 <= 6
    post: _
    """
    # first transformation: {'t': 'atmost', 'k': 3, 'K': 2} ; optionally followed by one of xor 2 / maj 3 / lift 2 / ite / flip / shuffle / one 2
    return untraced(_one, 8 * pick(hi, 0, 36) + pick(lo, 0, 7), pickb(named), 55, SECOND[pick(t2, 0, 6)], pickb(two))


def h_q_tr_55(hi: int, named: bool, t2: int, two: bool) -> bool:
    """
    pre: 0 <= hi <= 36 and 0 <= t2 <= 6
    post: _
    """
    # first transformation: {'t': 'atmost', 'k': 3, 'K': 2} ; optionally followed by one of xor 2 / maj 3 / lift 2 / ite / flip / shuffle / one 2
    return untraced(_one, 8 * pick(hi, 0, 36) + 7, pickb(named), 55, SECOND[pick(t2, 0, 6)], pickb(two))


def h_e_tr_56(hi: int, lo: int, named: bool, t2: int, two: bool) -> bool:
    """
    pre: 0 <= hi <= 36 and 0 <= lo <= 7 and 0 <= t2 <= 6
    post: _
    """
    # first transformation: {'t': 'anybut', 'k': 3, 'K': 2} ; optionally followed by one of xor 2 / maj 3 / lift 2 / ite / flip / shuffle / one 2
    return untraced(_one, 8 * pick(hi, 0, 36) + pick(lo, 0, 7), pickb(named), 56, SECOND[pick(t2, 0, 6)], pickb(two))


def h_q_tr_56(hi: int, named: bool, t2: int, two: bool) -> bool:
    """
    pre: 0 <= hi <= 36 and 0 <= t2 <= 6
    post: _
    """
    # first transformation: {'t': 'anybut', 'k': 3, 'K': 2} ; optionally followed by one of xor 2 / maj 3 / lift 2 / ite / flip / shuffle / one 2
    return untraced(_one, 8 * pick(hi, 0, 36) + 0, pickb(named), 56, SECOND[pick(t2, 0, 6)], pickb(two))


def h_e_tr_57(hi: int, lo: int, named: bool, t2: int, two: bool) -> bool:
    """
    pre: 0 <= hi <= 36 and 0 <= lo <= 7 and 0 <= t2 <= 6
    post: _
    """
    # first transformation: {'t': 'ite'} ; optionally followed by one of xor 2 / maj 3 / lift 2 / ite / flip / shuffle / one 2
    return untraced(_one, 8 * pick(hi, 0, 36) + pick(lo, 0, 7), pickb(named), 57, SECOND[pick(t2, 0, 6)], pickb(two))


def h_q_tr_57(hi: int, named: bool, t2: int, two: bool) -> bool:
    """
    pre: 0 <= hi <= 36 and 0 <= t2 <= 6
    post: _
    """
    # first transformation: {'t': 'ite'} ; optionally followed by one of xor 2 / maj 3 / lift 2 / ite / flip / shuffle / one 2
    return untraced(_one, 8 * pick(hi, 0, 36) + 1, pickb(named), 57, SECOND[pick(t2, 0, 6)], pickb(two))


def h_e_tr_58(hi: int, lo: int, named: bool, t2: int, two: bool) -> bool:
    """
    pre: 0 <= hi <= 36 and 0 <= lo <= 7 and 0 <= t2 <= 6
    post: _
    """
    # first transformation: {'t': 'flip'} ; optionally followed by one of xor 2 / maj 3 / lift 2 / ite / flip / shuffle / one 2
    return untraced(_one, 8 * pick(hi, 0, 36) + pick(lo, 0, 7), pickb(named), 58, SECOND[pick(t2, 0, 6)], pickb(two))


def h_q_tr_58(hi: int, named: bool, t2: int, two: bool) -> bool:
    """
    pre: 0 <= hi <= 36 and 0 <= t2 <= 6
    post: _
    """
    # first transformation: {'t': 'flip'} ; optionally followed by one of xor 2 / maj 3 / lift 2 / ite / flip / shuffle / one 2
    return untraced(_one, 8 * pick(hi, 0, 36) + 2, pickb(named), 58, SECOND[pick(t2, 0, 6)], pickb(two))


def h_e_tr_59(hi: int, lo: int, named: bool, t2: int, two: bool) -> bool:
    """
    pre: 0 <= hi <= 36 and 0 <= lo <= 7 and 0 <= t2 <= 6
    post: _
    """
    # first transformation: {'t': 'shuffle'} ; optionally followed by one of xor 2 / maj 3 / lift 2 / ite / flip / shuffle / one 2
    return untraced(_one, 8 * pick(hi, 0, 36) + pick(lo, 0, 7), pickb(named), 59, SECOND[pick(t2, 0, 6)], pickb(two))


def h_q_tr_59(hi: int, named: bool, t2: int, two: bool) -> bool:
    """
    pre: 0 <= hi <= 36 and 0 <= t2 <= 6
    post: _
    """
    # first transformation: {'t': 'shuffle'} ; optionally followed by one of xor 2 / maj 3 / lift 2 / ite / flip / shuffle / one 2
    return untraced(_one, 8 * pick(hi, 0, 36) + 3, pickb(named), 59, SECOND[pick(t2, 0, 6)], pickb(two))


def h_e_tr_60(hi: int, lo: int, named: bool, t2: int, two: bool) -> bool:
    """
    pre: 0 <= hi <= 36 and 0 <= lo <= 7 and 0 <= t2 <= 6
    post: _
    """
    # first transformation: {'t': 'xorcomp'} ; optionally followed by one of xor 2 / maj 3 / lift 2 / ite / flip / shuffle / one 2
    return untraced(_one, 8 * pick(hi, 0, 36) + pick(lo, 0, 7), pickb(named), 60, SECOND[pick(t2, 0, 6)], pickb(two))


def h_q_tr_60(hi: int, named: bool, t2: int, two: bool) -> bool:
    """
    pre: 0 <= hi <= 36 and 0 <= t2 <= 6
    post: _
    """
    # first transformation: {'t': 'xorcomp'} ; optionally followed by one of xor 2 / maj 3 / lift 2 / ite / flip / shuffle / one 2
    return untraced(_one, 8 * pick(hi, 0, 36) + 4, pickb(named), 60, SECOND[pick(t2, 0, 6)], pickb(two))


def h_e_tr_61(hi: int, lo: int, named: bool, t2: int, two: bool) -> bool:
    """
    pre: 0 <= hi <= 36 and 0 <= lo <= 7 and 0 <= t2 <= 6
    post: _
    """
    # first transformation: {'t': 'majcomp'} ; optionally followed by one of xor 2 / maj 3 / lift 2 / ite / flip / shuffle / one 2
    return untraced(_one, 8 * pick(hi, 0, 36) + pick(lo, 0, 7), pickb(named), 61, SECOND[pick(t2, 0, 6)], pickb(two))


def h_q_tr_61(hi: int, named: bool, t2: int, two: bool) -> bool:
    """
    pre: 0 <= hi <= 36 and 0 <= t2 <= 6
    post: _
    """
    # first transformation: {'t': 'majcomp'} ; optionally followed by one of xor 2 / maj 3 / lift 2 / ite / flip / shuffle / one 2
    return untraced(_one, 8 * pick(hi, 0, 36) + 5, pickb(named), 61, SECOND[pick(t2, 0, 6)], pickb(two))
