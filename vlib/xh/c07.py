"""CrossHair harnesses for C07: output is a function of the command line and the seed only.

Non-interference by self-composition: the same command line is run twice, each time in an environment whose
sources of nondeterminism are solver-chosen:
  * randomness: until random.seed(x) is called every draw (module functions and the shared instance used by
    networkx) returns an arbitrary value of its contract - fresh symbolic values, different in the two runs;
    after random.seed(x) the draws come from a private random.Random(x), identical in both runs;
  * object identity: the default repr of the cnfgen graph classes returns a text with a fresh symbolic token.
Correct code never draws before seeding and never prints a default repr, so both runs are concrete and equal
(a single path); any leak makes the outputs differ for some solver-chosen values.  The two complete outputs
(header included) must be identical.
"""
import contextlib
import io
import random as _random

from vlib.xh.xutil import pick, pickb, untraced, Tape, FakeRandom, TapeExhausted
import cnfgen.clitools.cnfgen  # noqa: imported here so that module initialisation (git describe) happens before the analysis
import cnfgen.clitools.pbgen  # noqa
import cnfgen.clitools.cnfshuffle  # noqa
import cnfgen.families.randomformulas  # noqa
import cnfgen.families.randomkxor  # noqa
import networkx  # noqa

_Random = _random.Random
_METHODS = ['seed', 'random', 'randint', 'randrange', 'choice', 'sample', 'shuffle', 'getrandbits', 'uniform', 'choices']


POST_STREAMS = {'zeros': lambda i: 0, 'big': lambda i: 10 ** 6 - 1, 'alt': lambda i: (i // 3) % 2, 'count': lambda i: i // 2,
                'mix': lambda i: (i * 7 + 3) % 5}


class StreamRandom(FakeRandom):
    """a seeded generator other than the Mersenne Twister: the draws after seed(x) are SOME deterministic stream (the
    contract of `random` promises no more); repeated and slowly varying draws reach the rejection/fallback code paths"""
    def __init__(self, name):
        FakeRandom.__init__(self, Tape(concrete=POST_STREAMS[name], limit=20000), floats=(0.0, 0.3, 0.9))

    def uniform(self, a, b):
        return a + (b - a) * self.random()

    def choices(self, population, weights=None, cum_weights=None, k=1):
        return [self.choice(population) for _ in range(k)]


class TwoPhaseRandom(FakeRandom):
    def __init__(self, tape, post=None):
        FakeRandom.__init__(self, tape, floats=(0.0, 0.3, 0.9))
        self.real = None
        self.post = post

    def seed(self, x=None):
        if x is None:
            self.real = None
        elif self.post is not None:
            self.real = StreamRandom(self.post)
        else:
            self.real = _Random(x)

    def _d(self, name, *a):
        if self.real is not None:
            return getattr(self.real, name)(*a)
        return getattr(FakeRandom, name)(self, *a)

    def random(self):
        return self._d('random')

    def randint(self, a, b):
        return self._d('randint', a, b)

    def randrange(self, a, b=None):
        if self.real is not None:
            return self.real.randrange(a) if b is None else self.real.randrange(a, b)
        return FakeRandom.randrange(self, a, b)

    def choice(self, seq):
        return self._d('choice', seq)

    def sample(self, population, k):
        return self._d('sample', population, k)

    def shuffle(self, lst):
        return self._d('shuffle', lst)

    def getrandbits(self, k):
        return self._d('getrandbits', k)

    def uniform(self, a, b):
        if self.real is not None:
            return self.real.uniform(a, b)
        return a + (b - a) * FakeRandom.random(self)

    def choices(self, population, weights=None, cum_weights=None, k=1):
        if self.real is not None:
            return self.real.choices(population, weights, cum_weights=cum_weights, k=k)
        return [FakeRandom.choice(self, population) for _ in range(k)]


@contextlib.contextmanager
def environment(tape, post=None):
    import cnfgen.graphs as G
    fake = TwoPhaseRandom(tape, post)
    saved = {m: getattr(_random, m) for m in _METHODS}
    saved_inst = _random._inst
    for m in _METHODS:
        setattr(_random, m, getattr(fake, m))
    _random._inst = fake
    classes = [G.Graph, G.DirectedGraph, G.BaseBipartiteGraph, G.BaseGraph]
    patched = []
    for c in classes:
        if '__repr__' not in c.__dict__ and '__str__' not in c.__dict__:
            def rep(self, _c=c):
                return '<%s.%s object at 0x7f%04x>' % (_c.__module__, type(self).__name__, tape.draw(2))
            c.__repr__ = rep
            patched.append(c)
    try:
        yield fake
    finally:
        for m in _METHODS:
            setattr(_random, m, saved[m])
        _random._inst = saved_inst
        for c in patched:
            del c.__repr__


def _tool(name):
    import sys
    import importlib
    importlib.import_module('cnfgen.clitools.' + name)
    return sys.modules['cnfgen.clitools.' + name]


def run_cli(tool, argv, tape):
    import cnfgen.clitools.msg as msg
    from cnfgen.clitools.cmdline import CLIError
    out, err = io.StringIO(), io.StringIO()
    msg._prefix = ''
    with environment(tape):
        with contextlib.redirect_stdout(out), contextlib.redirect_stderr(err):
            try:
                _tool(tool).cli([tool] + [str(a) for a in argv])
                status = 'ok'
            except CLIError as e:
                status = 'CLIError: %s' % e
            except SystemExit as e:
                status = 'exit %s' % (e.code,)
    msg._prefix = ''
    return status, out.getvalue()


SEEDS = [0, 1, -1, 2 ** 31]
import os as _os
import vlib.xh.xutil as _xutil
DATA = _os.path.join(_os.path.dirname(_os.path.abspath(_xutil.__file__)), 'data')

COMMANDS = [
    ('cnfgen', ['randkcnf', 3, 6, 5]),
    ('cnfgen', ['randkcnf', '-p', 2, 5, 4]),
    ('cnfgen', ['randkxor', 2, 5, 3]),
    ('cnfgen', ['tseitin', 6, 3]),
    ('cnfgen', ['tseitin', 'random', 'gnd', 6, 3]),
    ('cnfgen', ['tseitin', 'randomodd', 'grid', 2, 3]),
    ('cnfgen', ['op', 6, 3]),
    ('cnfgen', ['php', 4, 3, 2]),
    ('cnfgen', ['subsetcard', 6]),
    ('cnfgen', ['pitfall', 4, 2, 2, 2, 2]),
    ('cnfgen', ['stone', 2, 'pyramid', 2, '--sparse', 1]),
    ('cnfgen', ['kcolor', 3, 'gnp', 5, '.5']),
    ('cnfgen', ['kcolor', 2, 'gnp', 3, '.5', 2]),
    ('cnfgen', ['kclique', 3, 'gnm', 5, 4]),
    ('cnfgen', ['domset', 2, 'gnd', 6, 3]),
    ('cnfgen', ['kclique', 3, 'gnm', 6, 3, 'plantclique', 3]),
    ('cnfgen', ['kcolor', 2, 'gnm', 5, 4, 'addedges', 2]),
    ('cnfgen', ['tiling', 'complete', 4, 'splitedges', 2]),
    ('cnfgen', ['matching', 'empty', 5, 'addedges', 9]),
    ('cnfgen', ['iso', 'gnp', 4, '.5', '-e', 'gnp', 4, '.5']),
    ('cnfgen', ['php', 'glrp', 3, 4, '.5']),
    ('cnfgen', ['php', 'glrm', 3, 4, 5]),
    ('cnfgen', ['php', 'glrm', 3, 4, 3]),
    ('cnfgen', ['php', 'glrd', 3, 4, 2]),
    ('cnfgen', ['subsetcard', 'regular', 4, 4, 2]),
    ('cnfgen', ['php', 'empty', 3, 3, 'plantbiclique', 2, 2]),
    ('cnfgen', ['php', 'glrd', 3, 3, 1, 'addedges', 2]),
    ('cnfgen', ['php', 3, 2, '-T', 'shuffle']),
    ('cnfgen', ['op', 3, '-T', 'xorcomp', 4, 2]),
    ('cnfgen', ['op', 3, '-T', 'majcomp', 5, 3, '-T', 'shuffle']),
    ('cnfgen', ['kcolor', 3, 'complete', 3]),
    ('cnfgen', ['php', 4, 3, '-T', 'xorcomp', 'glrd', 12, 5, 2]),
    ('cnfgen', ['op', 3, '-T', 'majcomp', 'glrm', 6, 5, 12, '-T', 'shuffle']),
    ('cnfgen', ['php', 3, 2, '-T', 'xorcomp', 'glrp', 6, 4, '.5']),
    ('cnfgen', ['kclique', 3, 'gnp', 6, '.5', 'plantclique', 3, 'addedges', 2, 'splitedges', 1]),
    ('cnfgen', ['php', 'glrd', 4, 4, 2, 'plantbiclique', 2, 2, 'addedges', 2]),
    ('pbgen', ['domset', 2, 'gnd', 6, 3, 'splitedges', 2, 'addedges', 2]),
    ('cnfgen', ['-of', 'opb', 'kcolor', 2, 'gnm', 4, 3]),
    ('cnfgen', ['-of', 'latex', 'tseitin', 'random', 'gnm', 4, 3]),
    ('pbgen', ['randkcnf', 3, 6, 5]),
    ('pbgen', ['php', 'glrp', 3, 4, '.5']),
    ('pbgen', ['kcolor', 3, 'gnp', 5, '.5']),
    ('pbgen', ['tseitin', 6, 3]),
    ('pbgen', ['subsetcard', 6]),
    ('pbgen', ['pitfall', 4, 2, 2, 2, 2]),
    ('cnfshuffle', ['-i', _os.path.join(DATA, 'f6.cnf')]),
    ('cnfshuffle', ['-i', _os.path.join(DATA, 'f10.cnf'), '-p']),
    # deterministic constructions (lattices, shifts, complete graphs) followed by a random modifier: the second run must
    # start from the same graph as the first
    ('cnfgen', ['kcolor', 2, 'grid', 2, 3, 'addedges', 2]),
    ('cnfgen', ['tseitin', 'first', 'torus', 3, 3, 'splitedges', 2]),
    ('cnfgen', ['kclique', 3, 'grid', 3, 3, 'plantclique', 3, 'addedges', 1]),
    ('cnfgen', ['php', 'shift', 3, 4, 0, 1, 'addedges', 2]),
    ('pbgen', ['subsetcard', 'shift', 4, 4, 0, 1, 'addedges', 1]),
    ('cnfgen', ['op', 'complete', 4, 'splitedges', 1]),
]


# command lines reading graph files whose vertices have NAMES (dot, gml labels): used by the process sweep over
# PYTHONHASHSEED only (vertex numbering must come from the file, never from the iteration order of a set of strings)
NAMED_COMMANDS = [
    ('cnfgen', ['php', _os.path.join(DATA, 'b2.dot')]),
    ('cnfgen', ['subsetcard', _os.path.join(DATA, 'b2.dot')]),
    ('cnfgen', ['kcolor', 3, _os.path.join(DATA, 'g2.dot')]),
    ('cnfgen', ['tseitin', 'first', _os.path.join(DATA, 'g2.dot')]),
    ('cnfgen', ['domset', 2, _os.path.join(DATA, 'g3.gml')]),
    ('cnfgen', ['peb', _os.path.join(DATA, 'd3.dot')]),
    ('pbgen', ['php', _os.path.join(DATA, 'b2.dot')]),
    ('cnfgen', ['and', 3, 2, '-T', 'xorcomp', _os.path.join(DATA, 'b2.dot')]),
]


FILE_COMMANDS = [
    ('cnfgen', ['kcolor', 3, 'gml', _os.path.join(DATA, 'g1.gml'), 'addedges', 2, '-T', 'shuffle']),
    ('cnfgen', ['peb', _os.path.join(DATA, 'd1.kthlist')]),
    ('cnfgen', ['php', _os.path.join(DATA, 'b1.matrix')]),
    ('cnfgen', ['dimacs', _os.path.join(DATA, 'f6.cnf'), '-T', 'shuffle']),
    ('pbgen', ['dimacs', _os.path.join(DATA, 'f10.cnf')]),
    ('cnfshuffle', ['-i', _os.path.join(DATA, 'f6.cnf')]),
    ('kthlist2pebbling', ['-i', _os.path.join(DATA, 'd2.kthlist')]),
    ('cnfgen', ['tseitin', 'randomodd', 'dimacs', _os.path.join(DATA, 'v2.dimacs'), 'addedges', 1]),
]


def _same_output(ci, si, tape):
    tool, argv = COMMANDS[ci]
    seed = SEEDS[si]
    full = ['--seed', seed] + list(argv) if tool != 'cnfshuffle' else ['--seed', seed] + list(argv)
    a = run_cli(tool, full, tape)
    b = run_cli(tool, full, tape)
    if a[0] != 'ok':
        raise AssertionError('command failed: %s %s -> %s TAPE=%r' % (tool, full, a[0], tape.log))
    return a == b


def _cmd(ci, si):
    tape = Tape(limit=40)
    try:
        ok = untraced(_same_output, ci, pick(si, 0, len(SEEDS) - 1), tape)
    except TapeExhausted:
        return True                       # more than 40 unseeded draws: cut, outside the explored bound
    if not ok:
        raise AssertionError('two runs of %s %r with the same seed differ TAPE=%r' % (COMMANDS[ci][0], COMMANDS[ci][1], tape.log))
    return True


# ------------------------------------------------------------------ library generators with seed=
def _lib(li, seed, tape):
    from cnfgen.families.randomformulas import RandomKCNF
    from cnfgen.families.randomkxor import RandomKXOR
    import cnfgen.graphs as G

    def once():
        with environment(tape):
            if li == 0:
                F = RandomKCNF(3, 6, 5, seed=seed)
                return [list(c) for c in F.clauses()]
            if li == 1:
                F = RandomKXOR(2, 5, 3, seed=seed)
                return [list(c) for c in F.clauses()]
            if li == 2:
                B = G.bipartite_random_left_regular(3, 4, 2, seed=seed)
            elif li == 3:
                B = G.bipartite_random_regular(4, 4, 2, seed=seed)
            elif li == 4:
                B = G.bipartite_random_m_edges(3, 4, 3, seed=seed)
            elif li == 5:
                B = G.bipartite_random(3, 4, 0.5, seed=seed)
            elif li == 6:
                H = G.Graph(5)
                H.add_edge(1, 2)
                G.add_random_missing_edges(H, 3, seed=seed)
                return sorted(H.edges())
            elif li == 7:
                H = G.Graph.complete_graph(4)
                G.split_random_edges(H, 2, seed=seed)
                return (H.number_of_vertices(), sorted(H.edges()))
            else:
                B = G.bipartite_random_m_edges(3, 3, 7, seed=seed)
            return sorted(B.edges())
    return once() == once()


SPELLED = [('cnfgen', ['kcolor', 3, 'gnp', 5, '.5']), ('cnfgen', ['php', 'glrd', 3, 4, 2]), ('cnfgen', ['op', 3, '-T', 'xorcomp', 'glrd', 6, 4, 2]),
           ('pbgen', ['kcolor', 2, 'gnm', 4, 3]), ('cnfgen', ['kclique', 3, 'gnm', 5, 4, 'plantclique', 3]), ('cnfgen', ['tseitin', 'random', 'gnd', 6, 3])]
SPELLINGS = [['--seed', '7'], ['--seed=7'], ['-S7'], ['-S', '7'], ['--see', '7'], ['-q', '--seed=0'], ['--seed', '7', '--seed', '3'], ['-S3', '-v']]


def _spelled(ci, sp, tape):
    """every spelling of the seed option that the command line parser accepts seeds the graph arguments as well"""
    tool, argv = SPELLED[ci]
    full = SPELLINGS[sp] + list(argv)
    a = run_cli(tool, full, tape)
    b = run_cli(tool, full, tape)
    return a == b


def h_e_seed_spelling(ci: int, sp: int) -> bool:
    """
    pre: 0 <= ci <= 5 and 0 <= sp <= 7
    post: _
    """
    tape = Tape(limit=40)
    try:
        ok = untraced(_spelled, pick(ci, 0, 5), pick(sp, 0, 7), tape)
    except TapeExhausted:
        return True
    if not ok:
        raise AssertionError('two runs of %s %r differ TAPE=%r' % (SPELLED[ci][0], SPELLINGS[sp] + SPELLED[ci][1], tape.log))
    return True


def _lib_headers(ci, tape):
    """a library call made twice on equal but distinct argument objects gives the same complete output, header included
    (no object identity, no counter, nothing of the first call in the second)"""
    import cnfgen.graphs as G
    from cnfgen.formula.cnf import CNF
    from cnfgen.formula.opb import OPB
    from cnfgen.families.coloring import GraphColoringFormula, EvenColoringFormula
    from cnfgen.families.dominatingset import DominatingSet, Tiling
    from cnfgen.families.subgraph import CliqueFormula, BinaryCliqueFormula, RamseyWitnessFormula, SubgraphFormula
    from cnfgen.families.ordering import GraphOrderingPrinciple
    from cnfgen.families.counting import PerfectMatchingPrinciple
    from cnfgen.families.tseitin import TseitinFormula
    from cnfgen.families.graphisomorphism import GraphIsomorphism, GraphAutomorphism
    from cnfgen.families.pigeonhole import GraphPigeonholePrinciple
    from cnfgen.families.subsetcardinality import SubsetCardinalityFormula
    from cnfgen.families.pebbling import PebblingFormula, StoneFormula, SparseStoneFormula
    from cnfgen.transformations.substitutions import VariableCompression, XorSubstitution
    from cnfgen.transformations.shuffle import Shuffle

    def S():
        H = G.Graph(4)
        for e in ((1, 2), (2, 3), (3, 4), (1, 4)):
            H.add_edge(*e)
        return H

    def T():
        H = G.Graph(2)
        H.add_edge(1, 2)
        return H

    def B():
        X = G.BipartiteGraph(3, 3)
        for e in ((1, 1), (1, 2), (2, 2), (3, 3), (3, 1)):
            X.add_edge(*e)
        return X

    def D():
        X = G.DirectedGraph(3)
        X.add_edge(1, 3)
        X.add_edge(2, 3)
        return X
    calls = [
        lambda c: SubgraphFormula(S(), T(), induced=True, formula_class=c), lambda c: SubgraphFormula(S(), T(), induced=False, symbreak=True, formula_class=c),
        lambda c: GraphColoringFormula(S(), 3, functional=False, formula_class=c), lambda c: EvenColoringFormula(S(), formula_class=c),
        lambda c: DominatingSet(S(), 2, alternative=True, formula_class=c), lambda c: Tiling(S(), formula_class=c),
        lambda c: CliqueFormula(S(), 2, symbreak=False, formula_class=c), lambda c: BinaryCliqueFormula(S(), 2, symbreak=False, formula_class=c),
        lambda c: RamseyWitnessFormula(S(), 2, 3, symbreak=False, formula_class=c),
        lambda c: GraphOrderingPrinciple(S(), total=True, formula_class=c), lambda c: GraphOrderingPrinciple(S(), smart=True, plant=True, formula_class=c),
        lambda c: GraphOrderingPrinciple(S(), knuth=3, formula_class=c), lambda c: PerfectMatchingPrinciple(S(), formula_class=c),
        lambda c: TseitinFormula(S(), [1, 0, 0, 1], formula_class=c), lambda c: GraphIsomorphism(S(), S(), formula_class=c),
        lambda c: GraphAutomorphism(S(), formula_class=c), lambda c: GraphPigeonholePrinciple(B(), functional=True, onto=True, formula_class=c),
        lambda c: SubsetCardinalityFormula(B(), equalities=True, formula_class=c), lambda c: PebblingFormula(D(), formula_class=c),
        lambda c: StoneFormula(D(), 2, formula_class=c), lambda c: SparseStoneFormula(D(), B(), formula_class=c),
        lambda c: VariableCompression(CNF([[1, -2], [3]]), B(), 'maj'), lambda c: XorSubstitution(GraphColoringFormula(T(), 2), 2),
        lambda c: Shuffle(PebblingFormula(D()), 'fixed', 'fixed', 'fixed'),
    ]

    def once(cls):
        with environment(tape):
            F = calls[ci](cls)
            buf = io.StringIO()
            F.to_file(buf, export_header=True)
            return buf.getvalue()
    for cls in (CNF, OPB):
        if once(cls) != once(cls):
            return False
    return True


def h_e_lib_headers(ci: int) -> bool:
    """
    pre: 0 <= ci <= 23
    post: _
    """
    tape = Tape(limit=40)
    try:
        ok = untraced(_lib_headers, pick(ci, 0, 23), tape)
    except TapeExhausted:
        return True
    if not ok:
        raise AssertionError('library call %d made twice on equal arguments gives different output TAPE=%r' % (ci, tape.log))
    return True


STREAM_NAMES = ['zeros', 'big', 'alt', 'count', 'mix']
DENSE = [('cnf', 2, 3, 12), ('cnf', 1, 3, 6), ('cnf', 2, 3, 11), ('cnf', 3, 3, 8), ('xor', 2, 4, 12), ('xor', 1, 3, 6), ('xor', 2, 3, 6),
         ('cnf', 2, 4, 20), ('xor', 3, 4, 7)]


def _lib_stream(di, st, tape):
    """requests at or near the number of available clauses (the rejection phase gives up, the dense fallback runs), under a
    seeded generator that repeats itself: the second call with the same seed gives the same formula"""
    from cnfgen.families.randomformulas import RandomKCNF
    from cnfgen.families.randomkxor import RandomKXOR
    kind, k, n, m = DENSE[di]

    def once(seed):
        with environment(tape, post=STREAM_NAMES[st]):
            F = (RandomKCNF if kind == 'cnf' else RandomKXOR)(k, n, m, seed=seed)
            return [list(c) for c in F.clauses()]
    a = once(5)
    once(6)
    return a == once(5)


def h_e_lib_stream(di: int, st: int) -> bool:
    """
    pre: 0 <= di <= 8 and 0 <= st <= 4
    post: _
    """
    tape = Tape(limit=40)
    try:
        ok = untraced(_lib_stream, pick(di, 0, 8), pick(st, 0, 4), tape)
    except TapeExhausted:
        return True
    if not ok:
        raise AssertionError('library generator %r called again with the same seed differs TAPE=%r' % (DENSE[di], tape.log))
    return True


def h_e_lib(li: int, si: int) -> bool:
    """
    pre: 0 <= li <= 8 and 0 <= si <= 3
    post: _
    """
    tape = Tape(limit=40)
    try:
        ok = untraced(_lib, pick(li, 0, 8), SEEDS[pick(si, 0, 3)], tape)
    except TapeExhausted:
        return True
    if not ok:
        raise AssertionError('library generator %d called twice with the same seed differs TAPE=%r' % (li, tape.log))
    return True


def h_e_cmd_0(si: int) -> bool:
    """
    pre: 0 <= si <= 3
    post: _
    """
    # cnfgen randkcnf 3 6 5
    return _cmd(0, si)


def h_e_cmd_1(si: int) -> bool:
    """
    pre: 0 <= si <= 3
    post: _
    """
    # cnfgen randkcnf -p 2 5 4
    return _cmd(1, si)


def h_e_cmd_2(si: int) -> bool:
    """
    pre: 0 <= si <= 3
    post: _
    """
    # cnfgen randkxor 2 5 3
    return _cmd(2, si)


def h_e_cmd_3(si: int) -> bool:
    """
    pre: 0 <= si <= 3
    post: _
    """
    # cnfgen tseitin 6 3
    return _cmd(3, si)


def h_e_cmd_4(si: int) -> bool:
    """
    pre: 0 <= si <= 3
    post: _
    """
    # cnfgen tseitin random gnd 6 3
    return _cmd(4, si)


def h_e_cmd_5(si: int) -> bool:
    """
    pre: 0 <= si <= 3
    post: _
    """
    # cnfgen tseitin randomodd grid 2 3
    return _cmd(5, si)


def h_e_cmd_6(si: int) -> bool:
    """
    pre: 0 <= si <= 3
    post: _
    """
    # cnfgen op 6 3
    return _cmd(6, si)


def h_e_cmd_7(si: int) -> bool:
    """
    pre: 0 <= si <= 3
    post: _
    """
    # cnfgen php 4 3 2
    return _cmd(7, si)


def h_e_cmd_8(si: int) -> bool:
    """
    pre: 0 <= si <= 3
    post: _
    """
    # cnfgen subsetcard 6
    return _cmd(8, si)


def h_e_cmd_9(si: int) -> bool:
    """
    pre: 0 <= si <= 3
    post: _
    """
    # cnfgen pitfall 4 2 2 2 2
    return _cmd(9, si)


def h_e_cmd_10(si: int) -> bool:
    """
    pre: 0 <= si <= 3
    post: _
    """
    # cnfgen stone 2 pyramid 2 --sparse 1
    return _cmd(10, si)


def h_e_cmd_11(si: int) -> bool:
    """
    pre: 0 <= si <= 3
    post: _
    """
    # cnfgen kcolor 3 gnp 5 .5
    return _cmd(11, si)


def h_e_cmd_12(si: int) -> bool:
    """
    pre: 0 <= si <= 3
    post: _
    """
    # cnfgen kcolor 2 gnp 3 .5 2
    return _cmd(12, si)


def h_e_cmd_13(si: int) -> bool:
    """
    pre: 0 <= si <= 3
    post: _
    """
    # cnfgen kclique 3 gnm 5 4
    return _cmd(13, si)


def h_e_cmd_14(si: int) -> bool:
    """
    pre: 0 <= si <= 3
    post: _
    """
    # cnfgen domset 2 gnd 6 3
    return _cmd(14, si)


def h_e_cmd_15(si: int) -> bool:
    """
    pre: 0 <= si <= 3
    post: _
    """
    # cnfgen kclique 3 gnm 6 3 plantclique 3
    return _cmd(15, si)


def h_e_cmd_16(si: int) -> bool:
    """
    pre: 0 <= si <= 3
    post: _
    """
    # cnfgen kcolor 2 gnm 5 4 addedges 2
    return _cmd(16, si)


def h_e_cmd_17(si: int) -> bool:
    """
    pre: 0 <= si <= 3
    post: _
    """
    # cnfgen tiling complete 4 splitedges 2
    return _cmd(17, si)


def h_e_cmd_18(si: int) -> bool:
    """
    pre: 0 <= si <= 3
    post: _
    """
    # cnfgen matching empty 5 addedges 9
    return _cmd(18, si)


def h_e_cmd_19(si: int) -> bool:
    """
    pre: 0 <= si <= 3
    post: _
    """
    # cnfgen iso gnp 4 .5 -e gnp 4 .5
    return _cmd(19, si)


def h_e_cmd_20(si: int) -> bool:
    """
    pre: 0 <= si <= 3
    post: _
    """
    # cnfgen php glrp 3 4 .5
    return _cmd(20, si)


def h_e_cmd_21(si: int) -> bool:
    """
    pre: 0 <= si <= 3
    post: _
    """
    # cnfgen php glrm 3 4 5
    return _cmd(21, si)


def h_e_cmd_22(si: int) -> bool:
    """
    pre: 0 <= si <= 3
    post: _
    """
    # cnfgen php glrm 3 4 3
    return _cmd(22, si)


def h_e_cmd_23(si: int) -> bool:
    """
    pre: 0 <= si <= 3
    post: _
    """
    # cnfgen php glrd 3 4 2
    return _cmd(23, si)


def h_e_cmd_24(si: int) -> bool:
    """
    pre: 0 <= si <= 3
    post: _
    """
    # cnfgen subsetcard regular 4 4 2
    return _cmd(24, si)


def h_e_cmd_25(si: int) -> bool:
    """
    pre: 0 <= si <= 3
    post: _
    """
    # cnfgen php empty 3 3 plantbiclique 2 2
    return _cmd(25, si)


def h_e_cmd_26(si: int) -> bool:
    """
    pre: 0 <= si <= 3
    post: _
    """
    # cnfgen php glrd 3 3 1 addedges 2
    return _cmd(26, si)


def h_e_cmd_27(si: int) -> bool:
    """
    pre: 0 <= si <= 3
    post: _
    """
    # cnfgen php 3 2 -T shuffle
    return _cmd(27, si)


def h_e_cmd_28(si: int) -> bool:
    """
    pre: 0 <= si <= 3
    post: _
    """
    # cnfgen op 3 -T xorcomp 4 2
    return _cmd(28, si)


def h_e_cmd_29(si: int) -> bool:
    """
    pre: 0 <= si <= 3
    post: _
    """
    # cnfgen op 3 -T majcomp 5 3 -T shuffle
    return _cmd(29, si)


def h_e_cmd_30(si: int) -> bool:
    """
    pre: 0 <= si <= 3
    post: _
    """
    # cnfgen kcolor 3 complete 3
    return _cmd(30, si)


def h_e_cmd_31(si: int) -> bool:
    """
    pre: 0 <= si <= 3
    post: _
    """
    # cnfgen php 4 3 -T xorcomp glrd 12 5 2
    return _cmd(31, si)


def h_e_cmd_32(si: int) -> bool:
    """
    pre: 0 <= si <= 3
    post: _
    """
    # cnfgen op 3 -T majcomp glrm 6 5 12 -T shuffle
    return _cmd(32, si)


def h_e_cmd_33(si: int) -> bool:
    """
    pre: 0 <= si <= 3
    post: _
    """
    # cnfgen php 3 2 -T xorcomp glrp 6 4 .5
    return _cmd(33, si)


def h_e_cmd_34(si: int) -> bool:
    """
    pre: 0 <= si <= 3
    post: _
    """
    # cnfgen kclique 3 gnp 6 .5 plantclique 3 addedges 2 splitedges 1
    return _cmd(34, si)


def h_e_cmd_35(si: int) -> bool:
    """
    pre: 0 <= si <= 3
    post: _
    """
    # cnfgen php glrd 4 4 2 plantbiclique 2 2 addedges 2
    return _cmd(35, si)


def h_e_cmd_36(si: int) -> bool:
    """
    pre: 0 <= si <= 3
    post: _
    """
    # pbgen domset 2 gnd 6 3 splitedges 2 addedges 2
    return _cmd(36, si)


def h_e_cmd_37(si: int) -> bool:
    """
    pre: 0 <= si <= 3
    post: _
    """
    # cnfgen -of opb kcolor 2 gnm 4 3
    return _cmd(37, si)


def h_e_cmd_38(si: int) -> bool:
    """
    pre: 0 <= si <= 3
    post: _
    """
    # cnfgen -of latex tseitin random gnm 4 3
    return _cmd(38, si)


def h_e_cmd_39(si: int) -> bool:
    """
    pre: 0 <= si <= 3
    post: _
    """
    # pbgen randkcnf 3 6 5
    return _cmd(39, si)


def h_e_cmd_40(si: int) -> bool:
    """
    pre: 0 <= si <= 3
    post: _
    """
    # pbgen php glrp 3 4 .5
    return _cmd(40, si)


def h_e_cmd_41(si: int) -> bool:
    """
    pre: 0 <= si <= 3
    post: _
    """
    # pbgen kcolor 3 gnp 5 .5
    return _cmd(41, si)


def h_e_cmd_42(si: int) -> bool:
    """
    pre: 0 <= si <= 3
    post: _
    """
    # pbgen tseitin 6 3
    return _cmd(42, si)


def h_e_cmd_43(si: int) -> bool:
    """
    pre: 0 <= si <= 3
    post: _
    """
    # pbgen subsetcard 6
    return _cmd(43, si)


def h_e_cmd_44(si: int) -> bool:
    """
    pre: 0 <= si <= 3
    post: _
    """
    # pbgen pitfall 4 2 2 2 2
    return _cmd(44, si)


def h_e_cmd_45(si: int) -> bool:
    """
    pre: 0 <= si <= 3
    post: _
    """
    # cnfshuffle -i <data>/f6.cnf
    return _cmd(45, si)


def h_e_cmd_46(si: int) -> bool:
    """
    pre: 0 <= si <= 3
    post: _
    """
    # cnfshuffle -i <data>/f10.cnf -p
    return _cmd(46, si)


def h_e_cmd_47(si: int) -> bool:
    """
    pre: 0 <= si <= 3
    post: _
    """
    # cnfgen kcolor 2 grid 2 3 addedges 2
    return _cmd(47, si)


def h_e_cmd_48(si: int) -> bool:
    """
    pre: 0 <= si <= 3
    post: _
    """
    # cnfgen tseitin first torus 3 3 splitedges 2
    return _cmd(48, si)


def h_e_cmd_49(si: int) -> bool:
    """
    pre: 0 <= si <= 3
    post: _
    """
    # cnfgen kclique 3 grid 3 3 plantclique 3 addedges 1
    return _cmd(49, si)


def h_e_cmd_50(si: int) -> bool:
    """
    pre: 0 <= si <= 3
    post: _
    """
    # cnfgen php shift 3 4 0 1 addedges 2
    return _cmd(50, si)


def h_e_cmd_51(si: int) -> bool:
    """
    pre: 0 <= si <= 3
    post: _
    """
    # pbgen subsetcard shift 4 4 0 1 addedges 1
    return _cmd(51, si)


def h_e_cmd_52(si: int) -> bool:
    """
    pre: 0 <= si <= 3
    post: _
    """
    # cnfgen op complete 4 splitedges 1
    return _cmd(52, si)
