"""Helpers shared by the CrossHair harness modules (importable without CrossHair for replays)."""
try:
    from crosshair.core import realize as _realize
    from crosshair.tracers import NoTracing, is_tracing
except Exception:  # plain replay interpreter: no crosshair installed
    _realize = None

    class NoTracing:
        def __enter__(self):
            return self

        def __exit__(self, *a):
            return False

    def is_tracing():
        return False


def concrete(*xs):
    """Realise symbolic values (a solver decision `x == v` per value: the walk over the finite domain stays
    exhaustive and ends in "Confirmed over all paths" only when every value has been visited)."""
    if _realize is None:
        return xs if len(xs) != 1 else xs[0]
    out = tuple(_realize(x) for x in xs)
    return out if len(out) != 1 else out[0]


def untraced(fn, *args):
    """Run fn concretely (no symbolic tracing) - used after every input has been realised."""
    with NoTracing():
        return fn(*args)


def pick(x, lo, hi):
    """Concretise a symbolic int known to lie in [lo, hi] by a chain of binary decisions `x == c`
    (measured: ~60 paths/s, against <3 paths/s for crosshair.core.realize on the same domain)."""
    for c in range(lo, hi):
        if x == c:
            return c
    return hi


def pickb(b):
    return True if b else False
