"""Helpers shared by the CrossHair harness modules (importable without CrossHair for replays)."""
try:
    from crosshair.core import realize as _realize
    from crosshair.tracers import NoTracing, is_tracing
except Exception:  # plain replay interpreter: no crosshair installed
    _realize = None

    class NoTracing:
        def __enter__(self):
            return self

        def __exit__(self, *a):
            return False

    def is_tracing():
        return False


def concrete(*xs):
    """Realise symbolic values (a solver decision `x == v` per value: the walk over the finite domain stays
    exhaustive and ends in "Confirmed over all paths" only when every value has been visited)."""
    if _realize is None:
        return xs if len(xs) != 1 else xs[0]
    out = tuple(_realize(x) for x in xs)
    return out if len(out) != 1 else out[0]


def untraced(fn, *args):
    """Run fn concretely (no symbolic tracing) - used after every input has been realised."""
    with NoTracing():
        return fn(*args)


def pick(x, lo, hi):
    """Concretise a symbolic int known to lie in [lo, hi] by a chain of binary decisions `x == c`
    (measured: ~60 paths/s, against <3 paths/s for crosshair.core.realize on the same domain)."""
    for c in range(lo, hi):
        if x == c:
            return c
    return hi


def pickb(b):
    return True if b else False


# ------------------------------------------------------------------ nondeterministic tape
REPLAY_TAPE = None      # set by the replay driver: a concrete list of draws


class Tape:
    """Source of arbitrary values for randomness stubs.  Under CrossHair every draw mints a fresh symbolic
    int (lazily, so only draws that really happen exist) and concretises it over its exact range by solver
    decisions; under replay the recorded draws are played back."""
    def __init__(self, limit=64, concrete=None):
        self.log = []
        self.limit = limit
        self.concrete = concrete      # function i -> int: a fixed (deterministic) stream, no solver involved

    def draw(self, k):
        """arbitrary value in range(k)"""
        if k <= 0:
            raise ValueError('empty range')
        i = len(self.log)
        if k > 1 and self.concrete is None:
            self.nontrivial = getattr(self, 'nontrivial', 0) + 1
            if self.nontrivial > self.limit:
                raise TapeExhausted()
        if self.concrete is not None:
            if i >= self.limit:
                raise TapeExhausted()
            v = self.concrete(i) % k
        elif REPLAY_TAPE is not None:
            v = REPLAY_TAPE[i] if i < len(REPLAY_TAPE) else 0
            v = v % k
        elif _realize is None or k == 1:
            v = 0
        else:
            from crosshair.core import proxy_for_type
            from crosshair.tracers import ResumedTracing
            if is_tracing():
                x = proxy_for_type(int, 'draw%d' % i)
                v = pick(x % k, 0, k - 1)
            else:
                with ResumedTracing():
                    x = proxy_for_type(int, 'draw%d' % i)
                    v = pick(x % k, 0, k - 1)
        self.log.append(v)
        return v


class TapeExhausted(Exception):
    pass


class FakeRandom:
    """Stand-in for the `random` module: every outcome allowed by the documented contract of each function
    can be produced (choice: any element; shuffle: any permutation; sample: any k-subset in any order;
    randint/randrange: any value of the range; random: one of a few representative floats)."""
    def __init__(self, tape, floats=(0.0, 0.25, 0.5, 0.75, 0.999999)):
        self.tape = tape
        self.floats = floats
        self.seeded = []

    def seed(self, x=None):
        self.seeded.append(x)

    def choice(self, seq):
        seq = list(seq)
        if not seq:
            raise IndexError('Cannot choose from an empty sequence')
        return seq[self.tape.draw(len(seq))]

    def randint(self, a, b):
        if b < a:
            raise ValueError('empty range for randint')
        return a + self.tape.draw(b - a + 1)

    def randrange(self, a, b=None):
        if b is None:
            a, b = 0, a
        if b <= a:
            raise ValueError('empty range for randrange')
        return a + self.tape.draw(b - a)

    def shuffle(self, lst):
        n = len(lst)
        for i in range(n - 1, 0, -1):
            j = self.tape.draw(i + 1)
            lst[i], lst[j] = lst[j], lst[i]

    def sample(self, population, k):
        if isinstance(population, (set, frozenset, dict)) or not hasattr(population, '__len__'):
            raise TypeError('Population must be a sequence.  For dicts or sets, use sorted(d).')
        pool = list(population)
        if not 0 <= k <= len(pool):
            raise ValueError('Sample larger than population or is negative')
        out = []
        for _ in range(k):
            out.append(pool.pop(self.tape.draw(len(pool))))
        return out

    def random(self):
        return self.floats[self.tape.draw(len(self.floats))]

    def getrandbits(self, k):
        return self.tape.draw(1 << k)
