"""CrossHair harnesses for C10: every formula mentions only variables it owns, and allocates them freshly.

Histories of up to three operations with solver-chosen kinds and sizes on CNF and OPB formulas, public defaults
(check=True).  After every step: every literal lies in 1..number_of_variables(); the count never decreases; every
identifier handed out by a new_* call is larger than every variable mentioned or declared before, the group is
contiguous and the count grows by exactly its size.
"""
from cnfgen.formula.cnf import CNF
from cnfgen.formula.opb import OPB
import cnfgen.graphs as GR
from vlib.xh.xutil import pick, pickb, untraced


def _lits(F):
    if hasattr(F, 'clauses'):
        for c in F.clauses():
            for l in c:
                yield l
    else:
        for r in F.constraints():
            for (_, l) in r[:-2]:
                yield l


def _ok(F):
    n = F.number_of_variables()
    for l in _lits(F):
        if not isinstance(l, int) or l == 0 or abs(l) > n:
            return False
    return len(list(F.all_variable_labels())) == n


def _history(opb, ops):
    F = OPB() if opb else CNF()
    last = []
    for (kind, a, b) in ops:
        n0 = F.number_of_variables()
        ids = None
        grp = None
        if kind == 0:
            ids = [F.new_variable()]
        elif kind == 1:
            grp = F.new_block(a, b)
        elif kind == 2:
            grp = F.new_combinations(a + 1, b)
        elif kind == 3:
            grp = F.new_mapping(a, b)
        elif kind == 4:
            grp = F.new_binary_mapping(a + 1, b + 1)
        elif kind == 5:
            mine = [n0 + a + 1, -(n0 + 1)] if b else [-(n0 + a + 1)]
            F.add_clause(mine)
            mine.append(n0 + a + 40)            # the list is the caller's: reusing it afterwards does not reach into the formula
            mine[0] = -(n0 + a + 50)
            if F.number_of_variables() != n0 + a + 1:
                return False
        elif kind == 6:
            F.update_variable_number(max(0, n0 + a - 1))
            if F.number_of_variables() != max(n0, n0 + a - 1):
                return False
        elif kind == 7:
            lits = (last or list(range(1, n0 + 1)))[:3]
            if opb:
                F.cardinality_geq([-l for l in lits], b)
            else:
                F.add_linear([-l for l in lits], ['>=', '==', '!='][a], b)
            if F.number_of_variables() != n0:
                return False
        elif kind == 8:
            F.add_parity((last or list(range(1, n0 + 1)))[:3], b % 2)
            if F.number_of_variables() != n0:
                return False
        elif kind == 11:
            # a constraint over variables that nothing has declared yet: they become owned by the formula
            new = [n0 + 1, -(n0 + 2), n0 + 3][:a + 1]
            if b == 2:
                F.add_parity(new, 1)
            elif opb:
                [F.cardinality_geq, F.cardinality_neq][b](new, 1)
            else:
                F.add_linear(new, ['==', '!='][b], 1)
            if F.number_of_variables() != n0 + a + 1:
                return False
        elif kind == 12:
            # bulk insertion with the public default arguments: list, tuple or generator of clauses
            cls = [[n0 + a + 1, -(n0 + 1)], [n0 + 1]]
            F.add_clauses_from([cls, tuple(cls), (c for c in cls)][b])
            cls[0].append(n0 + a + 40)
            cls[1][0] = n0 + a + 50
            if F.number_of_variables() != n0 + a + 1:
                return False
        elif kind == 13:
            if opb:
                F.add_constraints_from([[(2, n0 + a + 1), (1, -(n0 + 1)), ['>=', '==', '<='][b], 1], [(1, n0 + 1), '>=', 0]])
            else:
                given = [[n0 + a + 1, -(n0 + 1)], [n0 + 1]][:b + 1]
                F2 = CNF(given)
                given[0].append(n0 + a + 40)
                if F2.number_of_variables() != n0 + a + 1 or not _ok(F2):
                    return False
                F.add_clauses_from(F2.clauses())
            if F.number_of_variables() != n0 + a + 1:
                return False
        elif kind == 14:
            # interleaving INSIDE one bulk insertion: the clauses come from a lazy encoder that creates auxiliary variables
            # and groups on the same formula while it is being consumed
            got = []

            def lazy():
                yield [n0 + a + 1, -(n0 + 1)]
                got.append(F.new_variable())
                yield [-got[0]] if b == 0 else [n0 + 1]
                blk = F.new_block(1, 2)
                got.extend(sorted(blk.to_dict().values()))
                if b == 2:
                    yield [got[1]]
            if opb and b == 1:
                F.add_constraints_from(([(1, l) for l in c] + ['>=', 1]) for c in lazy())
            else:
                F.add_clauses_from(lazy())
            # whether the batch is inserted clause by clause or collected first is not documented, so the only demands are:
            # the identifiers handed out are new (above everything that existed before the call), distinct, the block
            # contiguous, and afterwards all of them - and everything the batch mentions - are declared
            if len(set(got)) != 3 or min(got) <= n0 or got[2] != got[1] + 1:
                return False
            if F.number_of_variables() < max(got + [n0 + a + 1]):
                return False
        elif kind == 9:
            G = GR.Graph(a + 1)
            for u in range(1, a + 1):
                if b:
                    G.add_edge(u, u + 1)
            grp = F.new_graph_edges(G)
        else:
            B = GR.BipartiteGraph(a + 1, 2)
            for u in range(1, a + 2):
                B.add_edge(u, 1 + (u + b) % 2)
            grp = F.new_sparse_mapping(B)
        if grp is not None:
            ids = list(grp)
            # the identifiers the group hands out when it is USED are its own (not those of an earlier group)
            if kind == 2 and b == 0:
                used = [grp()]
            else:
                used = list(grp())
            if sorted(used) != ids or sorted(grp.to_dict().values()) != ids:
                return False
        n1 = F.number_of_variables()
        if n1 < n0:
            return False
        if ids is not None:
            if ids != list(range(n0 + 1, n0 + 1 + len(ids))):      # fresh, contiguous, above everything seen
                return False
            if n1 != n0 + len(ids):
                return False
            last = ids
        if not _ok(F):
            return False
    return True


def h_e_hist2_0(opb: bool, a1: int, b1: int, k2: int, a2: int, b2: int) -> bool:
    """
    pre: 0 <= a1 <= 2 and 0 <= b1 <= 2 and 0 <= k2 <= 14 and 0 <= a2 <= 2 and 0 <= b2 <= 2
    post: _
    """
    return untraced(_history, pickb(opb), [(0, pick(a1, 0, 2), pick(b1, 0, 2)), (pick(k2, 0, 14), pick(a2, 0, 2), pick(b2, 0, 2))])


def h_e_hist2_1(opb: bool, a1: int, b1: int, k2: int, a2: int, b2: int) -> bool:
    """
    pre: 0 <= a1 <= 2 and 0 <= b1 <= 2 and 0 <= k2 <= 14 and 0 <= a2 <= 2 and 0 <= b2 <= 2
    post: _
    """
    return untraced(_history, pickb(opb), [(1, pick(a1, 0, 2), pick(b1, 0, 2)), (pick(k2, 0, 14), pick(a2, 0, 2), pick(b2, 0, 2))])


def h_e_hist2_2(opb: bool, a1: int, b1: int, k2: int, a2: int, b2: int) -> bool:
    """
    pre: 0 <= a1 <= 2 and 0 <= b1 <= 2 and 0 <= k2 <= 14 and 0 <= a2 <= 2 and 0 <= b2 <= 2
    post: _
    """
    return untraced(_history, pickb(opb), [(2, pick(a1, 0, 2), pick(b1, 0, 2)), (pick(k2, 0, 14), pick(a2, 0, 2), pick(b2, 0, 2))])


def h_e_hist2_3(opb: bool, a1: int, b1: int, k2: int, a2: int, b2: int) -> bool:
    """
    pre: 0 <= a1 <= 2 and 0 <= b1 <= 2 and 0 <= k2 <= 14 and 0 <= a2 <= 2 and 0 <= b2 <= 2
    post: _
    """
    return untraced(_history, pickb(opb), [(3, pick(a1, 0, 2), pick(b1, 0, 2)), (pick(k2, 0, 14), pick(a2, 0, 2), pick(b2, 0, 2))])


def h_e_hist2_4(opb: bool, a1: int, b1: int, k2: int, a2: int, b2: int) -> bool:
    """
    pre: 0 <= a1 <= 2 and 0 <= b1 <= 2 and 0 <= k2 <= 14 and 0 <= a2 <= 2 and 0 <= b2 <= 2
    post: _
    """
    return untraced(_history, pickb(opb), [(4, pick(a1, 0, 2), pick(b1, 0, 2)), (pick(k2, 0, 14), pick(a2, 0, 2), pick(b2, 0, 2))])


def h_e_hist2_5(opb: bool, a1: int, b1: int, k2: int, a2: int, b2: int) -> bool:
    """
    pre: 0 <= a1 <= 2 and 0 <= b1 <= 2 and 0 <= k2 <= 14 and 0 <= a2 <= 2 and 0 <= b2 <= 2
    post: _
    """
    return untraced(_history, pickb(opb), [(5, pick(a1, 0, 2), pick(b1, 0, 2)), (pick(k2, 0, 14), pick(a2, 0, 2), pick(b2, 0, 2))])


def h_e_hist2_6(opb: bool, a1: int, b1: int, k2: int, a2: int, b2: int) -> bool:
    """
    pre: 0 <= a1 <= 2 and 0 <= b1 <= 2 and 0 <= k2 <= 14 and 0 <= a2 <= 2 and 0 <= b2 <= 2
    post: _
    """
    return untraced(_history, pickb(opb), [(6, pick(a1, 0, 2), pick(b1, 0, 2)), (pick(k2, 0, 14), pick(a2, 0, 2), pick(b2, 0, 2))])


def h_e_hist2_7(opb: bool, a1: int, b1: int, k2: int, a2: int, b2: int) -> bool:
    """
    pre: 0 <= a1 <= 2 and 0 <= b1 <= 2 and 0 <= k2 <= 14 and 0 <= a2 <= 2 and 0 <= b2 <= 2
    post: _
    """
    return untraced(_history, pickb(opb), [(7, pick(a1, 0, 2), pick(b1, 0, 2)), (pick(k2, 0, 14), pick(a2, 0, 2), pick(b2, 0, 2))])


def h_e_hist2_8(opb: bool, a1: int, b1: int, k2: int, a2: int, b2: int) -> bool:
    """
    pre: 0 <= a1 <= 2 and 0 <= b1 <= 2 and 0 <= k2 <= 14 and 0 <= a2 <= 2 and 0 <= b2 <= 2
    post: _
    """
    return untraced(_history, pickb(opb), [(8, pick(a1, 0, 2), pick(b1, 0, 2)), (pick(k2, 0, 14), pick(a2, 0, 2), pick(b2, 0, 2))])


def h_e_hist2_9(opb: bool, a1: int, b1: int, k2: int, a2: int, b2: int) -> bool:
    """
    pre: 0 <= a1 <= 2 and 0 <= b1 <= 2 and 0 <= k2 <= 14 and 0 <= a2 <= 2 and 0 <= b2 <= 2
    post: _
    """
    return untraced(_history, pickb(opb), [(9, pick(a1, 0, 2), pick(b1, 0, 2)), (pick(k2, 0, 14), pick(a2, 0, 2), pick(b2, 0, 2))])


def h_e_hist2_10(opb: bool, a1: int, b1: int, k2: int, a2: int, b2: int) -> bool:
    """
    pre: 0 <= a1 <= 2 and 0 <= b1 <= 2 and 0 <= k2 <= 14 and 0 <= a2 <= 2 and 0 <= b2 <= 2
    post: _
    """
    return untraced(_history, pickb(opb), [(10, pick(a1, 0, 2), pick(b1, 0, 2)), (pick(k2, 0, 14), pick(a2, 0, 2), pick(b2, 0, 2))])


def _h3(opb, k1, k2, k3, a, b):
    return _history(opb, [(k1, a, b), (k2, 2 - a, b), (k3, a, 2 - b)])


def h_e_hist3_0(opb: bool, k2: int, k3: int, a: int, b: int) -> bool:
    """
    pre: 0 <= k2 <= 14 and 0 <= k3 <= 14 and 0 <= a <= 2 and 0 <= b <= 2
    post: _
    """
    return untraced(_h3, pickb(opb), 0, pick(k2, 0, 14), pick(k3, 0, 14), pick(a, 0, 2), pick(b, 0, 2))


def h_e_hist3_1(opb: bool, k2: int, k3: int, a: int, b: int) -> bool:
    """
    pre: 0 <= k2 <= 14 and 0 <= k3 <= 14 and 0 <= a <= 2 and 0 <= b <= 2
    post: _
    """
    return untraced(_h3, pickb(opb), 1, pick(k2, 0, 14), pick(k3, 0, 14), pick(a, 0, 2), pick(b, 0, 2))


def h_e_hist3_2(opb: bool, k2: int, k3: int, a: int, b: int) -> bool:
    """
    pre: 0 <= k2 <= 14 and 0 <= k3 <= 14 and 0 <= a <= 2 and 0 <= b <= 2
    post: _
    """
    return untraced(_h3, pickb(opb), 2, pick(k2, 0, 14), pick(k3, 0, 14), pick(a, 0, 2), pick(b, 0, 2))


def h_e_hist3_3(opb: bool, k2: int, k3: int, a: int, b: int) -> bool:
    """
    pre: 0 <= k2 <= 14 and 0 <= k3 <= 14 and 0 <= a <= 2 and 0 <= b <= 2
    post: _
    """
    return untraced(_h3, pickb(opb), 3, pick(k2, 0, 14), pick(k3, 0, 14), pick(a, 0, 2), pick(b, 0, 2))


def h_e_hist3_4(opb: bool, k2: int, k3: int, a: int, b: int) -> bool:
    """
    pre: 0 <= k2 <= 14 and 0 <= k3 <= 14 and 0 <= a <= 2 and 0 <= b <= 2
    post: _
    """
    return untraced(_h3, pickb(opb), 4, pick(k2, 0, 14), pick(k3, 0, 14), pick(a, 0, 2), pick(b, 0, 2))


def h_e_hist3_5(opb: bool, k2: int, k3: int, a: int, b: int) -> bool:
    """
    pre: 0 <= k2 <= 14 and 0 <= k3 <= 14 and 0 <= a <= 2 and 0 <= b <= 2
    post: _
    """
    return untraced(_h3, pickb(opb), 5, pick(k2, 0, 14), pick(k3, 0, 14), pick(a, 0, 2), pick(b, 0, 2))


def h_e_hist3_6(opb: bool, k2: int, k3: int, a: int, b: int) -> bool:
    """
    pre: 0 <= k2 <= 14 and 0 <= k3 <= 14 and 0 <= a <= 2 and 0 <= b <= 2
    post: _
    """
    return untraced(_h3, pickb(opb), 6, pick(k2, 0, 14), pick(k3, 0, 14), pick(a, 0, 2), pick(b, 0, 2))


def h_e_hist3_7(opb: bool, k2: int, k3: int, a: int, b: int) -> bool:
    """
    pre: 0 <= k2 <= 14 and 0 <= k3 <= 14 and 0 <= a <= 2 and 0 <= b <= 2
    post: _
    """
    return untraced(_h3, pickb(opb), 7, pick(k2, 0, 14), pick(k3, 0, 14), pick(a, 0, 2), pick(b, 0, 2))


def h_e_hist3_8(opb: bool, k2: int, k3: int, a: int, b: int) -> bool:
    """
    pre: 0 <= k2 <= 14 and 0 <= k3 <= 14 and 0 <= a <= 2 and 0 <= b <= 2
    post: _
    """
    return untraced(_h3, pickb(opb), 8, pick(k2, 0, 14), pick(k3, 0, 14), pick(a, 0, 2), pick(b, 0, 2))


def h_e_hist3_9(opb: bool, k2: int, k3: int, a: int, b: int) -> bool:
    """
    pre: 0 <= k2 <= 14 and 0 <= k3 <= 14 and 0 <= a <= 2 and 0 <= b <= 2
    post: _
    """
    return untraced(_h3, pickb(opb), 9, pick(k2, 0, 14), pick(k3, 0, 14), pick(a, 0, 2), pick(b, 0, 2))


def h_e_hist3_10(opb: bool, k2: int, k3: int, a: int, b: int) -> bool:
    """
    pre: 0 <= k2 <= 14 and 0 <= k3 <= 14 and 0 <= a <= 2 and 0 <= b <= 2
    post: _
    """
    return untraced(_h3, pickb(opb), 10, pick(k2, 0, 14), pick(k3, 0, 14), pick(a, 0, 2), pick(b, 0, 2))


def h_e_hist2_11(opb: bool, a1: int, b1: int, k2: int, a2: int, b2: int) -> bool:
    """
    pre: 0 <= a1 <= 2 and 0 <= b1 <= 2 and 0 <= k2 <= 14 and 0 <= a2 <= 2 and 0 <= b2 <= 2
    post: _
    """
    return untraced(_history, pickb(opb), [(11, pick(a1, 0, 2), pick(b1, 0, 2)), (pick(k2, 0, 14), pick(a2, 0, 2), pick(b2, 0, 2))])


def h_e_hist3_11(opb: bool, k2: int, k3: int, a: int, b: int) -> bool:
    """
    pre: 0 <= k2 <= 14 and 0 <= k3 <= 14 and 0 <= a <= 2 and 0 <= b <= 2
    post: _
    """
    return untraced(_h3, pickb(opb), 11, pick(k2, 0, 14), pick(k3, 0, 14), pick(a, 0, 2), pick(b, 0, 2))


def h_e_hist2_14(opb: bool, a1: int, b1: int, k2: int, a2: int, b2: int) -> bool:
    """
    pre: 0 <= a1 <= 2 and 0 <= b1 <= 2 and 0 <= k2 <= 14 and 0 <= a2 <= 2 and 0 <= b2 <= 2
    post: _
    """
    return untraced(_history, pickb(opb), [(14, pick(a1, 0, 2), pick(b1, 0, 2)), (pick(k2, 0, 14), pick(a2, 0, 2), pick(b2, 0, 2))])


def h_e_hist3_14(opb: bool, k2: int, k3: int, a: int, b: int) -> bool:
    """
    pre: 0 <= k2 <= 14 and 0 <= k3 <= 14 and 0 <= a <= 2 and 0 <= b <= 2
    post: _
    """
    return untraced(_h3, pickb(opb), 14, pick(k2, 0, 14), pick(k3, 0, 14), pick(a, 0, 2), pick(b, 0, 2))


def _twice(kind, a, b, off, opb):
    """two groups of the same shape in two formulas (the second one after `off` other variables): the second group
    hands out its own identifiers, nothing is remembered from the first"""
    def mk(F):
        if kind == 0:
            return F.new_block(a + 1, b + 1)
        if kind == 1:
            return F.new_combinations(a + 2, b + 1)
        if kind == 2:
            return F.new_permutations(a + 1, min(b + 1, a + 1))
        if kind == 3:
            return F.new_words(a + 1, b + 1)
        if kind == 4:
            return F.new_combinations_with_replacement(a + 1, b + 1)
        if kind == 5:
            return F.new_mapping(a + 1, b + 1)
        return F.new_binary_mapping(a + 1, b + 2)
    F1 = OPB() if opb else CNF()
    g1 = mk(F1)
    list(g1())
    F2 = CNF()
    F2.update_variable_number(off)
    g2 = mk(F2)
    ids = list(g2)
    if ids != list(range(off + 1, off + 1 + len(ids))) or len(ids) != len(list(g1)):
        return False
    if sorted(g2()) != ids or sorted(g2.to_dict().values()) != ids:
        return False
    for idx in g2.indices():
        v = g2(*idx)
        if v not in ids or tuple(g2.to_index(v)) != tuple(idx):
            return False
    F2.add_clause([g2(*idx) for idx in g2.indices()][:3])
    return _ok(F2) and F2.number_of_variables() == off + len(ids)


def h_e_twice(kind: int, a: int, b: int, off: int, opb: bool) -> bool:
    """
    pre: 0 <= kind <= 6 and 0 <= a <= 2 and 0 <= b <= 2 and 0 <= off <= 3
    post: _
    """
    return untraced(_twice, pick(kind, 0, 6), pick(a, 0, 2), pick(b, 0, 2), pick(off, 0, 3), pickb(opb))
