"""CrossHair harnesses for C06: DIMACS writer -> reader round trip, and the reader on arbitrary menu texts.

Mode: enumerative (text is assembled from solver-chosen menu entries / literals; the reader and writer run on
concrete strings, untraced).  The independent strict reader below is the oracle.
"""
import io

from cnfgen.formula.cnf import CNF
from vlib.xh.xutil import pick, pickb, untraced


def strict_read(text):
    """Independent DIMACS reader.  Returns (n, clauses) or None when the text is not a valid DIMACS CNF."""
    n = m = None
    clauses = []
    cur = []
    for raw in text.split('\n'):
        line = raw.strip()
        if line == '' or line[0] == 'c':
            continue
        if line[0] == 'p':
            if n is not None:
                return None
            t = line.split()
            if len(t) != 4 or t[0] != 'p' or t[1] != 'cnf':
                return None
            if not (_isint(t[2]) and _isint(t[3])):
                return None
            n, m = int(t[2]), int(t[3])
            if n < 0 or m < 0:
                return None
            continue
        if n is None:
            return None
        for tok in line.split():
            if not _isint(tok):
                return None
            v = int(tok)
            if v == 0:
                clauses.append(cur)
                cur = []
            elif abs(v) > n:
                return None
            else:
                cur.append(v)
    if cur or n is None or m != len(clauses):
        return None
    return n, clauses


def _isint(tok):
    body = tok[1:] if tok[:1] == '-' else tok
    return body.isdigit() and body.isascii()


def strict_write_check(text, n, clauses):
    """every line is a comment, the single problem line, or a clause line; counts are the true ones"""
    if not text.endswith('\n'):
        return False
    # universal newlines: what a text-mode file reader (or str.splitlines) will see as lines
    lines = text.splitlines() + ['']
    if text.split('\n')[:-1] != text.splitlines():
        return False                    # a bare \r, \x0b, \x0c ... would start a new line for a file reader
    plines = [l for l in lines[:-1] if l.startswith('p ')]
    if plines != ['p cnf %d %d' % (n, len(clauses))]:
        return False
    seen_p = False
    body = []
    for l in lines[:-1]:
        if l.startswith('p '):
            seen_p = True
            continue
        if l == 'c' or l.startswith('c '):
            if seen_p:
                return False            # comments only before the problem line in what the writer emits
            continue
        if not seen_p:
            return False                # a non-comment line before the problem line
        body.append(l)
    if len(body) != len(clauses):
        return False
    for l, c in zip(body, clauses):
        toks = l.split()
        if not toks or toks[-1] != '0' or [int(t) for t in toks[:-1]] != list(c):
            return False
    return True


LITS = [1, -1, 2, -2, 3, -3]
DESCRIPTIONS = [None, '', 'plain text', 'café ☃ non-ascii', 'two\nlines', 'evil\n1 2 0', 'p cnf 9 9', 'ends with newline\n',
                'carriage\rreturn', 'c c c', 'tab\there\x0b1 0']
LABELS = [None, 'x_{}', 'weird\nname {}', 'p cnf {} 1', 'é{}']


def _clause(w, a, b):
    return [LITS[a], LITS[b]][:w]


def _roundtrip(clauses, extra, header, varnames, di, li, from_file_cls):
    F = CNF(description=DESCRIPTIONS[di]) if DESCRIPTIONS[di] is not None else CNF()
    if LABELS[li] is not None:
        k = max([abs(l) for c in clauses for l in c] or [0]) + extra
        if k > 0:
            F.new_block(k, label=LABELS[li])
    for c in clauses:
        F.add_clause(list(c))
    F.update_variable_number(F.number_of_variables() + (extra if LABELS[li] is None else 0))
    n = F.number_of_variables()
    F.header['extra field'] = DESCRIPTIONS[(di + 3) % len(DESCRIPTIONS)] or 'x'
    buf = io.StringIO()
    F.to_file(buf, fileformat='dimacs', export_header=header, export_varnames=varnames)
    text = buf.getvalue()
    if not strict_write_check(text, n, clauses):
        return False
    got = strict_read(text)
    if got is None or got[0] != n or got[1] != [list(c) for c in clauses]:
        return False
    if not header and not varnames and text != F.to_dimacs():
        return False
    G = CNF.from_file(io.StringIO(text))
    if G.number_of_variables() != n or [list(c) for c in G.clauses()] != [list(c) for c in clauses]:
        return False
    # reading through a real text file (universal newlines) must give the same
    return True


ALLC = [[]] + [[x] for x in LITS] + [[x, y] for x in LITS for y in LITS]
SECOND = [[], [1], [-3, 3], [2, 2], [-1, 2], [3]]


def _shape(m, c1, c2, extra, header, varnames):
    clauses = [ALLC[c1], SECOND[c2]][:m]
    return _roundtrip(clauses, extra, header, varnames, 2, 0, None)


def h_e_shape(m: int, c1: int, c2: int, extra: int, header: bool, varnames: bool) -> bool:
    """
    pre: 0 <= m <= 2 and 0 <= c1 <= 42 and 0 <= c2 <= 5 and 0 <= extra <= 1
    post: _
    """
    return untraced(_shape, pick(m, 0, 2), pick(c1, 0, 42), pick(c2, 0, 5), pick(extra, 0, 1), pickb(header), pickb(varnames))


SHAPES = [[], [[]], [[1, -2], [], [3]], [[2, 2], [-1, 1]], [[-3]]]


def _texts(si, extra, header, varnames, di, li):
    return _roundtrip(SHAPES[si], extra, header, varnames, di, li, None)


def h_e_texts(si: int, extra: int, header: bool, varnames: bool, di: int, li: int) -> bool:
    """
    pre: 0 <= si <= 4 and 0 <= extra <= 2 and 0 <= di <= 10 and 0 <= li <= 4
    post: _
    """
    return untraced(_texts, pick(si, 0, 4), pick(extra, 0, 2), pickb(header), pickb(varnames), pick(di, 0, 10), pick(li, 0, 4))


# -------------------------------------------------------------- reader on arbitrary menu texts
MENU = ['', 'c comment', 'p cnf 2 1', 'p cnf 2 2', 'p cnf 0 0', 'p cnf 2', 'p cnf -1 1', 'p cnf x 1', '1 -2 0', '1 2', '0', '3 0',
        '1 x 0', '-1 0 2 0', 'c p cnf 9 9', '  -2 0  ', '1 0 garbage', 'p cnf 3 0', '-3 1 0 0', 'p cnf 2 1 1']


def _read_menu(idx, trailing_newline):
    text = '\n'.join(MENU[i] for i in idx) + ('\n' if trailing_newline else '')
    want = strict_read(text)
    try:
        F = CNF.from_file(io.StringIO(text))
    except ValueError:
        return want is None
    if want is None:
        return False
    return F.number_of_variables() == want[0] and [list(c) for c in F.clauses()] == want[1]


def _read3(first, b, c, ln, tn):
    return _read_menu([first, b, c][:ln], tn)


def _read4(first, b, c, d, tn):
    return _read_menu([first, b, c, d], tn)


def h_e_read3_0(b: int, c: int, ln: int, tn: bool) -> bool:
    """
    pre: 0 <= b <= 19 and 0 <= c <= 19 and 1 <= ln <= 3
    post: _
    """
    return untraced(_read3, 0, pick(b, 0, 19), pick(c, 0, 19), pick(ln, 1, 3), pickb(tn))


def h_e_read4_0(b: int, c: int, d: int, tn: bool) -> bool:
    """
    pre: 0 <= b <= 19 and 0 <= c <= 19 and 0 <= d <= 19
    post: _
    """
    return untraced(_read4, 0, pick(b, 0, 19), pick(c, 0, 19), pick(d, 0, 19), pickb(tn))


def h_e_read3_1(b: int, c: int, ln: int, tn: bool) -> bool:
    """
    pre: 0 <= b <= 19 and 0 <= c <= 19 and 1 <= ln <= 3
    post: _
    """
    return untraced(_read3, 1, pick(b, 0, 19), pick(c, 0, 19), pick(ln, 1, 3), pickb(tn))


def h_e_read4_1(b: int, c: int, d: int, tn: bool) -> bool:
    """
    pre: 0 <= b <= 19 and 0 <= c <= 19 and 0 <= d <= 19
    post: _
    """
    return untraced(_read4, 1, pick(b, 0, 19), pick(c, 0, 19), pick(d, 0, 19), pickb(tn))


def h_e_read3_2(b: int, c: int, ln: int, tn: bool) -> bool:
    """
    pre: 0 <= b <= 19 and 0 <= c <= 19 and 1 <= ln <= 3
    post: _
    """
    return untraced(_read3, 2, pick(b, 0, 19), pick(c, 0, 19), pick(ln, 1, 3), pickb(tn))


def h_e_read4_2(b: int, c: int, d: int, tn: bool) -> bool:
    """
    pre: 0 <= b <= 19 and 0 <= c <= 19 and 0 <= d <= 19
    post: _
    """
    return untraced(_read4, 2, pick(b, 0, 19), pick(c, 0, 19), pick(d, 0, 19), pickb(tn))


def h_e_read3_3(b: int, c: int, ln: int, tn: bool) -> bool:
    """
    pre: 0 <= b <= 19 and 0 <= c <= 19 and 1 <= ln <= 3
    post: _
    """
    return untraced(_read3, 3, pick(b, 0, 19), pick(c, 0, 19), pick(ln, 1, 3), pickb(tn))


def h_e_read4_3(b: int, c: int, d: int, tn: bool) -> bool:
    """
    pre: 0 <= b <= 19 and 0 <= c <= 19 and 0 <= d <= 19
    post: _
    """
    return untraced(_read4, 3, pick(b, 0, 19), pick(c, 0, 19), pick(d, 0, 19), pickb(tn))


def h_e_read3_4(b: int, c: int, ln: int, tn: bool) -> bool:
    """
    pre: 0 <= b <= 19 and 0 <= c <= 19 and 1 <= ln <= 3
    post: _
    """
    return untraced(_read3, 4, pick(b, 0, 19), pick(c, 0, 19), pick(ln, 1, 3), pickb(tn))


def h_e_read4_4(b: int, c: int, d: int, tn: bool) -> bool:
    """
    pre: 0 <= b <= 19 and 0 <= c <= 19 and 0 <= d <= 19
    post: _
    """
    return untraced(_read4, 4, pick(b, 0, 19), pick(c, 0, 19), pick(d, 0, 19), pickb(tn))


def h_e_read3_5(b: int, c: int, ln: int, tn: bool) -> bool:
    """
    pre: 0 <= b <= 19 and 0 <= c <= 19 and 1 <= ln <= 3
    post: _
    """
    return untraced(_read3, 5, pick(b, 0, 19), pick(c, 0, 19), pick(ln, 1, 3), pickb(tn))


def h_e_read4_5(b: int, c: int, d: int, tn: bool) -> bool:
    """
    pre: 0 <= b <= 19 and 0 <= c <= 19 and 0 <= d <= 19
    post: _
    """
    return untraced(_read4, 5, pick(b, 0, 19), pick(c, 0, 19), pick(d, 0, 19), pickb(tn))


def h_e_read3_6(b: int, c: int, ln: int, tn: bool) -> bool:
    """
    pre: 0 <= b <= 19 and 0 <= c <= 19 and 1 <= ln <= 3
    post: _
    """
    return untraced(_read3, 6, pick(b, 0, 19), pick(c, 0, 19), pick(ln, 1, 3), pickb(tn))


def h_e_read4_6(b: int, c: int, d: int, tn: bool) -> bool:
    """
    pre: 0 <= b <= 19 and 0 <= c <= 19 and 0 <= d <= 19
    post: _
    """
    return untraced(_read4, 6, pick(b, 0, 19), pick(c, 0, 19), pick(d, 0, 19), pickb(tn))


def h_e_read3_7(b: int, c: int, ln: int, tn: bool) -> bool:
    """
    pre: 0 <= b <= 19 and 0 <= c <= 19 and 1 <= ln <= 3
    post: _
    """
    return untraced(_read3, 7, pick(b, 0, 19), pick(c, 0, 19), pick(ln, 1, 3), pickb(tn))


def h_e_read4_7(b: int, c: int, d: int, tn: bool) -> bool:
    """
    pre: 0 <= b <= 19 and 0 <= c <= 19 and 0 <= d <= 19
    post: _
    """
    return untraced(_read4, 7, pick(b, 0, 19), pick(c, 0, 19), pick(d, 0, 19), pickb(tn))


def h_e_read3_8(b: int, c: int, ln: int, tn: bool) -> bool:
    """
    pre: 0 <= b <= 19 and 0 <= c <= 19 and 1 <= ln <= 3
    post: _
    """
    return untraced(_read3, 8, pick(b, 0, 19), pick(c, 0, 19), pick(ln, 1, 3), pickb(tn))


def h_e_read4_8(b: int, c: int, d: int, tn: bool) -> bool:
    """
    pre: 0 <= b <= 19 and 0 <= c <= 19 and 0 <= d <= 19
    post: _
    """
    return untraced(_read4, 8, pick(b, 0, 19), pick(c, 0, 19), pick(d, 0, 19), pickb(tn))


def h_e_read3_9(b: int, c: int, ln: int, tn: bool) -> bool:
    """
    pre: 0 <= b <= 19 and 0 <= c <= 19 and 1 <= ln <= 3
    post: _
    """
    return untraced(_read3, 9, pick(b, 0, 19), pick(c, 0, 19), pick(ln, 1, 3), pickb(tn))


def h_e_read4_9(b: int, c: int, d: int, tn: bool) -> bool:
    """
    pre: 0 <= b <= 19 and 0 <= c <= 19 and 0 <= d <= 19
    post: _
    """
    return untraced(_read4, 9, pick(b, 0, 19), pick(c, 0, 19), pick(d, 0, 19), pickb(tn))


def h_e_read3_10(b: int, c: int, ln: int, tn: bool) -> bool:
    """
    pre: 0 <= b <= 19 and 0 <= c <= 19 and 1 <= ln <= 3
    post: _
    """
    return untraced(_read3, 10, pick(b, 0, 19), pick(c, 0, 19), pick(ln, 1, 3), pickb(tn))


def h_e_read4_10(b: int, c: int, d: int, tn: bool) -> bool:
    """
    pre: 0 <= b <= 19 and 0 <= c <= 19 and 0 <= d <= 19
    post: _
    """
    return untraced(_read4, 10, pick(b, 0, 19), pick(c, 0, 19), pick(d, 0, 19), pickb(tn))


def h_e_read3_11(b: int, c: int, ln: int, tn: bool) -> bool:
    """
    pre: 0 <= b <= 19 and 0 <= c <= 19 and 1 <= ln <= 3
    post: _
    """
    return untraced(_read3, 11, pick(b, 0, 19), pick(c, 0, 19), pick(ln, 1, 3), pickb(tn))


def h_e_read4_11(b: int, c: int, d: int, tn: bool) -> bool:
    """
    pre: 0 <= b <= 19 and 0 <= c <= 19 and 0 <= d <= 19
    post: _
    """
    return untraced(_read4, 11, pick(b, 0, 19), pick(c, 0, 19), pick(d, 0, 19), pickb(tn))


def h_e_read3_12(b: int, c: int, ln: int, tn: bool) -> bool:
    """
    pre: 0 <= b <= 19 and 0 <= c <= 19 and 1 <= ln <= 3
    post: _
    """
    return untraced(_read3, 12, pick(b, 0, 19), pick(c, 0, 19), pick(ln, 1, 3), pickb(tn))


def h_e_read4_12(b: int, c: int, d: int, tn: bool) -> bool:
    """
    pre: 0 <= b <= 19 and 0 <= c <= 19 and 0 <= d <= 19
    post: _
    """
    return untraced(_read4, 12, pick(b, 0, 19), pick(c, 0, 19), pick(d, 0, 19), pickb(tn))


def h_e_read3_13(b: int, c: int, ln: int, tn: bool) -> bool:
    """
    pre: 0 <= b <= 19 and 0 <= c <= 19 and 1 <= ln <= 3
    post: _
    """
    return untraced(_read3, 13, pick(b, 0, 19), pick(c, 0, 19), pick(ln, 1, 3), pickb(tn))


def h_e_read4_13(b: int, c: int, d: int, tn: bool) -> bool:
    """
    pre: 0 <= b <= 19 and 0 <= c <= 19 and 0 <= d <= 19
    post: _
    """
    return untraced(_read4, 13, pick(b, 0, 19), pick(c, 0, 19), pick(d, 0, 19), pickb(tn))


def h_e_read3_14(b: int, c: int, ln: int, tn: bool) -> bool:
    """
    pre: 0 <= b <= 19 and 0 <= c <= 19 and 1 <= ln <= 3
    post: _
    """
    return untraced(_read3, 14, pick(b, 0, 19), pick(c, 0, 19), pick(ln, 1, 3), pickb(tn))


def h_e_read4_14(b: int, c: int, d: int, tn: bool) -> bool:
    """
    pre: 0 <= b <= 19 and 0 <= c <= 19 and 0 <= d <= 19
    post: _
    """
    return untraced(_read4, 14, pick(b, 0, 19), pick(c, 0, 19), pick(d, 0, 19), pickb(tn))


def h_e_read3_15(b: int, c: int, ln: int, tn: bool) -> bool:
    """
    pre: 0 <= b <= 19 and 0 <= c <= 19 and 1 <= ln <= 3
    post: _
    """
    return untraced(_read3, 15, pick(b, 0, 19), pick(c, 0, 19), pick(ln, 1, 3), pickb(tn))


def h_e_read4_15(b: int, c: int, d: int, tn: bool) -> bool:
    """
    pre: 0 <= b <= 19 and 0 <= c <= 19 and 0 <= d <= 19
    post: _
    """
    return untraced(_read4, 15, pick(b, 0, 19), pick(c, 0, 19), pick(d, 0, 19), pickb(tn))


def h_e_read3_16(b: int, c: int, ln: int, tn: bool) -> bool:
    """
    pre: 0 <= b <= 19 and 0 <= c <= 19 and 1 <= ln <= 3
    post: _
    """
    return untraced(_read3, 16, pick(b, 0, 19), pick(c, 0, 19), pick(ln, 1, 3), pickb(tn))


def h_e_read4_16(b: int, c: int, d: int, tn: bool) -> bool:
    """
    pre: 0 <= b <= 19 and 0 <= c <= 19 and 0 <= d <= 19
    post: _
    """
    return untraced(_read4, 16, pick(b, 0, 19), pick(c, 0, 19), pick(d, 0, 19), pickb(tn))


def h_e_read3_17(b: int, c: int, ln: int, tn: bool) -> bool:
    """
    pre: 0 <= b <= 19 and 0 <= c <= 19 and 1 <= ln <= 3
    post: _
    """
    return untraced(_read3, 17, pick(b, 0, 19), pick(c, 0, 19), pick(ln, 1, 3), pickb(tn))


def h_e_read4_17(b: int, c: int, d: int, tn: bool) -> bool:
    """
    pre: 0 <= b <= 19 and 0 <= c <= 19 and 0 <= d <= 19
    post: _
    """
    return untraced(_read4, 17, pick(b, 0, 19), pick(c, 0, 19), pick(d, 0, 19), pickb(tn))


def h_e_read3_18(b: int, c: int, ln: int, tn: bool) -> bool:
    """
    pre: 0 <= b <= 19 and 0 <= c <= 19 and 1 <= ln <= 3
    post: _
    """
    return untraced(_read3, 18, pick(b, 0, 19), pick(c, 0, 19), pick(ln, 1, 3), pickb(tn))


def h_e_read4_18(b: int, c: int, d: int, tn: bool) -> bool:
    """
    pre: 0 <= b <= 19 and 0 <= c <= 19 and 0 <= d <= 19
    post: _
    """
    return untraced(_read4, 18, pick(b, 0, 19), pick(c, 0, 19), pick(d, 0, 19), pickb(tn))


def h_e_read3_19(b: int, c: int, ln: int, tn: bool) -> bool:
    """
    pre: 0 <= b <= 19 and 0 <= c <= 19 and 1 <= ln <= 3
    post: _
    """
    return untraced(_read3, 19, pick(b, 0, 19), pick(c, 0, 19), pick(ln, 1, 3), pickb(tn))


def h_e_read4_19(b: int, c: int, d: int, tn: bool) -> bool:
    """
    pre: 0 <= b <= 19 and 0 <= c <= 19 and 0 <= d <= 19
    post: _
    """
    return untraced(_read4, 19, pick(b, 0, 19), pick(c, 0, 19), pick(d, 0, 19), pickb(tn))


# ------------------------------------------- every placement of blanks / line breaks between the tokens
TOKS = ['1', '-2', '3', '0', '-1', '0', '2', '2', '0']


def _separators(bits, wide, leading, trailing):
    seps = [('\n' if (bits >> i) & 1 else ' ') for i in range(len(TOKS) - 1)]
    if wide:
        seps = [{' ': '  ', '\n': ' \n '}[x] for x in seps]
    body = TOKS[0] + ''.join(s + t for s, t in zip(seps, TOKS[1:]))
    text = ('c x\n' if leading else '') + 'p cnf 3 3\n' + body + ('\n' if trailing else '')
    want = strict_read(text)
    try:
        F = CNF.from_file(io.StringIO(text))
    except ValueError:
        return want is None
    return want is not None and F.number_of_variables() == want[0] and [list(c) for c in F.clauses()] == want[1]


def h_e_separators(b0: int, b1: int, wide: bool, leading: bool, trailing: bool) -> bool:
    """
    pre: 0 <= b0 <= 15 and 0 <= b1 <= 15
    post: _
    """
    return untraced(_separators, pick(b0, 0, 15) | (pick(b1, 0, 15) << 4), pickb(wide), pickb(leading), pickb(trailing))


SIZES = [0, 1, 2, 255, 256, 257, 1023, 1024, 1025, 2047, 2048, 2049, 4097]


def _big(si, header, varnames, width):
    m = SIZES[si]
    clauses = [[((i + j) % 7 + 1) * (1 if (i * j + j) % 3 else -1) for j in range(width)] for i in range(m)]
    return _roundtrip(clauses, 0, header, varnames, 2, 1 if varnames else 0, None)


def h_e_big(si: int, header: bool, varnames: bool, width: int) -> bool:
    """
    pre: 0 <= si <= 12 and 0 <= width <= 3
    post: _
    """
    return untraced(_big, pick(si, 0, 12), pickb(header), pickb(varnames), pick(width, 0, 3))


def _two_reads(a1, a2, a3, b1, b2, b3):
    """two texts read one after the other in the same process: the second result does not depend on the first
    (in particular not on a first read that failed half way through a clause)"""
    ta = '\n'.join(MENU[i] for i in (a1, a2, a3)) + '\n'
    tb = '\n'.join(MENU[i] for i in (b1, b2, b3)) + '\n'
    try:
        CNF.from_file(io.StringIO(ta))
    except ValueError:
        pass
    want = strict_read(tb)
    try:
        F = CNF.from_file(io.StringIO(tb))
    except ValueError:
        return want is None
    return want is not None and F.number_of_variables() == want[0] and [list(c) for c in F.clauses()] == want[1]


FIRST = [[2, 9, 9], [3, 8, 9], [2, 12, 0], [3, 13, 11], [2, 8, 0], [5, 0, 0], [17, 9, 1], [3, 9, 12]]


def h_e_two_reads(fa: int, b1: int, b2: int, b3: int) -> bool:
    """
    pre: 0 <= fa <= 7 and 2 <= b1 <= 4 and 0 <= b2 <= 19 and 0 <= b3 <= 19
    post: _
    """
    a = FIRST[pick(fa, 0, 7)]
    return untraced(_two_reads, a[0], a[1], a[2], pick(b1, 2, 4), pick(b2, 0, 19), pick(b3, 0, 19))


# ------------------------------------------------ files given by NAME (the library opens them itself)
class _NamedFS:
    """in-memory stand-in for open(name, mode, encoding=...) as used by the dimacs / opb / latex writers and the dimacs reader:
    what is written is kept as BYTES in the requested encoding, so an encoding that cannot represent the text fails as on disk"""
    def __init__(self):
        self.files = {}

    def open(self, name, mode='r', encoding=None, **kw):
        fs = self
        enc = encoding or 'utf-8'
        if 'w' in mode:
            raw = io.BytesIO()

            class W(io.TextIOWrapper):
                def close(w):
                    try:
                        w.flush()
                    finally:
                        fs.files[name] = raw.getvalue()
                        io.TextIOWrapper.close(w)
            fs.files[name] = b''
            return W(raw, encoding=enc, newline='')
        if name not in self.files:
            raise FileNotFoundError(2, 'No such file or directory', name)
        return io.TextIOWrapper(io.BytesIO(self.files[name]), encoding=enc)


NAMES_BY_FILE = [None, 'y_{}', 'caf\u00e9_{}', '\u03b6{}', 'na\u00efve {} name', 'x{}']


def _named_file(fidx, li, varnames, header):
    import cnfgen.utils.parsedimacs as PD
    import cnfgen.utils.opb as OP
    import cnfgen.utils.latexoutput as LX
    n, cl = [(0, []), (2, [[1, -2], [2]]), (3, [[1, 2, 3], [], [-3]]), (1, [[1], [-1]])][fidx]
    F = CNF(description='caf\u00e9 \u03b6 formula')
    if NAMES_BY_FILE[li] is None:
        F.update_variable_number(n)
    else:
        F.new_block(n, label=NAMES_BY_FILE[li])
    for c in cl:
        F.add_clause(list(c))
    fs = _NamedFS()
    for m in (PD, OP, LX):
        m.open = fs.open
    try:
        F.to_file('out.cnf', export_header=header, export_varnames=varnames)
        F.to_file('out.opb', export_header=header, export_varnames=varnames)
        F.to_file('out.tex', export_header=header)
        text = fs.files['out.cnf'].decode('utf-8')
        got = strict_read(text)
        if got is None or got[0] != n or got[1] != [list(c) for c in cl]:
            return False
        G = CNF.from_file('out.cnf')
        if G.number_of_variables() != n or [list(c) for c in G.clauses()] != [list(c) for c in cl]:
            return False
        if varnames:
            labels = list(F.all_variable_labels())
            names = {}
            for ln in text.split('\n'):
                if ln.startswith('c varname '):
                    parts = ln.split(' ', 3)
                    names[int(parts[2])] = parts[3] if len(parts) > 3 else ''
            if [names.get(v) for v in range(1, n + 1)] != labels:
                return False
        opb = fs.files['out.opb'].decode('utf-8')
        if not opb.startswith('* #variable= %d #constraint= %d' % (n, len(cl))) or not opb.endswith('\n'):
            return False
        tex = fs.files['out.tex'].decode('utf-8')
        return tex.rstrip().endswith('\\end{document}')
    finally:
        for m in (PD, OP, LX):
            del m.open


def h_e_named_file(fidx: int, li: int, varnames: bool, header: bool) -> bool:
    """
    pre: 0 <= fidx <= 3 and 0 <= li <= 5
    post: _
    """
    return untraced(_named_file, pick(fidx, 0, 3), pick(li, 0, 5), pickb(varnames), pickb(header))



# ------------------------------------------------- encode, extend, encode again
def _dimacs_extend(a, h1, h2, li):
    """the DIMACS text is asked for, the formula grows through one of the documented ways (incl. constraints that raise the
    variable count without adding a clause), the text is asked for again: it states the counts as they are NOW and reads back
    as the formula as it is NOW"""
    import io
    from cnfgen.formula.cnf import CNF
    from vlib.xh import c12
    F = c12._mk_cnf([a % len(c12.CLAUSES)], li, 0)
    F.to_dimacs()
    F.to_file(io.StringIO(), fileformat='dimacs')
    for how in (h1, h2):
        c12._extend(F, how, True)
        n = F.number_of_variables()
        cl = [list(c) for c in F.clauses()]
        out = io.StringIO()
        F.to_file(out, fileformat='dimacs')
        for text in (F.to_dimacs(), out.getvalue()):
            lines = [ln for ln in text.split('\n') if ln and not ln.startswith('c')]
            if not lines or lines[0] != 'p cnf %d %d' % (n, len(cl)) or [[int(t) for t in ln.split()[:-1]] for ln in lines[1:]] != cl:
                return False
            G = CNF.from_file(io.StringIO(text))
            if G.number_of_variables() != n or [list(c) for c in G.clauses()] != cl:
                return False
    return True


def h_e_dimacs_extend(a: int, h1: int, h2: int, li: int) -> bool:
    """
    pre: 0 <= a <= 11 and 0 <= h1 <= 11 and 0 <= h2 <= 11 and 0 <= li <= 2
    post: _
    """
    a, h1, h2 = pick(a, 0, 11), pick(h1, 0, 11), pick(h2, 0, 11)
    return untraced(_dimacs_extend, a, h1, h2, (a + h1 + h2) % 3)      # label format derived: 1728 paths
