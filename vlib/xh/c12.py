"""CrossHair harnesses for C12: OPB and LaTeX renderings denote the formula held in memory.

Mode: enumerative (formulas are assembled from solver-chosen menu entries; the writers run on concrete data,
untraced).  Oracles: an independent strict OPB reader and a LaTeX row reader written for the check.
"""
import io
import re

from cnfgen.formula.cnf import CNF
from cnfgen.formula.opb import OPB
from cnfgen.formula.cnfio import guess_output_format
from vlib.xh.xutil import pick, pickb, untraced
from vlib.xh.c06 import strict_read as strict_read_dimacs

# constraints as given to add_constraint (before normalisation); None = add_clause([]) ; list of ints = add_clause
ROWS = [
    None,
    [1, -2],
    [[1, 1], '>=', 1],
    [[2, 1], [3, -2], '==', 3],
    [[1, 3], [-2, 2], [1, 1], '>', 3],
    [[-3, -1], '<=', -2],
    [[1, 2], [1, -2], '>=', 0],
    [[3, 3], [2, -1], [1, 2], '<', 4],
    [[1, 1], '==', -2],
    [[2, -3], [2, 3], '==', 2],
    [-3],
    [[1, 1], [1, 2], [1, 3], '<=', 1],
]
CLAUSES = [[], [1], [-1, 2], [3, -3], [2, 2, -1], [-3, -2, -1], [1, 2, 3]]
LABELS = [None, 'y_{}', 'p_{{{},7}}', 'a^{}', 'in stock {}', 'q{}_b^c']
NOTES = ['plain', 'two\nlines', 'carriage\rreturn +1 x1 >= 1', 'form\x0cfeed', 'unit\x1cseparator', 'caf\u00e9', '* star', '']
SINGLES = ['y', 'z', 'w', 'u', 'v']


def strict_opb(text):
    """Independent OPB reader: (n, m, rows) with rows = ([(coeff, lit)...], op, degree); None if malformed.
    Everything that is not a constraint must be a comment line starting with '*'."""
    lines = text.split('\n')
    if not lines or lines[-1] != '':
        return None
    lines = lines[:-1]
    if not lines:
        return None
    if lines != text.splitlines():
        return None          # a bare \r, \x0b, \x0c ... starts a new line for a text-mode file reader
    m0 = re.fullmatch(r'\* #variable= (\d+) #constraint= (\d+)', lines[0])
    if not m0:
        return None
    n, m = int(m0.group(1)), int(m0.group(2))
    rows = []
    for ln in lines[1:]:
        if ln.startswith('*'):
            continue
        toks = ln.rstrip(';').split()
        if len(toks) < 2 or toks[-2] not in ('>=', '='):
            return None
        if not re.fullmatch(r'[+-]?\d+', toks[-1]):
            return None
        body = toks[:-2]
        if len(body) % 2:
            return None
        terms = []
        for i in range(0, len(body), 2):
            if not re.fullmatch(r'[+-]\d+', body[i]):
                return None
            mv = re.fullmatch(r'(~?)x(\d+)', body[i + 1])
            if not mv or int(mv.group(2)) == 0:
                return None
            v = int(mv.group(2))
            terms.append((int(body[i]), -v if mv.group(1) else v))
        rows.append((terms, toks[-2], int(toks[-1])))
    return n, m, rows


def _expected_rows(F, is_cnf):
    if is_cnf:
        return [([(1, l) for l in c], '>=', 1) for c in F.clauses()]
    return [([(c, l) for (c, l) in r[:-2]], '>=' if r[-2] == '>=' else '=', r[-1]) for r in F.constraints()]


def _opb_ok(F, is_cnf, header, varnames):
    buf = io.StringIO()
    F.to_file(buf, fileformat='opb', export_header=header, export_varnames=varnames)
    got = strict_opb(buf.getvalue())
    if got is None:
        return False
    n, m, rows = got
    want = _expected_rows(F, is_cnf)
    if n != F.number_of_variables() or m != len(want) or rows != want:
        return False
    for terms, op, d in rows:
        for c, l in terms:
            if abs(l) > n:
                return False
    if not header and not varnames and buf.getvalue() != F.to_opb():
        return False
    if varnames:
        names = {}
        for ln in buf.getvalue().split('\n'):
            if ln.startswith('* varname x'):
                parts = ln.split(' ', 3)
                names[int(parts[2][1:])] = parts[3] if len(parts) > 3 else ''
        labels = list(F.all_variable_labels())
        for v in range(1, n + 1):
            if names.get(v) != labels[v - 1]:
                return False
    return True


# -------------------------------------------------------------------- LaTeX row reader
def _norm(s):
    # braces are grouping only; blanks INSIDE a name are part of the name (runs of blanks count as one), padding around it is not
    return ' '.join(s.replace('{', ' ').replace('}', ' ').split()).replace(' _', '_').replace('_ ', '_').replace(' ^', '^').replace('^ ', '^')


def _latex_rows(text):
    """rows of every align block: list of (row text, page) ; also the number of page breaks"""
    blocks = re.findall(r'\\begin\{align\}(.*?)\n\\end\{align\}', text, flags=re.S)
    rows = []
    for bi, b in enumerate(blocks):
        parts = b.split('\\\\\n')
        for p in parts:
            rows.append((p.strip(), bi))
    return rows, len(blocks), text.count('\\pagebreak')


def _parse_lit(term, names):
    neg = '\\overline' in term
    if neg:
        m = re.search(r'\\overline\{([^{}]*(?:\{[^{}]*\}[^{}]*)*)\}', term)
        if not m or _norm(m.group(1)) == '':
            return None                   # an overline over nothing does not show the polarity
    key = _norm(term.replace('\\overline', ''))
    cands = [v for v, nm in names.items() if _norm(nm) == key]
    if len(cands) != 1:
        return None
    if neg and not _norm(names[cands[0]]).startswith(_norm(m.group(1))):
        return None                       # the overlined part is the beginning of the variable's name
    return -cands[0] if neg else cands[0]


def _latex_ok(F, is_cnf, document, header):
    names = {v: nm for v, nm in enumerate(F.all_variable_labels(default_label_format='x_{}'), start=1)}
    if len({_norm(x) for x in names.values()}) != len(names):
        return True                      # ambiguous names: outside what a reader can tell apart
    if document:
        buf = io.StringIO()
        F.to_file(buf, fileformat='latex', export_header=header)
        text = buf.getvalue()
        if not text.startswith('%') or not text.rstrip().endswith('\\end{document}') or '\\begin{document}' not in text:
            return False
    else:
        text = F.to_latex()
    rows, nblocks, nbreaks = _latex_rows(text)
    data = list(F.clauses()) if is_cnf else list(F.constraints())
    if len(data) == 0:
        return [r for r, _ in rows] == ['\\top'] and nblocks == 1
    if '\\top' in text.split('\\begin{align}', 1)[1]:
        return False
    if len(rows) != len(data):
        return False
    for i, ((row, blk), item) in enumerate(zip(rows, data)):
        if document:
            if blk != i // 35:
                return False              # a new page (align block) exactly every 35 rows
        elif blk != 0:
            return False
        if not row.startswith('&'):
            return False
        body = row[1:].strip()
        if is_cnf:
            if body.startswith('\\land'):
                if i == 0 or document:
                    return False
                body = body[len('\\land'):].strip()
            elif i != 0 and not document:
                return False
            if len(item) == 0:
                if body != '\\square':
                    return False
                continue
            if '\\square' in body:
                return False
            if not document:
                if not (body.startswith('\\left(') and body.endswith('\\right)')):
                    return False
                body = body[len('\\left('):-len('\\right)')]
            lits = [_parse_lit(t.strip(), names) for t in body.split('\\lor')]
            if None in lits or sorted(lits) != sorted(item):
                return False
        else:
            terms, op, deg = item[:-2], item[-2], item[-1]
            if '\\geq' in body:
                lhs, rhs = body.split('\\geq')
                gop = '>='
            else:
                lhs, rhs = body.rsplit('=', 1)
                gop = '=='
            if gop != op or int(rhs.strip()) != deg:
                return False
            if len(terms) == 0:
                if lhs.strip() != '0':
                    return False
                continue
            got = []
            for t in lhs.split(' + '):
                t = t.strip()
                mm = re.match(r'^(\d+)', t)
                coef = int(mm.group(1)) if mm else 1
                lit = _parse_lit(t[len(mm.group(1)):] if mm else t, names)
                if lit is None:
                    return False
                got.append((coef, lit))
            if sorted(got) != sorted((c, l) for (c, l) in terms):
                return False
    if document and nbreaks != (len(data) - 1) // 35:
        return False
    if not document and nbreaks != 0:
        return False
    return True


def _decorate(F, idx, li, extra):
    F.header['note'] = NOTES[(sum(idx) + li + extra) % len(NOTES)]
    F.header['description'] = 'formula ' + NOTES[(len(idx) + li) % len(NOTES)]


def _declare(F, li, extra):
    k = 3 + extra
    if li == 0 and extra:
        for nm in SINGLES[:k]:
            F.new_variable(nm)        # single-letter names without sub/superscript
    elif LABELS[li] is not None:
        F.new_block(k, label=LABELS[li])
    else:
        F.update_variable_number(k)


def _mk_opb(idx, li, extra):
    F = OPB()
    _declare(F, li, extra)
    _decorate(F, idx, li, extra)
    for i in idx:
        r = ROWS[i]
        if r is None:
            F.add_clause([])
        elif isinstance(r[0], int):
            F.add_clause(list(r))
        else:
            F.add_constraint([tuple(t) if isinstance(t, list) else t for t in r])
    return F


def _mk_cnf(idx, li, extra):
    F = CNF()
    _declare(F, li, extra)
    _decorate(F, idx, li, extra)
    for i in idx:
        F.add_clause(list(CLAUSES[i]))
    return F


def _opb_formula(a, b, c, ln, li, extra, header, varnames, document):
    F = _mk_opb([a, b, c][:ln], li, extra)
    return _opb_ok(F, False, header, varnames) and _latex_ok(F, False, document, header)


def _cnf_formula(a, b, c, ln, li, extra, header, varnames, document):
    F = _mk_cnf([a, b, c][:ln], li, extra)
    return _opb_ok(F, True, header, varnames) and _latex_ok(F, True, document, header)


def _pages(size, is_cnf, li):
    if is_cnf:
        F = _mk_cnf([(i * 3 + 1) % len(CLAUSES) for i in range(size)], li, 0)
    else:
        F = _mk_opb([(i * 5 + 1) % len(ROWS) for i in range(size)], li, 0)
    return _latex_ok(F, is_cnf, True, True) and _latex_ok(F, is_cnf, False, False) and _opb_ok(F, is_cnf, True, True)


SIZES = [0, 1, 2, 34, 35, 36, 69, 70, 71, 105, 106]


OPB_SIZES = [63, 64, 65, 127, 128, 129, 255, 256, 257, 511, 512, 513, 1023, 1024, 1025, 1536, 2048]


def _opb_sizes(size, is_cnf, li):
    """row counts at and around powers of two (block-wise writers): declared counts and every row, as text and as file"""
    if is_cnf:
        F = _mk_cnf([(i * 3 + 1) % len(CLAUSES) for i in range(size)], li, 0)
    else:
        F = _mk_opb([(i * 5 + 1) % len(ROWS) for i in range(size)], li, 0)
    if not (_opb_ok(F, is_cnf, True, True) and _opb_ok(F, is_cnf, False, False)):
        return False
    if is_cnf:
        got = strict_read_dimacs(F.to_dimacs())
        return got is not None and got[0] == F.number_of_variables() and got[1] == [list(c) for c in F.clauses()]
    return True


def h_e_opb_sizes(si: int, is_cnf: bool, li: int) -> bool:
    """
    pre: 0 <= si <= 16 and 0 <= li <= 1
    post: _
    """
    return untraced(_opb_sizes, OPB_SIZES[pick(si, 0, 16)], pickb(is_cnf), pick(li, 0, 1))


WIDTHS = [19, 20, 21, 24, 40, 41]


def _wide(wi, is_cnf, li):
    """one wide row (19..41 literals / terms) among short ones: still one row per clause or constraint, every literal shown"""
    w = WIDTHS[wi]
    F = CNF() if is_cnf else OPB()
    if LABELS[li] is None:
        F.update_variable_number(w)
    else:
        F.new_block(w, label=LABELS[li])
    lits = [(v if v % 3 else -v) for v in range(1, w + 1)]
    if is_cnf:
        F.add_clause([1, -2])
        F.add_clause(lits)
        F.add_clause([-w])
    else:
        F.add_constraint([(1, 1), (2, -2), '>=', 1])
        F.add_constraint([(1 + (abs(l) % 3), l) for l in lits] + ['>=', w // 2])
        F.add_clause(lits)
    return _latex_ok(F, is_cnf, True, True) and _latex_ok(F, is_cnf, False, False) and _opb_ok(F, is_cnf, True, True)


def h_e_wide(wi: int, is_cnf: bool, li: int) -> bool:
    """
    pre: 0 <= wi <= 5 and 0 <= li <= 5
    post: _
    """
    return untraced(_wide, pick(wi, 0, 5), pickb(is_cnf), pick(li, 0, 5))


def h_e_pages(si: int, is_cnf: bool, li: int) -> bool:
    """
    pre: 0 <= si <= 10 and 0 <= li <= 5
    post: _
    """
    return untraced(_pages, SIZES[pick(si, 0, 10)], pickb(is_cnf), pick(li, 0, 5))


EXTENDERS = 9


def _extend(F, how, is_cnf):
    """one more step of building, through each of the documented ways a formula grows"""
    if how == 0:
        F.add_clause([1, -2])
    elif how == 1:
        F.add_clause([])
    elif how == 2:
        F.new_variable('late')
    elif how == 3:
        F.update_variable_number(F.number_of_variables() + 2)
    elif how == 4:
        F.add_parity([1, 2, 3], 1)
    elif how == 5:
        F.add_clauses_from([[3], [-1, -3]])
    elif how == 6:
        f = F.new_mapping(2, 2)
        F.force_functional_mapping(f)
    elif how == 7:
        if is_cnf:
            F.add_linear([1, 2, -3], '!=', 1)
        else:
            F.cardinality_neq([1, 2, -3], 1)
    elif how == 8:
        if is_cnf:
            F.add_strict_majority([1, 2, 3])
        else:
            F.add_constraint([(2, 1), (1, -2), '>=', 2])
    else:
        # growth WITHOUT a new clause: a constraint over variables nobody has declared that is trivially true
        n = F.number_of_variables()
        if how == 9:
            if is_cnf:
                F.add_linear([n + 1, -(n + 2)], '>=', 0)
            else:
                F.cardinality_geq([n + 1, -(n + 2)], 0)
        elif how == 10:
            F.cardinality_leq([1, n + 3], 5)
        else:
            if is_cnf:
                F.add_linear([-(n + 1)], '!=', 4)
            else:
                F.cardinality_neq([-(n + 1)], 4)


def _render_all(F, is_cnf):
    F.to_opb()
    F.to_latex()
    if is_cnf:
        F.to_dimacs()
    F.to_file(io.StringIO(), fileformat='opb')
    F.to_file(io.StringIO(), fileformat='latex')


def _render_extend(a, h1, h2, is_cnf, li):
    """render, extend, render again: every rendering denotes the formula as it is NOW"""
    F = _mk_cnf([a % len(CLAUSES)], li, 0) if is_cnf else _mk_opb([a], li, 0)
    _render_all(F, is_cnf)
    for how in (h1, h2):
        _extend(F, how, is_cnf)
        if not (_opb_ok(F, is_cnf, False, False) and _opb_ok(F, is_cnf, True, True) and _latex_ok(F, is_cnf, False, False)
                and _latex_ok(F, is_cnf, True, True)):
            return False
        if is_cnf:
            n = F.number_of_variables()
            cl = [list(c) for c in F.clauses()]
            lines = [ln for ln in F.to_dimacs().split('\n') if ln and not ln.startswith('c')]
            if lines[0] != 'p cnf %d %d' % (n, len(cl)) or [[int(t) for t in ln.split()[:-1]] for ln in lines[1:]] != cl:
                return False
    return True


def h_e_render_extend(a: int, h1: int, h2: int, is_cnf: bool, li: int) -> bool:
    """
    pre: 0 <= a <= 11 and 0 <= h1 <= 11 and 0 <= h2 <= 11 and 0 <= li <= 2
    post: _
    """
    a, h1, h2 = pick(a, 0, 11), pick(h1, 0, 11), pick(h2, 0, 11)
    return untraced(_render_extend, a, h1, h2, pickb(is_cnf), (a + h1 + h2) % 3)      # label format derived: 3456 paths


class _Named:
    def __init__(self, name):
        self.name = name


REQUESTS = ['latex', 'dimacs', 'opb', None, 'pdf']
TARGETS = ['out.tex', 'out.opb', 'out.cnf', 'out', 'a.b.tex', 'x.opb.cnf', 'x.TEX', '', 'dir.tex/out.opb']


def _guess(ri, ti, as_object, nameless):
    req = REQUESTS[ri]
    name = TARGETS[ti]
    target = (io.StringIO() if nameless else _Named(name)) if as_object else name
    if req == 'pdf':
        try:
            guess_output_format(target, req)
        except ValueError:
            return True
        return False
    got = guess_output_format(target, req)
    if req is not None:
        return got == req
    if as_object and nameless:
        return got == 'dimacs'
    want = 'latex' if name.endswith('.tex') else ('opb' if name.endswith('.opb') else 'dimacs')
    return got == want


def h_e_guess(ri: int, ti: int, as_object: bool, nameless: bool) -> bool:
    """
    pre: 0 <= ri <= 4 and 0 <= ti <= 8
    post: _
    """
    return untraced(_guess, pick(ri, 0, 4), pick(ti, 0, 8), pickb(as_object), pickb(nameless))


FLAGS = [(True, False, False), (False, True, True), (True, True, False), (False, False, True)]


def _opb2(a, b, ln, fi, lj, extra):
    h, v, d = FLAGS[fi]
    return _opb_formula(a, b, 0, ln, (a % 2) * 3 + lj, extra, h, v, d)


def _opb3(a, b, c, fi, lj):
    h, v, d = FLAGS[fi]
    return _opb_formula(a, b, c, 3, (a % 2) * 3 + lj, 0, h, v, d)


def _cnf2(a, b, ln, fi, lj, extra):
    h, v, d = FLAGS[fi]
    return _cnf_formula(a, b, 0, ln, (a % 2) * 3 + lj, extra, h, v, d)


def _cnf3(a, b, c, fi, lj):
    h, v, d = FLAGS[fi]
    return _cnf_formula(a, b, c, 3, (a % 2) * 3 + lj, 0, h, v, d)


def h_e_opb2_0(b: int, ln: int, fi: int, lj: int, extra: int) -> bool:
    """
    pre: 0 <= b <= 11 and 1 <= ln <= 2 and 0 <= fi <= 3 and 0 <= lj <= 2 and 0 <= extra <= 1
    post: _
    """
    return untraced(_opb2, 0, pick(b, 0, 11), pick(ln, 1, 2), pick(fi, 0, 3), pick(lj, 0, 2), pick(extra, 0, 1))


def h_e_opb3_0(b: int, c: int, fi: int, lj: int) -> bool:
    """
    pre: 0 <= b <= 11 and 0 <= c <= 11 and 0 <= fi <= 3 and 0 <= lj <= 2
    post: _
    """
    return untraced(_opb3, 0, pick(b, 0, 11), pick(c, 0, 11), pick(fi, 0, 3), pick(lj, 0, 2))


def h_e_opb2_1(b: int, ln: int, fi: int, lj: int, extra: int) -> bool:
    """
    pre: 0 <= b <= 11 and 1 <= ln <= 2 and 0 <= fi <= 3 and 0 <= lj <= 2 and 0 <= extra <= 1
    post: _
    """
    return untraced(_opb2, 1, pick(b, 0, 11), pick(ln, 1, 2), pick(fi, 0, 3), pick(lj, 0, 2), pick(extra, 0, 1))


def h_e_opb3_1(b: int, c: int, fi: int, lj: int) -> bool:
    """
    pre: 0 <= b <= 11 and 0 <= c <= 11 and 0 <= fi <= 3 and 0 <= lj <= 2
    post: _
    """
    return untraced(_opb3, 1, pick(b, 0, 11), pick(c, 0, 11), pick(fi, 0, 3), pick(lj, 0, 2))


def h_e_opb2_2(b: int, ln: int, fi: int, lj: int, extra: int) -> bool:
    """
    pre: 0 <= b <= 11 and 1 <= ln <= 2 and 0 <= fi <= 3 and 0 <= lj <= 2 and 0 <= extra <= 1
    post: _
    """
    return untraced(_opb2, 2, pick(b, 0, 11), pick(ln, 1, 2), pick(fi, 0, 3), pick(lj, 0, 2), pick(extra, 0, 1))


def h_e_opb3_2(b: int, c: int, fi: int, lj: int) -> bool:
    """
    pre: 0 <= b <= 11 and 0 <= c <= 11 and 0 <= fi <= 3 and 0 <= lj <= 2
    post: _
    """
    return untraced(_opb3, 2, pick(b, 0, 11), pick(c, 0, 11), pick(fi, 0, 3), pick(lj, 0, 2))


def h_e_opb2_3(b: int, ln: int, fi: int, lj: int, extra: int) -> bool:
    """
    pre: 0 <= b <= 11 and 1 <= ln <= 2 and 0 <= fi <= 3 and 0 <= lj <= 2 and 0 <= extra <= 1
    post: _
    """
    return untraced(_opb2, 3, pick(b, 0, 11), pick(ln, 1, 2), pick(fi, 0, 3), pick(lj, 0, 2), pick(extra, 0, 1))


def h_e_opb3_3(b: int, c: int, fi: int, lj: int) -> bool:
    """
    pre: 0 <= b <= 11 and 0 <= c <= 11 and 0 <= fi <= 3 and 0 <= lj <= 2
    post: _
    """
    return untraced(_opb3, 3, pick(b, 0, 11), pick(c, 0, 11), pick(fi, 0, 3), pick(lj, 0, 2))


def h_e_opb2_4(b: int, ln: int, fi: int, lj: int, extra: int) -> bool:
    """
    pre: 0 <= b <= 11 and 1 <= ln <= 2 and 0 <= fi <= 3 and 0 <= lj <= 2 and 0 <= extra <= 1
    post: _
    """
    return untraced(_opb2, 4, pick(b, 0, 11), pick(ln, 1, 2), pick(fi, 0, 3), pick(lj, 0, 2), pick(extra, 0, 1))


def h_e_opb3_4(b: int, c: int, fi: int, lj: int) -> bool:
    """
    pre: 0 <= b <= 11 and 0 <= c <= 11 and 0 <= fi <= 3 and 0 <= lj <= 2
    post: _
    """
    return untraced(_opb3, 4, pick(b, 0, 11), pick(c, 0, 11), pick(fi, 0, 3), pick(lj, 0, 2))


def h_e_opb2_5(b: int, ln: int, fi: int, lj: int, extra: int) -> bool:
    """
    pre: 0 <= b <= 11 and 1 <= ln <= 2 and 0 <= fi <= 3 and 0 <= lj <= 2 and 0 <= extra <= 1
    post: _
    """
    return untraced(_opb2, 5, pick(b, 0, 11), pick(ln, 1, 2), pick(fi, 0, 3), pick(lj, 0, 2), pick(extra, 0, 1))


def h_e_opb3_5(b: int, c: int, fi: int, lj: int) -> bool:
    """
    pre: 0 <= b <= 11 and 0 <= c <= 11 and 0 <= fi <= 3 and 0 <= lj <= 2
    post: _
    """
    return untraced(_opb3, 5, pick(b, 0, 11), pick(c, 0, 11), pick(fi, 0, 3), pick(lj, 0, 2))


def h_e_opb2_6(b: int, ln: int, fi: int, lj: int, extra: int) -> bool:
    """
    pre: 0 <= b <= 11 and 1 <= ln <= 2 and 0 <= fi <= 3 and 0 <= lj <= 2 and 0 <= extra <= 1
    post: _
    """
    return untraced(_opb2, 6, pick(b, 0, 11), pick(ln, 1, 2), pick(fi, 0, 3), pick(lj, 0, 2), pick(extra, 0, 1))


def h_e_opb3_6(b: int, c: int, fi: int, lj: int) -> bool:
    """
    pre: 0 <= b <= 11 and 0 <= c <= 11 and 0 <= fi <= 3 and 0 <= lj <= 2
    post: _
    """
    return untraced(_opb3, 6, pick(b, 0, 11), pick(c, 0, 11), pick(fi, 0, 3), pick(lj, 0, 2))


def h_e_opb2_7(b: int, ln: int, fi: int, lj: int, extra: int) -> bool:
    """
    pre: 0 <= b <= 11 and 1 <= ln <= 2 and 0 <= fi <= 3 and 0 <= lj <= 2 and 0 <= extra <= 1
    post: _
    """
    return untraced(_opb2, 7, pick(b, 0, 11), pick(ln, 1, 2), pick(fi, 0, 3), pick(lj, 0, 2), pick(extra, 0, 1))


def h_e_opb3_7(b: int, c: int, fi: int, lj: int) -> bool:
    """
    pre: 0 <= b <= 11 and 0 <= c <= 11 and 0 <= fi <= 3 and 0 <= lj <= 2
    post: _
    """
    return untraced(_opb3, 7, pick(b, 0, 11), pick(c, 0, 11), pick(fi, 0, 3), pick(lj, 0, 2))


def h_e_opb2_8(b: int, ln: int, fi: int, lj: int, extra: int) -> bool:
    """
    pre: 0 <= b <= 11 and 1 <= ln <= 2 and 0 <= fi <= 3 and 0 <= lj <= 2 and 0 <= extra <= 1
    post: _
    """
    return untraced(_opb2, 8, pick(b, 0, 11), pick(ln, 1, 2), pick(fi, 0, 3), pick(lj, 0, 2), pick(extra, 0, 1))


def h_e_opb3_8(b: int, c: int, fi: int, lj: int) -> bool:
    """
    pre: 0 <= b <= 11 and 0 <= c <= 11 and 0 <= fi <= 3 and 0 <= lj <= 2
    post: _
    """
    return untraced(_opb3, 8, pick(b, 0, 11), pick(c, 0, 11), pick(fi, 0, 3), pick(lj, 0, 2))


def h_e_opb2_9(b: int, ln: int, fi: int, lj: int, extra: int) -> bool:
    """
    pre: 0 <= b <= 11 and 1 <= ln <= 2 and 0 <= fi <= 3 and 0 <= lj <= 2 and 0 <= extra <= 1
    post: _
    """
    return untraced(_opb2, 9, pick(b, 0, 11), pick(ln, 1, 2), pick(fi, 0, 3), pick(lj, 0, 2), pick(extra, 0, 1))


def h_e_opb3_9(b: int, c: int, fi: int, lj: int) -> bool:
    """
    pre: 0 <= b <= 11 and 0 <= c <= 11 and 0 <= fi <= 3 and 0 <= lj <= 2
    post: _
    """
    return untraced(_opb3, 9, pick(b, 0, 11), pick(c, 0, 11), pick(fi, 0, 3), pick(lj, 0, 2))


def h_e_opb2_10(b: int, ln: int, fi: int, lj: int, extra: int) -> bool:
    """
    pre: 0 <= b <= 11 and 1 <= ln <= 2 and 0 <= fi <= 3 and 0 <= lj <= 2 and 0 <= extra <= 1
    post: _
    """
    return untraced(_opb2, 10, pick(b, 0, 11), pick(ln, 1, 2), pick(fi, 0, 3), pick(lj, 0, 2), pick(extra, 0, 1))


def h_e_opb3_10(b: int, c: int, fi: int, lj: int) -> bool:
    """
    pre: 0 <= b <= 11 and 0 <= c <= 11 and 0 <= fi <= 3 and 0 <= lj <= 2
    post: _
    """
    return untraced(_opb3, 10, pick(b, 0, 11), pick(c, 0, 11), pick(fi, 0, 3), pick(lj, 0, 2))


def h_e_opb2_11(b: int, ln: int, fi: int, lj: int, extra: int) -> bool:
    """
    pre: 0 <= b <= 11 and 1 <= ln <= 2 and 0 <= fi <= 3 and 0 <= lj <= 2 and 0 <= extra <= 1
    post: _
    """
    return untraced(_opb2, 11, pick(b, 0, 11), pick(ln, 1, 2), pick(fi, 0, 3), pick(lj, 0, 2), pick(extra, 0, 1))


def h_e_opb3_11(b: int, c: int, fi: int, lj: int) -> bool:
    """
    pre: 0 <= b <= 11 and 0 <= c <= 11 and 0 <= fi <= 3 and 0 <= lj <= 2
    post: _
    """
    return untraced(_opb3, 11, pick(b, 0, 11), pick(c, 0, 11), pick(fi, 0, 3), pick(lj, 0, 2))


def h_e_cnf2_0(b: int, ln: int, fi: int, lj: int, extra: int) -> bool:
    """
    pre: 0 <= b <= 6 and 1 <= ln <= 2 and 0 <= fi <= 3 and 0 <= lj <= 2 and 0 <= extra <= 1
    post: _
    """
    return untraced(_cnf2, 0, pick(b, 0, 6), pick(ln, 1, 2), pick(fi, 0, 3), pick(lj, 0, 2), pick(extra, 0, 1))


def h_e_cnf3_0(b: int, c: int, fi: int, lj: int) -> bool:
    """
    pre: 0 <= b <= 6 and 0 <= c <= 6 and 0 <= fi <= 3 and 0 <= lj <= 2
    post: _
    """
    return untraced(_cnf3, 0, pick(b, 0, 6), pick(c, 0, 6), pick(fi, 0, 3), pick(lj, 0, 2))


def h_e_cnf2_1(b: int, ln: int, fi: int, lj: int, extra: int) -> bool:
    """
    pre: 0 <= b <= 6 and 1 <= ln <= 2 and 0 <= fi <= 3 and 0 <= lj <= 2 and 0 <= extra <= 1
    post: _
    """
    return untraced(_cnf2, 1, pick(b, 0, 6), pick(ln, 1, 2), pick(fi, 0, 3), pick(lj, 0, 2), pick(extra, 0, 1))


def h_e_cnf3_1(b: int, c: int, fi: int, lj: int) -> bool:
    """
    pre: 0 <= b <= 6 and 0 <= c <= 6 and 0 <= fi <= 3 and 0 <= lj <= 2
    post: _
    """
    return untraced(_cnf3, 1, pick(b, 0, 6), pick(c, 0, 6), pick(fi, 0, 3), pick(lj, 0, 2))


def h_e_cnf2_2(b: int, ln: int, fi: int, lj: int, extra: int) -> bool:
    """
    pre: 0 <= b <= 6 and 1 <= ln <= 2 and 0 <= fi <= 3 and 0 <= lj <= 2 and 0 <= extra <= 1
    post: _
    """
    return untraced(_cnf2, 2, pick(b, 0, 6), pick(ln, 1, 2), pick(fi, 0, 3), pick(lj, 0, 2), pick(extra, 0, 1))


def h_e_cnf3_2(b: int, c: int, fi: int, lj: int) -> bool:
    """
    pre: 0 <= b <= 6 and 0 <= c <= 6 and 0 <= fi <= 3 and 0 <= lj <= 2
    post: _
    """
    return untraced(_cnf3, 2, pick(b, 0, 6), pick(c, 0, 6), pick(fi, 0, 3), pick(lj, 0, 2))


def h_e_cnf2_3(b: int, ln: int, fi: int, lj: int, extra: int) -> bool:
    """
    pre: 0 <= b <= 6 and 1 <= ln <= 2 and 0 <= fi <= 3 and 0 <= lj <= 2 and 0 <= extra <= 1
    post: _
    """
    return untraced(_cnf2, 3, pick(b, 0, 6), pick(ln, 1, 2), pick(fi, 0, 3), pick(lj, 0, 2), pick(extra, 0, 1))


def h_e_cnf3_3(b: int, c: int, fi: int, lj: int) -> bool:
    """
    pre: 0 <= b <= 6 and 0 <= c <= 6 and 0 <= fi <= 3 and 0 <= lj <= 2
    post: _
    """
    return untraced(_cnf3, 3, pick(b, 0, 6), pick(c, 0, 6), pick(fi, 0, 3), pick(lj, 0, 2))


def h_e_cnf2_4(b: int, ln: int, fi: int, lj: int, extra: int) -> bool:
    """
    pre: 0 <= b <= 6 and 1 <= ln <= 2 and 0 <= fi <= 3 and 0 <= lj <= 2 and 0 <= extra <= 1
    post: _
    """
    return untraced(_cnf2, 4, pick(b, 0, 6), pick(ln, 1, 2), pick(fi, 0, 3), pick(lj, 0, 2), pick(extra, 0, 1))


def h_e_cnf3_4(b: int, c: int, fi: int, lj: int) -> bool:
    """
    pre: 0 <= b <= 6 and 0 <= c <= 6 and 0 <= fi <= 3 and 0 <= lj <= 2
    post: _
    """
    return untraced(_cnf3, 4, pick(b, 0, 6), pick(c, 0, 6), pick(fi, 0, 3), pick(lj, 0, 2))


def h_e_cnf2_5(b: int, ln: int, fi: int, lj: int, extra: int) -> bool:
    """
    pre: 0 <= b <= 6 and 1 <= ln <= 2 and 0 <= fi <= 3 and 0 <= lj <= 2 and 0 <= extra <= 1
    post: _
    """
    return untraced(_cnf2, 5, pick(b, 0, 6), pick(ln, 1, 2), pick(fi, 0, 3), pick(lj, 0, 2), pick(extra, 0, 1))


def h_e_cnf3_5(b: int, c: int, fi: int, lj: int) -> bool:
    """
    pre: 0 <= b <= 6 and 0 <= c <= 6 and 0 <= fi <= 3 and 0 <= lj <= 2
    post: _
    """
    return untraced(_cnf3, 5, pick(b, 0, 6), pick(c, 0, 6), pick(fi, 0, 3), pick(lj, 0, 2))


def h_e_cnf2_6(b: int, ln: int, fi: int, lj: int, extra: int) -> bool:
    """
    pre: 0 <= b <= 6 and 1 <= ln <= 2 and 0 <= fi <= 3 and 0 <= lj <= 2 and 0 <= extra <= 1
    post: _
    """
    return untraced(_cnf2, 6, pick(b, 0, 6), pick(ln, 1, 2), pick(fi, 0, 3), pick(lj, 0, 2), pick(extra, 0, 1))


def h_e_cnf3_6(b: int, c: int, fi: int, lj: int) -> bool:
    """
    pre: 0 <= b <= 6 and 0 <= c <= 6 and 0 <= fi <= 3 and 0 <= lj <= 2
    post: _
    """
    return untraced(_cnf3, 6, pick(b, 0, 6), pick(c, 0, 6), pick(fi, 0, 3), pick(lj, 0, 2))
