"""CrossHair harnesses for C09: shuffling is a signed renaming of variables plus a reordering of clauses.

The `random` module seen by the shuffling code is replaced by xutil.FakeRandom: every draw is a fresh symbolic
value concretised over its exact range, so ALL outcomes of random.choice / random.shuffle are explored (the
draws are minted lazily inside the stub; the body runs untraced).  A failing path raises AssertionError carrying
the tape of draws, which the replay driver plays back against the real code.
"""
import itertools
import os

from cnfgen.formula.cnf import CNF
import cnfgen.transformations.shuffle as SH
from vlib.xh.xutil import pick, pickb, untraced, Tape, FakeRandom

import vlib.xh.xutil as _xutil
DATA = os.path.join(os.path.dirname(os.path.abspath(_xutil.__file__)), 'data')
FORMULAS = [
    (0, []), (0, [[]]), (1, [[1]]), (2, [[1, -2]]), (2, [[1, -2], [1, -2]]), (3, [[1, 2], [-1, -2]]),
    (3, [[1, 2, 3], [-1], [-2]]), (2, [[1], [-1], []]), (3, []), (3, [[1, -1, 2], [3, 3], [-2]]),
    (3, [[1, -2], [2, -3], [3, -1]]), (2, [[-1, -2], [1], [2]]),
]


def _mk(fidx):
    n, cl = FORMULAS[fidx]
    F = CNF([list(c) for c in cl])
    F.update_variable_number(n)
    return F


def _apply(clauses, flips, vperm, S):
    """the documented meaning of explicit arguments: literal on variable i -> flips[i-1]*vperm[i-1] (sign kept),
    clause i of F at position S[i] of the result"""
    out = [None] * len(clauses)
    for i, c in enumerate(clauses):
        out[S[i]] = [(1 if l > 0 else -1) * flips[abs(l) - 1] * vperm[abs(l) - 1] for l in c]
    return out


def _witness_exists(n, clauses, out, pf, vp, cp):
    """is `out` the image of `clauses` under ONE signed renaming and ONE permutation of positions?
    (switched-off components must be the identity)"""
    if len(out) != len(clauses):
        return False
    flipsets = itertools.product([1, -1], repeat=n) if pf else [tuple([1] * n)]
    for flips in flipsets:
        perms = itertools.permutations(range(1, n + 1)) if vp else [tuple(range(1, n + 1))]
        for vperm in perms:
            img = [[(1 if l > 0 else -1) * flips[abs(l) - 1] * vperm[abs(l) - 1] for l in c] for c in clauses]
            if cp:
                if sorted(map(sorted, img)) == sorted(map(sorted, out)):
                    # a bijection of positions exists iff the multisets of clauses agree
                    return True
            else:
                if [sorted(c) for c in img] == [sorted(c) for c in out]:
                    return True
    return False


def _shuffle_call(tool, fidx, pf, vp, cp, fake):
    """run one of the three entry points with the fake random module installed"""
    import random as real_random
    F = _mk(fidx)
    path = os.path.join(DATA, 'f%d.cnf' % fidx)
    if tool == 0:
        old = SH.random
        SH.random = fake
        try:
            return SH.Shuffle(F, 'shuffle' if pf else 'fixed', 'shuffle' if vp else 'fixed', 'shuffle' if cp else 'fixed')
        finally:
            SH.random = old
    import cnfgen.clitools.msg as msg
    msg._prefix = ''
    sw = ([] if pf else ['-p']) + ([] if vp else ['-v']) + ([] if cp else ['-c'])
    old = SH.random
    SH.random = fake
    try:
        if tool == 1:
            from cnfgen.clitools.cnfshuffle import cli
            return cli(['cnfshuffle', '-q', '-i', path] + sw, mode='formula')
        from cnfgen.clitools.cnfgen import cli
        return cli(['cnfgen', '-q', 'dimacs', path, '-T', 'shuffle'] + sw, mode='formula')
    finally:
        SH.random = old
        msg._prefix = ''


def _random_body(tool, fidx, pf, vp, cp, tape):
    n, clauses = FORMULAS[fidx]
    G = _shuffle_call(tool, fidx, pf, vp, cp, FakeRandom(tape))
    if G.number_of_variables() != n or len(G) != len(clauses):
        return False
    out = [list(c) for c in G.clauses()]
    if sorted(len(c) for c in out) != sorted(len(c) for c in clauses):
        return False
    return _witness_exists(n, clauses, out, pf, vp, cp)


def _random(tool, fidx, pf, vp, cp):
    tape = Tape()
    ok = untraced(_random_body, tool, fidx, pickb(pf), pickb(vp), pickb(cp), tape)
    if not ok:
        raise AssertionError('TAPE=%r' % (tape.log,))
    return True


# one harness per formula and entry point keeps the conditions small and parallel (generated)

def h_e_random_lib_0(pf: bool, vp: bool, cp: bool) -> bool:
    """
    post: _
    """
    return _random(0, 0, pf, vp, cp)

def h_e_random_lib_1(pf: bool, vp: bool, cp: bool) -> bool:
    """
    post: _
    """
    return _random(0, 1, pf, vp, cp)

def h_e_random_lib_2(pf: bool, vp: bool, cp: bool) -> bool:
    """
    post: _
    """
    return _random(0, 2, pf, vp, cp)

def h_e_random_lib_3(pf: bool, vp: bool, cp: bool) -> bool:
    """
    post: _
    """
    return _random(0, 3, pf, vp, cp)

def h_e_random_lib_4(pf: bool, vp: bool, cp: bool) -> bool:
    """
    post: _
    """
    return _random(0, 4, pf, vp, cp)

def h_e_random_lib_5(pf: bool, vp: bool, cp: bool) -> bool:
    """
    post: _
    """
    return _random(0, 5, pf, vp, cp)

def h_e_random_lib_6(pf: bool, vp: bool, cp: bool) -> bool:
    """
    post: _
    """
    return _random(0, 6, pf, vp, cp)

def h_e_random_lib_7(pf: bool, vp: bool, cp: bool) -> bool:
    """
    post: _
    """
    return _random(0, 7, pf, vp, cp)

def h_e_random_lib_8(pf: bool, vp: bool, cp: bool) -> bool:
    """
    post: _
    """
    return _random(0, 8, pf, vp, cp)

def h_e_random_lib_9(pf: bool, vp: bool, cp: bool) -> bool:
    """
    post: _
    """
    return _random(0, 9, pf, vp, cp)

def h_e_random_lib_10(pf: bool, vp: bool, cp: bool) -> bool:
    """
    post: _
    """
    return _random(0, 10, pf, vp, cp)

def h_e_random_lib_11(pf: bool, vp: bool, cp: bool) -> bool:
    """
    post: _
    """
    return _random(0, 11, pf, vp, cp)

def h_e_random_cnfshuffle_0(pf: bool, vp: bool, cp: bool) -> bool:
    """
    post: _
    """
    return _random(1, 0, pf, vp, cp)

def h_e_random_cnfshuffle_1(pf: bool, vp: bool, cp: bool) -> bool:
    """
    post: _
    """
    return _random(1, 1, pf, vp, cp)

def h_e_random_cnfshuffle_2(pf: bool, vp: bool, cp: bool) -> bool:
    """
    post: _
    """
    return _random(1, 2, pf, vp, cp)

def h_e_random_cnfshuffle_3(pf: bool, vp: bool, cp: bool) -> bool:
    """
    post: _
    """
    return _random(1, 3, pf, vp, cp)

def h_e_random_cnfshuffle_4(pf: bool, vp: bool, cp: bool) -> bool:
    """
    post: _
    """
    return _random(1, 4, pf, vp, cp)

def h_e_random_cnfshuffle_5(pf: bool, vp: bool, cp: bool) -> bool:
    """
    post: _
    """
    return _random(1, 5, pf, vp, cp)

def h_e_random_cnfshuffle_6(pf: bool, vp: bool, cp: bool) -> bool:
    """
    post: _
    """
    return _random(1, 6, pf, vp, cp)

def h_e_random_cnfshuffle_7(pf: bool, vp: bool, cp: bool) -> bool:
    """
    post: _
    """
    return _random(1, 7, pf, vp, cp)

def h_e_random_cnfshuffle_8(pf: bool, vp: bool, cp: bool) -> bool:
    """
    post: _
    """
    return _random(1, 8, pf, vp, cp)

def h_e_random_cnfshuffle_9(pf: bool, vp: bool, cp: bool) -> bool:
    """
    post: _
    """
    return _random(1, 9, pf, vp, cp)

def h_e_random_cnfshuffle_10(pf: bool, vp: bool, cp: bool) -> bool:
    """
    post: _
    """
    return _random(1, 10, pf, vp, cp)

def h_e_random_cnfshuffle_11(pf: bool, vp: bool, cp: bool) -> bool:
    """
    post: _
    """
    return _random(1, 11, pf, vp, cp)

def h_e_random_T_0(pf: bool, vp: bool, cp: bool) -> bool:
    """
    post: _
    """
    return _random(2, 0, pf, vp, cp)

def h_e_random_T_1(pf: bool, vp: bool, cp: bool) -> bool:
    """
    post: _
    """
    return _random(2, 1, pf, vp, cp)

def h_e_random_T_2(pf: bool, vp: bool, cp: bool) -> bool:
    """
    post: _
    """
    return _random(2, 2, pf, vp, cp)

def h_e_random_T_3(pf: bool, vp: bool, cp: bool) -> bool:
    """
    post: _
    """
    return _random(2, 3, pf, vp, cp)

def h_e_random_T_4(pf: bool, vp: bool, cp: bool) -> bool:
    """
    post: _
    """
    return _random(2, 4, pf, vp, cp)

def h_e_random_T_5(pf: bool, vp: bool, cp: bool) -> bool:
    """
    post: _
    """
    return _random(2, 5, pf, vp, cp)

def h_e_random_T_6(pf: bool, vp: bool, cp: bool) -> bool:
    """
    post: _
    """
    return _random(2, 6, pf, vp, cp)

def h_e_random_T_7(pf: bool, vp: bool, cp: bool) -> bool:
    """
    post: _
    """
    return _random(2, 7, pf, vp, cp)

def h_e_random_T_8(pf: bool, vp: bool, cp: bool) -> bool:
    """
    post: _
    """
    return _random(2, 8, pf, vp, cp)

def h_e_random_T_9(pf: bool, vp: bool, cp: bool) -> bool:
    """
    post: _
    """
    return _random(2, 9, pf, vp, cp)

def h_e_random_T_10(pf: bool, vp: bool, cp: bool) -> bool:
    """
    post: _
    """
    return _random(2, 10, pf, vp, cp)

def h_e_random_T_11(pf: bool, vp: bool, cp: bool) -> bool:
    """
    post: _
    """
    return _random(2, 11, pf, vp, cp)


# ----------------------------------------------------------------- explicit arguments
def _explicit_body(fidx, flips, vperm, S):
    n, clauses = FORMULAS[fidx]
    F = _mk(fidx)
    valid = (flips == 'fixed' or (len(flips) == n and all(abs(x) == 1 for x in flips)))
    valid = valid and (vperm == 'fixed' or sorted(vperm) == list(range(1, n + 1)))
    valid = valid and (S == 'fixed' or sorted(S) == list(range(len(clauses))))
    fl = list(flips) if flips != 'fixed' else 'fixed'
    vp = list(vperm) if vperm != 'fixed' else 'fixed'
    cp = list(S) if S != 'fixed' else 'fixed'
    try:
        G = SH.Shuffle(F, fl, vp, cp)
    except ValueError:
        ok = not valid
    else:
        if not valid:
            return False
        f = [1] * n if flips == 'fixed' else list(flips)
        v = list(range(1, n + 1)) if vperm == 'fixed' else list(vperm)
        s = list(range(len(clauses))) if S == 'fixed' else list(S)
        ok = (G.number_of_variables() == n and [list(c) for c in G.clauses()] == _apply(clauses, f, v, s))
    # the caller's lists and the input formula are untouched
    if fl != (list(flips) if flips != 'fixed' else 'fixed') or vp != (list(vperm) if vperm != 'fixed' else 'fixed'):
        return False
    if cp != (list(S) if S != 'fixed' else 'fixed'):
        return False
    if [list(c) for c in F.clauses()] != [list(c) for c in clauses] or F.number_of_variables() != n:
        return False
    return ok


def h_e_explicit_flips(fidx: int, a: int, b: int, c: int, ln: int) -> bool:
    """
    pre: 0 <= fidx <= 11 and -1 <= a <= 2 and -1 <= b <= 2 and -1 <= c <= 2 and 0 <= ln <= 4
    post: _
    """
    vals = [pick(a, -1, 2), pick(b, -1, 2), pick(c, -1, 2), 1]
    return untraced(_explicit_body, pick(fidx, 0, 11), vals[:pick(ln, 0, 4)], 'fixed', 'fixed')


def h_e_explicit_vperm(fidx: int, a: int, b: int, c: int, ln: int) -> bool:
    """
    pre: 0 <= fidx <= 11 and 0 <= a <= 3 and 0 <= b <= 3 and 1 <= c <= 4 and 0 <= ln <= 4
    post: _
    """
    vals = [pick(a, 0, 3), pick(b, 0, 3), pick(c, 1, 4), 4]
    return untraced(_explicit_body, pick(fidx, 0, 11), 'fixed', vals[:pick(ln, 0, 4)], 'fixed')


def h_e_explicit_cperm(fidx: int, a: int, b: int, c: int, ln: int) -> bool:
    """
    pre: 0 <= fidx <= 11 and -1 <= a <= 2 and 0 <= b <= 3 and 0 <= c <= 3 and 0 <= ln <= 4
    post: _
    """
    vals = [pick(a, -1, 2), pick(b, 0, 3), pick(c, 0, 3), 3]
    return untraced(_explicit_body, pick(fidx, 0, 11), 'fixed', 'fixed', vals[:pick(ln, 0, 4)])


PERMS3 = list(itertools.permutations([1, 2, 3]))


def _explicit_all_valid(fidx, fbits, vi, ci):
    n, clauses = FORMULAS[fidx]
    m = len(clauses)
    flips = [(1 if fbits >> i & 1 else -1) for i in range(n)]
    vperm = [x for x in PERMS3[vi] if x <= n] if n < 3 else list(PERMS3[vi])
    S = [x - 1 for x in PERMS3[ci] if x <= m] if m < 3 else [x - 1 for x in PERMS3[ci]]
    if not _explicit_body(fidx, flips, vperm, S):
        return False
    # the same arguments as other sequence types (tuples; ranges where the permutation is the identity)
    F = _mk(fidx)
    G = SH.Shuffle(F, tuple(flips), tuple(vperm), tuple(S))
    if [list(c) for c in G.clauses()] != _apply(clauses, flips, vperm, S) or G.number_of_variables() != n:
        return False
    def as_range(seq):
        for r in (range(min(seq), max(seq) + 1), range(max(seq), min(seq) - 1, -1)):
            if list(r) == list(seq):
                return r
        return None
    rv = as_range(vperm) if vperm else None
    rs = as_range(S) if S else None
    if rv is not None or rs is not None:
        G = SH.Shuffle(F, tuple(flips), rv if rv is not None else vperm, rs if rs is not None else S)
        if [list(c) for c in G.clauses()] != _apply(clauses, flips, vperm, S):
            return False
    return True


def _independent(fidx, mode, via):
    """the shuffled formula is a formula of its own: changing the input afterwards does not change it, and changing it
    does not change the input (also when nothing is shuffled at all)"""
    F = _mk(fidx)
    n = F.number_of_variables()
    m = len(list(F.clauses()))
    if mode == 0:
        args = ('fixed', 'fixed', 'fixed')
    elif mode == 1:
        args = ([1] * n, list(range(1, n + 1)), list(range(m)))
    elif mode == 2:
        args = ('fixed', list(range(n, 0, -1)), 'fixed')
    else:
        args = ([-1] * n, 'fixed', list(range(m - 1, -1, -1)))
    G = SH.Shuffle(F, *args)
    H = SH.Shuffle(F, *args)
    snapF = (n, [list(c) for c in F.clauses()])
    snapG = (G.number_of_variables(), [list(c) for c in G.clauses()])
    if via == 0:
        G.add_clause([1, n + 1])
        G.add_clause([])
    elif via == 1:
        G.add_clauses_from([[1], [-1]] if n else [[]])
    else:
        G.update_variable_number(n + 3)
        G.add_clauses_from([[-(n + 2)]])
    if (F.number_of_variables(), [list(c) for c in F.clauses()]) != snapF:
        return False
    if (H.number_of_variables(), [list(c) for c in H.clauses()]) != snapG:
        return False
    F.add_clause([-1, n + 5] if n else [1])
    return (H.number_of_variables(), [list(c) for c in H.clauses()]) == snapG


def h_e_independent(fidx: int, mode: int, via: int) -> bool:
    """
    pre: 0 <= fidx <= 11 and 0 <= mode <= 3 and 0 <= via <= 2
    post: _
    """
    return untraced(_independent, pick(fidx, 0, 11), pick(mode, 0, 3), pick(via, 0, 2))


def h_e_explicit_valid(fidx: int, fbits: int, vi: int, ci: int) -> bool:
    """
    pre: 0 <= fidx <= 11 and 0 <= fbits <= 7 and 0 <= vi <= 5 and 0 <= ci <= 5
    post: _
    """
    return untraced(_explicit_all_valid, pick(fidx, 0, 11), pick(fbits, 0, 7), pick(vi, 0, 5), pick(ci, 0, 5))


# ------------------------------------------------- explicit components mixed with random / switched-off ones
def _mixed_body(fidx, fmode, vmode, cmode, fbits, vi, ci, tape):
    """each of the three components is 'fixed' (0), 'shuffle' (1) or given explicitly (2).  The result must be the image of F
    under ONE signed renaming and ONE permutation of positions in which every explicit component is EXACTLY the one given
    (flips act on F's own variables: variable i is negated iff flips[i-1] == -1, wherever it is sent) and every
    switched-off one is the identity."""
    n, clauses = FORMULAS[fidx]
    m = len(clauses)
    flips = [(1 if fbits >> i & 1 else -1) for i in range(n)]
    vperm = [x for x in PERMS3[vi] if x <= n] if n < 3 else list(PERMS3[vi])
    S = [x - 1 for x in PERMS3[ci] if x <= m] if m < 3 else [x - 1 for x in PERMS3[ci]]
    args = [['fixed', 'shuffle', list(flips)][fmode], ['fixed', 'shuffle', list(vperm)][vmode], ['fixed', 'shuffle', list(S)][cmode]]
    F = _mk(fidx)
    old = SH.random
    SH.random = FakeRandom(tape)
    try:
        G = SH.Shuffle(F, *args)
    finally:
        SH.random = old
    out = [list(c) for c in G.clauses()]
    if G.number_of_variables() != n or len(out) != m:
        return False
    ident = list(range(1, n + 1))
    fcands = [[1] * n] if fmode == 0 else ([flips] if fmode == 2 else [list(f) for f in itertools.product([1, -1], repeat=n)])
    vcands = [ident] if vmode == 0 else ([vperm] if vmode == 2 else [list(p) for p in itertools.permutations(ident)])
    for f in fcands:
        for v in vcands:
            img = [[(1 if l > 0 else -1) * f[abs(l) - 1] * v[abs(l) - 1] for l in c] for c in clauses]
            if cmode == 1:
                if sorted(img) == sorted(out):
                    return True
            else:
                s = list(range(m)) if cmode == 0 else S
                exp = [None] * m
                for i, c in enumerate(img):
                    exp[s[i]] = c
                if exp == out:
                    return True
    return False


def _mixed(fidx, modes, fbits, vi, ci):
    tape = Tape()
    fm, vm, cm = modes // 9, (modes // 3) % 3, modes % 3
    ok = untraced(_mixed_body, fidx, fm, vm, cm, fbits, vi, ci, tape)
    if not ok:
        raise AssertionError('TAPE=%r' % (tape.log,))
    return True


def h_e_mixed_flips(fidx: int, vm: int, cm: int, fbits: int) -> bool:
    """
    pre: 0 <= fidx <= 11 and 0 <= vm <= 1 and 0 <= cm <= 1 and 0 <= fbits <= 7
    post: _
    """
    return _mixed(pick(fidx, 0, 11), 18 + 3 * pick(vm, 0, 1) + pick(cm, 0, 1), pick(fbits, 0, 7), 0, 0)


def h_e_mixed_vperm(fidx: int, fm: int, cm: int, vi: int) -> bool:
    """
    pre: 0 <= fidx <= 11 and 0 <= fm <= 1 and 0 <= cm <= 1 and 0 <= vi <= 5
    post: _
    """
    return _mixed(pick(fidx, 0, 11), 9 * pick(fm, 0, 1) + 6 + pick(cm, 0, 1), 0, pick(vi, 0, 5), 0)


def h_e_mixed_cperm(fidx: int, fm: int, vm: int, ci: int) -> bool:
    """
    pre: 0 <= fidx <= 11 and 0 <= fm <= 1 and 0 <= vm <= 1 and 0 <= ci <= 5
    post: _
    """
    return _mixed(pick(fidx, 0, 11), 9 * pick(fm, 0, 1) + 3 * pick(vm, 0, 1) + 2, 0, 0, pick(ci, 0, 5))
