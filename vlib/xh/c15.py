"""CrossHair harnesses for C15: graph constructions on the command line deliver the structure they name.

make_graph_from_spec is called with solver-chosen numeric arguments (from below to above the legal range, plus
non-numeric tokens) while the random module is the nondeterministic stub of C07 in its unseeded mode: every
outcome of every random draw is explored up to a tape bound.  Post: a graph with the promised structure, or
ValueError; any other exception type is a violation.
"""
import io
import itertools

import networkx
import cnfgen.graphs as G
from cnfgen.clitools.graph_args import make_graph_from_spec
from vlib.xh.xutil import pick, pickb, untraced, Tape, TapeExhausted
from vlib.xh.c07 import environment

TOKENS = ['nan', 'inf', '1e1', '1.5', '-1', '']


def _build(graphtype, spec, tape):
    """('ok', graph) | ('refused', msg) | ('cut', None); other exceptions propagate"""
    with environment(tape):
        try:
            g = make_graph_from_spec(graphtype, [str(x) for x in spec])
        except ValueError as e:
            return 'refused', str(e)
        except TapeExhausted:
            return 'cut', None
    return 'ok', g


def _simple_edges(g):
    return sorted((min(u, v), max(u, v)) for u, v in g.edges())


def _degrees(n, E):
    d = [0] * (n + 1)
    for u, v in E:
        d[u] += 1
        d[v] += 1
    return d[1:]


def _has_clique(n, E, k):
    S = set(E)
    for c in itertools.combinations(range(1, n + 1), k):
        if all((a, b) in S for a, b in itertools.combinations(c, 2)):
            return True
    return False


def _iso(g, H):
    return networkx.is_isomorphic(g.to_networkx(), H)


def _finish(ok, tape):
    if not ok:
        raise AssertionError('TAPE=%r' % (tape.log,))
    return True


# ------------------------------------------------------------------ simple graphs
def _gnm(n, m, tape):
    st, g = _build('simple', ['gnm', n, m], tape)
    legal = n > 0 and 0 <= m <= n * (n - 1) // 2
    if st == 'cut':
        return True
    if st == 'refused':
        return not legal
    return legal and g.number_of_vertices() == n and g.number_of_edges() == m and len(set(_simple_edges(g))) == m


def h_e_gnm(n: int, m: int) -> bool:
    """
    pre: -1 <= n <= 3 and -1 <= m <= 4
    post: _
    """
    tape = Tape(limit=8)
    return _finish(untraced(_gnm, pick(n, -1, 3), pick(m, -1, 4), tape), tape)


def _gnd(n, d, tape):
    st, g = _build('simple', ['gnd', n, d], tape)
    feasible = n > 0 and 0 < d < n and (n * d) % 2 == 0
    if st == 'cut':
        return True
    if st == 'refused':
        return not feasible
    if not feasible:
        return False
    E = _simple_edges(g)
    return g.number_of_vertices() == n and _degrees(n, E) == [d] * n


def h_e_gnd(n: int, d: int) -> bool:
    """
    pre: -1 <= n <= 4 and -1 <= d <= 4 and not (n == 4 and (d == 2 or d == 3))
    post: _
    """
    # (4,2) and (4,3) need 8! / 12! shuffle outcomes: left to the adversarial-stream harness
    tape = Tape(limit=7)
    nn, dd = pick(n, -1, 4), pick(d, -1, 4)
    if nn == 4 and dd in (2, 3):
        return True
    return _finish(untraced(_gnd, nn, dd, tape), tape)


def _gnp(n, pi, t, tape):
    p = ['0', '1', '.5', '0.0', '1.0', '-0.1', '1.01', 'nan'][pi]
    spec = ['gnp', n, p] + ([t] if t is not None else [])
    st, g = _build('simple', spec, tape)
    pv = float(p)
    legal = n > 0 and 0 <= pv <= 1 and (t is None or t > 0)
    if st == 'cut':
        return True
    if st == 'refused':
        return not legal
    if not legal:
        return False
    tt = 1 if t is None else t
    if g.number_of_vertices() != n * tt:
        return False
    E = _simple_edges(g)
    if tt > 1:
        for u, v in E:
            if (u - 1) // n == (v - 1) // n:
                return False          # t-partite: no edge inside a part
        full = n * n * tt * (tt - 1) // 2
    else:
        full = n * (n - 1) // 2
    if pv == 0 and E:
        return False
    if pv == 1 and len(E) != full and tt == 1:
        return False
    return True


def h_e_gnp(n: int, pi: int, t: int) -> bool:
    """
    pre: -1 <= n <= 3 and 0 <= pi <= 7 and -1 <= t <= 2
    post: _
    """
    tape = Tape(limit=8)
    tv = pick(t, -1, 2)
    nn = pick(n, -1, 3)
    if tv == 2 and nn == 3:
        return True
    return _finish(untraced(_gnp, nn, pick(pi, 0, 7), None if tv == -1 else tv, tape), tape)


def _grid(dims, periodic, tape):
    st, g = _build('simple', ['torus' if periodic else 'grid'] + dims, tape)
    legal = len(dims) >= 0 and all(d > 0 for d in dims)
    if st == 'refused':
        # a torus with a side shorter than 3 has loops / double edges: refusing it is fine
        return not legal or (periodic and any(d < 3 for d in dims))
    if not legal:
        return False
    n = 1
    for d in dims:
        n *= d
    if g.number_of_vertices() != n:
        return False
    if periodic and any(d < 3 for d in dims):
        return True                    # wrap-around on sides shorter than 3 is not documented
    # independent construction
    H = networkx.Graph()
    coords = list(itertools.product(*[range(d) for d in dims]))
    H.add_nodes_from(coords)
    for c in coords:
        for i, d in enumerate(dims):
            if c[i] + 1 < d:
                H.add_edge(c, c[:i] + (c[i] + 1,) + c[i + 1:])
            elif periodic:
                H.add_edge(c, c[:i] + (0,) + c[i + 1:])
    return _iso(g, H)


def h_e_grid(k: int, a: int, b: int, c: int, periodic: bool) -> bool:
    """
    pre: 1 <= k <= 3 and -1 <= a <= 4 and 0 <= b <= 3 and 1 <= c <= 3
    post: _
    """
    tape = Tape(limit=2)
    dims = [pick(a, -1, 4), pick(b, 0, 3), pick(c, 1, 3)][:pick(k, 1, 3)]
    return _finish(untraced(_grid, dims, pickb(periodic), tape), tape)


def _complete(n, b, tape):
    st, g = _build('simple', ['complete', n] + ([b] if b is not None else []), tape)
    legal = n > 0 and (b is None or b > 0)
    if st == 'refused':
        return not legal
    if not legal:
        return False
    E = _simple_edges(g)
    if b is None:
        return g.number_of_vertices() == n and E == [(u, v) for u in range(1, n + 1) for v in range(u + 1, n + 1)]
    if g.number_of_vertices() != n * b:
        return False
    H = networkx.complete_multipartite_graph(*([n] * b))
    return len(E) == n * n * b * (b - 1) // 2 and _iso(g, H)


def _empty(n, tape):
    st, g = _build('simple', ['empty', n], tape)
    if st == 'refused':
        return n <= 0
    return n > 0 and g.number_of_vertices() == n and g.number_of_edges() == 0


def h_e_complete_empty(n: int, b: int, which: int) -> bool:
    """
    pre: -1 <= n <= 4 and -1 <= b <= 3 and 0 <= which <= 1
    post: _
    """
    tape = Tape(limit=2)
    nn, bb = pick(n, -1, 4), pick(b, -1, 3)
    if pick(which, 0, 1) == 0:
        return _finish(untraced(_complete, nn, None if bb == -1 else bb, tape), tape)
    return _finish(untraced(_empty, nn, tape), tape)


def _modifiers(base, k, which, tape):
    bases = [['complete', 3], ['empty', 4], ['grid', 2, 2], ['complete', 2, 2], ['empty', 1]]
    spec = list(bases[base])
    st0, g0 = _build('simple', spec, Tape(limit=2))
    n0, E0 = g0.number_of_vertices(), _simple_edges(g0)
    name = ['plantclique', 'addedges', 'splitedges'][which]
    st, g = _build('simple', spec + [name, k], tape)
    if st == 'cut':
        return True
    missing = n0 * (n0 - 1) // 2 - len(E0)
    if name == 'plantclique':
        legal = 0 <= k <= n0
    elif name == 'addedges':
        legal = 0 <= k <= missing
    else:
        legal = 0 <= k <= len(E0)
    if st == 'refused':
        return not legal
    if not legal:
        return False
    E = _simple_edges(g)
    if name == 'plantclique':
        return g.number_of_vertices() == n0 and set(E0) <= set(E) and _has_clique(n0, E, k) and len(E) <= len(E0) + k * (k - 1) // 2
    if name == 'addedges':
        return g.number_of_vertices() == n0 and set(E0) <= set(E) and len(E) == len(E0) + k
    # splitedges: k new vertices of degree 2, k more edges, the other edges untouched
    if g.number_of_vertices() != n0 + k or len(E) != len(E0) + k:
        return False
    deg = _degrees(n0 + k, E)
    if any(deg[v - 1] != 2 for v in range(n0 + 1, n0 + k + 1)):
        return False
    kept = [e for e in E if e[1] <= n0]
    return set(kept) <= set(E0) and len(kept) == len(E0) - k


def h_e_modifiers(base: int, k: int, which: int) -> bool:
    """
    pre: 0 <= base <= 4 and -1 <= k <= 7 and 0 <= which <= 2
    post: _
    """
    tape = Tape(limit=6)
    w, kk = pick(which, 0, 2), pick(k, -1, 7)
    if w == 1 and 3 <= kk <= 6:
        kk = 7          # adding 3..6 random edges has too many outcomes: covered by the adversarial streams
    return _finish(untraced(_modifiers, pick(base, 0, 4), kk, w, tape), tape)


# --------------------------------------------------------------------- bipartite
def _bip_edges(g):
    return sorted(g.edges())


def _glrm(l, r, m, tape):
    st, g = _build('bipartite', ['glrm', l, r, m], tape)
    legal = l > 0 and r > 0 and 0 <= m <= l * r
    if st == 'cut':
        return True
    if st == 'refused':
        return not legal
    return legal and (g.left_order(), g.right_order()) == (l, r) and g.number_of_edges() == m and len(set(_bip_edges(g))) == m


def h_e_glrm(l: int, r: int, m: int) -> bool:
    """
    pre: 0 <= l <= 2 and 0 <= r <= 3 and -1 <= m <= 7
    post: _
    """
    tape = Tape(limit=8)
    return _finish(untraced(_glrm, pick(l, 0, 2), pick(r, 0, 3), pick(m, -1, 7), tape), tape)


def _glrd(l, r, d, regular, tape):
    st, g = _build('bipartite', ['regular' if regular else 'glrd', l, r, d], tape)
    legal = l > 0 and r > 0 and 0 <= d <= r and (not regular or (d * l) % r == 0)
    if st == 'cut':
        return True
    if st == 'refused':
        return not legal
    if not legal or (g.left_order(), g.right_order()) != (l, r):
        return False
    E = _bip_edges(g)
    for u in range(1, l + 1):
        if sum(1 for e in E if e[0] == u) != d:
            return False
    if regular:
        for v in range(1, r + 1):
            if sum(1 for e in E if e[1] == v) != d * l // r:
                return False
    return True


def h_e_glrd(l: int, r: int, d: int) -> bool:
    """
    pre: 0 <= l <= 3 and 0 <= r <= 3 and -1 <= d <= 4
    post: _
    """
    tape = Tape(limit=12)
    return _finish(untraced(_glrd, pick(l, 0, 3), pick(r, 0, 3), pick(d, -1, 4), False, tape), tape)


def h_e_regular(l: int, r: int, d: int) -> bool:
    """
    pre: 0 <= l <= 2 and 0 <= r <= 2 and -1 <= d <= 3
    post: _
    """
    # Hunt only: "regular on both sides for every random outcome" needs paths with 3d^2 colliding draws that the
    # tape bound cuts; what is explored must be regular
    tape = Tape(limit=6)
    return _finish(untraced(_glrd, pick(l, 0, 2), pick(r, 0, 2), pick(d, -1, 3), True, tape), tape)


def _glrp(l, r, pi, tape):
    p = ['0', '1', '.5', '-1', '2', 'inf'][pi]
    st, g = _build('bipartite', ['glrp', l, r, p], tape)
    pv = float(p)
    legal = l > 0 and r > 0 and 0 <= pv <= 1
    if st == 'cut':
        return True
    if st == 'refused':
        return not legal
    if not legal or (g.left_order(), g.right_order()) != (l, r):
        return False
    if pv == 0 and g.number_of_edges() != 0:
        return False
    if pv == 1 and g.number_of_edges() != l * r:
        return False
    return True


def h_e_glrp(l: int, r: int, pi: int) -> bool:
    """
    pre: 0 <= l <= 2 and 0 <= r <= 3 and 0 <= pi <= 5
    post: _
    """
    tape = Tape(limit=7)
    return _finish(untraced(_glrp, pick(l, 0, 2), pick(r, 0, 3), pick(pi, 0, 5), tape), tape)


def _shift(l, r, pattern, tape):
    st, g = _build('bipartite', ['shift', l, r] + pattern, tape)
    legal = l > 0 and r > 0 and len(set(pattern)) == len(pattern) and all(0 <= x <= r for x in pattern)
    if st == 'refused':
        return not legal
    if not legal or (g.left_order(), g.right_order()) != (l, r):
        return False
    want = sorted({(i, 1 + (i - 1 + v) % r) for i in range(1, l + 1) for v in pattern})
    return _bip_edges(g) == want


def h_e_shift(l: int, r: int, k: int, a: int, b: int) -> bool:
    """
    pre: 0 <= l <= 4 and 0 <= r <= 4 and 0 <= k <= 2 and -1 <= a <= 5 and 0 <= b <= 4
    post: _
    """
    tape = Tape(limit=2)
    return _finish(untraced(_shift, pick(l, 0, 4), pick(r, 0, 4), [pick(a, -1, 5), pick(b, 0, 4)][:pick(k, 0, 2)], tape), tape)


def _bip_fixed(l, r, complete, tape):
    st, g = _build('bipartite', ['complete' if complete else 'empty', l, r], tape)
    legal = l > 0 and r > 0
    if st == 'refused':
        return not legal
    if not legal or (g.left_order(), g.right_order()) != (l, r):
        return False
    want = [(u, v) for u in range(1, l + 1) for v in range(1, r + 1)] if complete else []
    return _bip_edges(g) == want and g.number_of_edges() == len(want)


def _bip_modifiers(base, a, b, which, tape):
    bases = [['empty', 2, 3], ['complete', 2, 2], ['shift', 3, 3, 0], ['empty', 1, 1]]
    spec = list(bases[base])
    st0, g0 = _build('bipartite', spec, Tape(limit=2))
    l, r, E0 = g0.left_order(), g0.right_order(), _bip_edges(g0)
    if which == 0:
        st, g = _build('bipartite', spec + ['plantbiclique', a, b], tape)
        legal = 0 <= a <= l and 0 <= b <= r
    else:
        st, g = _build('bipartite', spec + ['addedges', a], tape)
        legal = 0 <= a <= l * r - len(E0)
    if st == 'cut':
        return True
    if st == 'refused':
        return not legal
    if not legal or (g.left_order(), g.right_order()) != (l, r):
        return False
    E = _bip_edges(g)
    if not set(E0) <= set(E):
        return False
    if which == 1:
        return len(E) == len(E0) + a
    S = set(E)
    for L in itertools.combinations(range(1, l + 1), a):
        for R in itertools.combinations(range(1, r + 1), b):
            if all((u, v) in S for u in L for v in R):
                return len(E) <= len(E0) + a * b
    return False


def h_e_bip_fixed_mod(l: int, r: int, which: int, base: int, a: int, b: int) -> bool:
    """
    pre: 0 <= l <= 3 and 0 <= r <= 3 and 0 <= which <= 3 and 0 <= base <= 3 and -1 <= a <= 4 and 0 <= b <= 3
    post: _
    """
    tape = Tape(limit=6)
    w = pick(which, 0, 3)
    if w <= 1:
        return _finish(untraced(_bip_fixed, pick(l, 0, 3), pick(r, 0, 3), w == 1, tape), tape)
    aa = pick(a, -1, 4)
    if w == 3 and aa == 3:
        aa = 7
    return _finish(untraced(_bip_modifiers, pick(base, 0, 3), aa, pick(b, 0, 3), w - 2, tape), tape)


# -------------------------------------------------------------------------- dags
def _dag(kind, h, tape):
    name = ['path', 'tree', 'pyramid'][kind]
    st, g = _build('dag', [name, h], tape)
    if st == 'refused':
        return h < 0
    if h < 0 or not g.is_dag():
        return False
    E = sorted(g.edges())
    n = g.number_of_vertices()
    if any(u >= v for u, v in E):
        return False
    H = networkx.DiGraph()
    if name == 'path':
        if n != h + 1:
            return False
        H.add_nodes_from(range(h + 1))
        H.add_edges_from((i, i + 1) for i in range(h))
    elif name == 'tree':
        if n != 2 ** (h + 1) - 1:
            return False
        # complete binary tree with edges from children to parent (the root is the only sink)
        H.add_nodes_from(range(1, n + 1))
        for v in range(2, n + 1):
            H.add_edge(v, v // 2)
    else:
        if n != (h + 1) * (h + 2) // 2:
            return False
        layers = [[(l, j) for j in range(h + 1 - l)] for l in range(h + 1)]
        for L in layers:
            H.add_nodes_from(L)
        for l in range(1, h + 1):
            for j in range(h + 1 - l):
                H.add_edge((l - 1, j), (l, j))
                H.add_edge((l - 1, j + 1), (l, j))
    return networkx.is_isomorphic(g.to_networkx(), H)


def h_e_dag(kind: int, h: int) -> bool:
    """
    pre: 0 <= kind <= 2 and -1 <= h <= 4
    post: _
    """
    tape = Tape(limit=2)
    return _finish(untraced(_dag, pick(kind, 0, 2), pick(h, -1, 4), tape), tape)


# ------------------------------------------------------- non-numeric tokens, save
def _tokens(ci, pos, ti, tape):
    specs = [('simple', ['gnp', 3, '.5']), ('simple', ['gnm', 3, 2]), ('simple', ['gnd', 4, 2]), ('simple', ['grid', 2, 2]),
             ('simple', ['complete', 3, 2]), ('simple', ['empty', 3, 'addedges', 1]), ('simple', ['complete', 3, 'plantclique', 2]),
             ('simple', ['complete', 3, 'splitedges', 1]), ('bipartite', ['glrp', 2, 2, '.5']), ('bipartite', ['glrm', 2, 2, 3]),
             ('bipartite', ['glrd', 2, 2, 1]), ('bipartite', ['regular', 2, 2, 1]), ('bipartite', ['shift', 2, 2, 0]),
             ('bipartite', ['empty', 2, 2, 'plantbiclique', 1, 1]), ('dag', ['pyramid', 2]), ('dag', ['tree', 1]), ('dag', ['path', 2])]
    gt, spec = specs[ci]
    spec = list(spec)
    numeric = [i for i, x in enumerate(spec) if not (isinstance(x, str) and x.isalpha())]
    i = numeric[pos % len(numeric)]
    if ti == len(TOKENS):
        del spec[i]                       # a missing argument
    elif ti == len(TOKENS) + 1:
        spec.insert(i, 1)                 # an extra argument
    else:
        spec[i] = TOKENS[ti]
    st, g = _build(gt, spec, tape)        # anything but ValueError / a graph propagates as a violation
    if st == 'ok' and not hasattr(g, 'name'):
        return False
    return True


def h_e_tokens(ci: int, pos: int, ti: int) -> bool:
    """
    pre: 0 <= ci <= 16 and 0 <= pos <= 3 and 0 <= ti <= 7
    post: _
    """
    tape = Tape(limit=6)
    return _finish(untraced(_tokens, pick(ci, 0, 16), pick(pos, 0, 3), pick(ti, 0, 7), tape), tape)


class _FS:
    def __init__(self):
        self.files = {}

    def open(self, name, mode='r', encoding=None):
        fs = self

        class W(io.StringIO):
            def close(w):
                fs.files[name] = w.getvalue()
                io.StringIO.close(w)
        if 'w' in mode:
            f = W()
            f.name = name
            return f
        f = io.StringIO(self.files[name])
        f.name = name
        return f


def _save(ci, fi, tape):
    specs = [('simple', ['gnm', 3, 1], ['kthlist', 'gml', 'dot', 'dimacs']), ('simple', ['grid', 2, 2, 'addedges', 1], ['kthlist', 'gml', 'dot', 'dimacs']),
             ('bipartite', ['glrd', 2, 3, 2], ['kthlist', 'gml', 'dot', 'matrix']), ('bipartite', ['empty', 2, 2, 'plantbiclique', 1, 2], ['kthlist', 'gml', 'dot', 'matrix']),
             ('dag', ['pyramid', 2], ['kthlist', 'gml', 'dot', 'dimacs']), ('dag', ['path', 11], ['kthlist', 'gml', 'dot', 'dimacs']),
             ('simple', ['complete', 3, 'splitedges', 2], ['kthlist', 'gml', 'dot', 'dimacs']),
             ('simple', ['empty', 3, 'plantclique', 2, 'splitedges', 1], ['kthlist', 'gml', 'dot', 'dimacs']),
             ('bipartite', ['empty', 2, 2, 'addedges', 2], ['kthlist', 'gml', 'dot', 'matrix']),
             ('bipartite', ['complete', 2, 3], ['kthlist', 'gml', 'dot', 'matrix']),
             ('bipartite', ['complete', 3, 1, 'plantbiclique', 1, 1], ['kthlist', 'gml', 'dot', 'matrix'])]
    gt, spec, fmts = specs[ci]
    fmt = fmts[fi]
    fs = _FS()
    had = hasattr(G, 'open')
    G.open = fs.open
    try:
        explicit = fi % 2 == 0
        st, g = _build(gt, spec + (['save', fmt, 'out.file'] if explicit else ['save', 'out.' + fmt]), tape)
    finally:
        del G.open
    if st == 'cut':
        return True
    if st != 'ok':
        return False
    name = 'out.file' if explicit else 'out.' + fmt
    if name not in fs.files:
        return False
    back = G.readGraph(io.StringIO(fs.files[name]), gt, fmt)
    if gt == 'bipartite':
        return (back.left_order(), back.right_order(), sorted(back.edges())) == (g.left_order(), g.right_order(), sorted(g.edges()))
    if gt == 'simple':
        return (back.number_of_vertices(), _simple_edges(back)) == (g.number_of_vertices(), _simple_edges(g))
    return (back.number_of_vertices(), sorted(back.edges())) == (g.number_of_vertices(), sorted(g.edges()))


def h_e_save(ci: int, fi: int) -> bool:
    """
    pre: 0 <= ci <= 10 and 0 <= fi <= 3
    post: _
    """
    tape = Tape(limit=5)
    return _finish(untraced(_save, pick(ci, 0, 10), pick(fi, 0, 3), tape), tape)


# ------------------------------------------------- deterministic adversarial draw streams
STREAMS = [lambda i: i, lambda i: i // 2, lambda i: i // 3, lambda i: i * (i + 1) // 2, lambda i: 3 * i + 1, lambda i: (i * 1103515245 + 12345) // 65536 % 32768]
ADV = [('simple', ['gnm', 5, 7]), ('simple', ['gnm', 4, 6]), ('simple', ['gnd', 4, 2]), ('simple', ['gnd', 6, 3]), ('simple', ['gnd', 4, 3]),
       ('simple', ['empty', 4, 'addedges', 6]), ('simple', ['complete', 2, 2, 'addedges', 2]), ('simple', ['grid', 2, 3, 'addedges', 5]),
       ('simple', ['complete', 4, 'splitedges', 6]), ('simple', ['gnm', 5, 4, 'plantclique', 4]),
       ('bipartite', ['glrm', 3, 3, 3]), ('bipartite', ['glrm', 3, 3, 4]), ('bipartite', ['glrm', 3, 3, 9]), ('bipartite', ['glrm', 4, 3, 4]),
       ('bipartite', ['regular', 3, 3, 2]), ('bipartite', ['regular', 4, 2, 1]), ('bipartite', ['regular', 4, 4, 3]),
       ('bipartite', ['empty', 3, 3, 'addedges', 9]), ('bipartite', ['glrd', 3, 3, 1, 'addedges', 5]), ('bipartite', ['glrd', 3, 4, 4]),
       ('bipartite', ['regular', 2, 4, 2]), ('bipartite', ['regular', 3, 6, 4]), ('bipartite', ['regular', 4, 6, 3]), ('bipartite', ['regular', 6, 4, 2]),
       ('bipartite', ['regular', 6, 9, 6]), ('bipartite', ['regular', 9, 6, 4])]


def _adversarial(ci, si):
    gt, spec = ADV[ci]
    tape = Tape(concrete=STREAMS[si], limit=20000)
    st, g = _build(gt, spec, tape)
    if st == 'cut':
        return True                     # the stream never satisfies a retry loop (probability-zero behaviour of a real generator)
    if st != 'ok':
        return False
    if gt == 'simple':
        E = _simple_edges(g)
        n = g.number_of_vertices()
        if spec[0] == 'gnm' and 'plantclique' not in spec:
            return n == spec[1] and len(E) == spec[2]
        if spec[0] == 'gnd':
            return n == spec[1] and _degrees(n, E) == [spec[2]] * n
        if 'addedges' in spec:
            base = {('empty', 4): 0, ('complete', 2): 4, ('grid', 2): 7}[(spec[0], spec[1])]
            return len(E) == base + spec[-1] and len(set(E)) == len(E)
        if 'splitedges' in spec:
            return n == 4 + 6 and len(E) == 6 + 6 and all(_degrees(n, E)[v - 1] == 2 for v in range(5, 11))
        return _has_clique(n, E, 4)
    E = _bip_edges(g)
    if spec[0] == 'glrm':
        return len(E) == spec[3] and len(set(E)) == len(E)
    if spec[0] == 'regular':
        l, r, d = spec[1:4]
        return all(sum(1 for e in E if e[0] == u) == d for u in range(1, l + 1)) and \
            all(sum(1 for e in E if e[1] == v) == d * l // r for v in range(1, r + 1))
    if spec[0] == 'empty':
        return len(E) == 9
    if 'addedges' in spec:
        return len(E) == 3 + 5
    return all(sum(1 for e in E if e[0] == u) == 4 for u in range(1, 4))


def h_e_adversarial(ci: int, si: int) -> bool:
    """
    pre: 0 <= ci <= 25 and 0 <= si <= 5
    post: _
    """
    # fixed (deterministic, adversarial) draw streams instead of all outcomes: repeated / slowly varying values force the
    # retry loops to give up and the dense fallbacks to run at sizes the exhaustive exploration cannot reach
    return untraced(_adversarial, pick(ci, 0, 25), pick(si, 0, 5))


def h_e_modifiers_0(base: int, k: int) -> bool:
    """
    pre: 0 <= base <= 4 and -1 <= k <= 5
    post: _
    """
    tape = Tape(limit=6)
    return _finish(untraced(_modifiers, pick(base, 0, 4), pick(k, -1, 5), 0, tape), tape)


def h_e_modifiers_1(base: int, k: int) -> bool:
    """
    pre: 0 <= base <= 4 and -1 <= k <= 3
    post: _
    """
    tape = Tape(limit=6)
    kk = pick(k, -1, 3)
    return _finish(untraced(_modifiers, pick(base, 0, 4), 7 if kk == 3 else kk, 1, tape), tape)


def h_e_modifiers_2(base: int, k: int) -> bool:
    """
    pre: 0 <= base <= 4 and -1 <= k <= 5
    post: _
    """
    tape = Tape(limit=6)
    return _finish(untraced(_modifiers, pick(base, 0, 4), pick(k, -1, 5), 2, tape), tape)


def h_e_bip_fixed(l: int, r: int, complete: bool) -> bool:
    """
    pre: -1 <= l <= 3 and -1 <= r <= 3
    post: _
    """
    tape = Tape(limit=2)
    return _finish(untraced(_bip_fixed, pick(l, -1, 3), pick(r, -1, 3), pickb(complete), tape), tape)


def h_e_bip_plant(base: int, a: int, b: int) -> bool:
    """
    pre: 0 <= base <= 3 and -1 <= a <= 4 and -1 <= b <= 4
    post: _
    """
    tape = Tape(limit=6)
    return _finish(untraced(_bip_modifiers, pick(base, 0, 3), pick(a, -1, 4), pick(b, -1, 4), 0, tape), tape)


def h_e_bip_addedges(base: int, a: int) -> bool:
    """
    pre: 0 <= base <= 3 and -1 <= a <= 3
    post: _
    """
    tape = Tape(limit=6)
    aa = pick(a, -1, 3)
    return _finish(untraced(_bip_modifiers, pick(base, 0, 3), 7 if aa == 3 else aa, 0, 1, tape), tape)


# ------------------------------------------------- 'regular' under draw streams on which every attempt dead-ends
REG = [(3, 6, 4), (4, 6, 3), (6, 4, 2), (6, 9, 6), (9, 6, 4), (5, 10, 8), (10, 4, 2), (3, 3, 2), (4, 4, 3), (8, 12, 9)]


class _DeadEnd(Exception):
    pass


def _deadend_period(l, r, d, k):
    """the draws of one attempt of the sampler that ends in a dead end (found by running the real code on pseudo-random
    draws until it asks for a fresh attempt), or None.  Repeated cyclically they make EVERY attempt end that way."""
    import random as _r
    rng = _r.Random(1000 * k + 7)
    rec = []
    tape = Tape(concrete=lambda i: rec[i] if i < len(rec) else rec.append(rng.randrange(1 << 30)) or rec[-1], limit=3000)
    saved = G.bipartite_random_regular

    def again(*a, **kw):
        raise _DeadEnd()
    try:
        with environment(tape):
            G.bipartite_random_regular = again        # the sampler restarts itself through the module-level name
            try:
                saved(l, r, d)
            except _DeadEnd:
                return rec[:len(tape.log)]
            except TapeExhausted:
                return None
            finally:
                G.bipartite_random_regular = saved
    finally:
        G.bipartite_random_regular = saved
    return None


def _regular_deadend(ri, k):
    """the sampler behind 'regular L R d' answers a dead end by a fresh attempt.  On a periodic stream whose period is one
    dead-ending attempt it can only go on until the draws (or the stack) run out, or give up with an error - neither is
    a verdict here - but a graph it RETURNS is regular of the requested degrees on both sides (R not dividing L included)."""
    l, r, d = REG[ri]
    per = _deadend_period(l, r, d, k)
    if not per:
        return True
    tape = Tape(concrete=lambda i: per[i % len(per)], limit=60000)
    try:
        st, g = _build('bipartite', ['regular', l, r, d], tape)
    except RecursionError:
        return True
    if st != 'ok':
        return True
    E = _bip_edges(g)
    if (g.left_order(), g.right_order()) != (l, r) or len(set(E)) != len(E):
        return False
    return all(sum(1 for e in E if e[0] == u) == d for u in range(1, l + 1)) and \
        all(sum(1 for e in E if e[1] == v) == d * l // r for v in range(1, r + 1))


def h_e_regular_deadend(ri: int, k: int) -> bool:
    """
    pre: 0 <= ri <= 9 and 0 <= k <= 5
    post: _
    """
    return untraced(_regular_deadend, pick(ri, 0, 9), pick(k, 0, 5))
