"""CrossHair harnesses for C17: a command line builds the same formula as the library call it stands for.

Enumerative mode over an argv grammar: numbers are solver-chosen in small legal ranges, options are solver-chosen
booleans, graph arguments come from a menu (constructions without randomness, files, and a file written by `save`
in the same run).  cli(argv, mode='formula') of cnfgen (CNF class) and pbgen (OPB class) must have the same
number of variables, the same variable names and the same rows, in the same order, as the documented library
generator applied to the same numbers and to the graph that make_graph_from_spec builds from the same spec.
"""
import contextlib
import io
import os
import sys

import cnfgen.clitools.cnfgen  # noqa
import cnfgen.clitools.pbgen  # noqa
import cnfgen.clitools.kthlist2pebbling  # noqa
import cnfgen.clitools.cnfshuffle  # noqa
import cnfgen.graphs as GR
import cnfgen.clitools.graph_fileinput as GF
from cnfgen.clitools.graph_args import make_graph_from_spec
from cnfgen.clitools.cmdline import CLIError
from cnfgen.formula.cnf import CNF
from cnfgen.formula.opb import OPB
from vlib.xh.xutil import pick, pickb, untraced, Tape, FakeRandom
import vlib.xh.xutil as _xutil

DATA = os.path.join(os.path.dirname(os.path.abspath(_xutil.__file__)), 'data')

SIMPLE = [['complete', 3], ['grid', 2, 2], ['empty', 3], ['complete', 2, 2], ['torus', 3, 3], ['empty', 1],
          [os.path.join(DATA, 'g1.gml')], ['gml', os.path.join(DATA, 'g1.gml')], ['complete', 4]]
BIP = [['complete', 2, 2], ['empty', 2, 3], ['shift', 3, 3, 0, 1], ['complete', 3, 2], [os.path.join(DATA, 'b1.matrix')], ['shift', 2, 4, 1, 3]]
DAG = [['path', 2], ['tree', 1], ['pyramid', 2], ['path', 0], [os.path.join(DATA, 'd1.kthlist')], ['kthlist', os.path.join(DATA, 'd2.kthlist')]]


def _tool(name):
    return sys.modules['cnfgen.clitools.' + name]


def run_tool(tool, argv, mode='formula'):
    import cnfgen.clitools.msg as msg
    msg._prefix = ''
    try:
        with contextlib.redirect_stderr(io.StringIO()):
            return _tool(tool).cli([tool] + [str(a) for a in argv], mode=mode)
    finally:
        msg._prefix = ''


def rows(F):
    if hasattr(F, 'clauses'):
        return [list(c) for c in F.clauses()]
    return [list(c) for c in F.constraints()]


def same(F, L):
    return (type(F).__name__ == type(L).__name__ and F.number_of_variables() == L.number_of_variables() and
            list(F.all_variable_labels()) == list(L.all_variable_labels()) and rows(F) == rows(L))


def g(gt, spec):
    return make_graph_from_spec(gt, [str(x) for x in spec])


def both(argv, lib):
    """cnfgen vs library(CNF) and pbgen vs library(OPB)"""
    for tool, cls in (('cnfgen', CNF), ('pbgen', OPB)):
        F = run_tool(tool, ['-q'] + argv)
        if not same(F, lib(cls)):
            return False
    return True


# ------------------------------------------------------------------ family templates
def _php(m, n, fn, on):
    from cnfgen.families.pigeonhole import PigeonholePrinciple
    flags = (['--functional'] if fn else []) + (['--onto'] if on else [])
    return both(['php', m, n] + flags, lambda c: PigeonholePrinciple(m, n, functional=fn, onto=on, formula_class=c)) and \
        both(['php'] + flags + [n], lambda c: PigeonholePrinciple(n + 1, n, functional=fn, onto=on, formula_class=c)) and \
        both(['php', m, n, n] + flags, lambda c: PigeonholePrinciple(m, n, functional=fn, onto=on, formula_class=c))


def h_e_php(m: int, n: int, fn: bool, on: bool) -> bool:
    """
    pre: 0 <= m <= 3 and 0 <= n <= 3
    post: _
    """
    return untraced(_php, pick(m, 0, 3), pick(n, 0, 3), pickb(fn), pickb(on))


def _gphp(bi, fn, on, eq):
    from cnfgen.families.pigeonhole import GraphPigeonholePrinciple
    from cnfgen.families.subsetcardinality import SubsetCardinalityFormula
    flags = (['--functional'] if fn else []) + (['--onto'] if on else [])
    return both(['php'] + flags + BIP[bi], lambda c: GraphPigeonholePrinciple(g('bipartite', BIP[bi]), functional=fn, onto=on, formula_class=c)) and \
        both(['subsetcard'] + (['--equal'] if eq else []) + BIP[bi], lambda c: SubsetCardinalityFormula(g('bipartite', BIP[bi]), equalities=eq, formula_class=c))


def h_e_bipartite(bi: int, fn: bool, on: bool, eq: bool) -> bool:
    """
    pre: 0 <= bi <= 5
    post: _
    """
    return untraced(_gphp, pick(bi, 0, 5), pickb(fn), pickb(on), pickb(eq))


def _numeric(a, b, c):
    from cnfgen.families.pigeonhole import BinaryPigeonholePrinciple, RelativizedPigeonholePrinciple
    from cnfgen.families.counting import CountingPrinciple
    from cnfgen.families.cliquecoloring import CliqueColoring
    from cnfgen.families.ramsey import RamseyNumber, VanDerWaerden, PythagoreanTriples
    from cnfgen.families.cpls import CPLSFormula
    ok = both(['rphp', a, b, c], lambda k: RelativizedPigeonholePrinciple(a, b, c, formula_class=k))
    ok = ok and both(['count', a + b, c + 1], lambda k: CountingPrinciple(a + b, c + 1, formula_class=k))
    ok = ok and both(['parity', a + 2 * b], lambda k: CountingPrinciple(a + 2 * b, 2, formula_class=k))
    ok = ok and both(['bphp', a + 1, b + c + 1], lambda k: BinaryPigeonholePrinciple(a + 1, b + c + 1, formula_class=k))
    ok = ok and both(['cliquecoloring', a + b, c + 1, a + 1], lambda k: CliqueColoring(a + b, c + 1, a + 1, formula_class=k))
    ok = ok and both(['ram', a + 1, b + 1, c + 2], lambda k: RamseyNumber(a + 1, b + 1, c + 2, formula_class=k))
    ok = ok and both(['vdw', a + b + c, a + 1, b + 1], lambda k: VanDerWaerden(a + b + c, a + 1, b + 1, formula_class=k))
    ok = ok and both(['vdw', a + 3, b + 1, c + 1, a + 1], lambda k: VanDerWaerden(a + 3, b + 1, c + 1, a + 1, formula_class=k))
    ok = ok and both(['ptn', 5 * a + 3 * b + c], lambda k: PythagoreanTriples(5 * a + 3 * b + c, formula_class=k))
    ok = ok and both(['cpls', a + 1, 1 << b, 1 << c], lambda k: CPLSFormula(a + 1, 1 << b, 1 << c, formula_class=k))
    return ok


def h_e_numeric(a: int, b: int, c: int) -> bool:
    """
    pre: 0 <= a <= 2 and 0 <= b <= 2 and 0 <= c <= 2
    post: _
    """
    return untraced(_numeric, pick(a, 0, 2), pick(b, 0, 2), pick(c, 0, 2))


def _simple_graph(gi, k, flag):
    from cnfgen.families.counting import PerfectMatchingPrinciple
    from cnfgen.families.tseitin import TseitinFormula
    from cnfgen.families.coloring import GraphColoringFormula, EvenColoringFormula
    from cnfgen.families.dominatingset import DominatingSet, Tiling
    from cnfgen.families.graphisomorphism import GraphAutomorphism
    from cnfgen.families.subgraph import CliqueFormula, BinaryCliqueFormula, RamseyWitnessFormula
    S = SIMPLE[gi]
    G = lambda: g('simple', S)
    n = G().order()
    ok = both(['matching'] + S, lambda c: PerfectMatchingPrinciple(G(), formula_class=c))
    ok = ok and both(['tiling'] + S, lambda c: Tiling(G(), formula_class=c))
    ok = ok and both(['iso'] + S, lambda c: GraphAutomorphism(G(), formula_class=c))
    for name, ch in (('first', [1] + [0] * (n - 1)), ('zero', [0] * n), ('one', [1] * n)):
        ok = ok and both(['tseitin', name] + S, lambda c, ch=ch: TseitinFormula(G(), ch, formula_class=c))
    ok = ok and both(['kcolor', k] + S, lambda c: GraphColoringFormula(G(), k, formula_class=c))
    ok = ok and both(['domset'] + (['--alternative'] if flag else []) + [k] + S, lambda c: DominatingSet(G(), k, alternative=flag, formula_class=c))
    ok = ok and both(['domset', k] + (['-a'] if flag else []) + S, lambda c: DominatingSet(G(), k, alternative=flag, formula_class=c))
    ok = ok and both(['kclique', k] + S + ([] if flag else ['--no-symmetry-breaking']), lambda c: CliqueFormula(G(), k, symbreak=flag, formula_class=c))
    ok = ok and both(['kclique', k - 1] + S, lambda c: CliqueFormula(G(), k - 1, formula_class=c))
    ok = ok and both(['kcliquebin', k] + S, lambda c: BinaryCliqueFormula(G(), k, formula_class=c))
    ok = ok and both(['ramlb', k, k - 1] + S, lambda c: RamseyWitnessFormula(G(), k, k - 1, formula_class=c))
    deg_even = all(G().degree(v) % 2 == 0 for v in range(1, n + 1))
    if deg_even:
        ok = ok and both(['ec'] + S, lambda c: EvenColoringFormula(G(), formula_class=c))
    return ok


def h_e_simple_graph(gi: int, k: int, flag: bool) -> bool:
    """
    pre: 0 <= gi <= 8 and 1 <= k <= 3
    post: _
    """
    return untraced(_simple_graph, pick(gi, 0, 8), pick(k, 1, 3), pickb(flag))


def _two_graphs(g1, g2):
    from cnfgen.families.graphisomorphism import GraphIsomorphism
    from cnfgen.families.subgraph import SubgraphFormula
    A, B = SIMPLE[g1], SIMPLE[g2]
    ok = both(['iso'] + A + ['-e'] + B, lambda c: GraphIsomorphism(g('simple', A), g('simple', B), formula_class=c))
    ok = ok and both(['subgraph', '-G'] + A + ['-H'] + B, lambda c: SubgraphFormula(g('simple', A), g('simple', B), formula_class=c))
    return ok


def h_e_two_graphs(g1: int, g2: int) -> bool:
    """
    pre: 0 <= g1 <= 8 and 0 <= g2 <= 6
    post: _
    """
    return untraced(_two_graphs, pick(g1, 0, 8), pick(g2, 0, 6))


def _ordering(n, variant, plant, gi):
    from cnfgen.families.ordering import OrderingPrinciple, GraphOrderingPrinciple
    flags, kw = [([], {}), (['--total'], {'total': True}), (['--smart'], {'smart': True}), (['--knuth2'], {'knuth': 2}),
                 (['--knuth3'], {'knuth': 3}), (['-t'], {'total': True}), (['-s'], {'smart': True})][variant]
    kw = dict(kw, plant=plant)
    fl = flags + (['--plant'] if plant else [])
    ok = both(['op'] + fl + [n], lambda c: OrderingPrinciple(n, formula_class=c, **kw))
    ok = ok and both(['op'] + fl + SIMPLE[gi], lambda c: GraphOrderingPrinciple(g('simple', SIMPLE[gi]), formula_class=c, **kw))
    return ok


def h_e_ordering(n: int, variant: int, plant: bool, gi: int) -> bool:
    """
    pre: 1 <= n <= 4 and 0 <= variant <= 6 and 0 <= gi <= 5
    post: _
    """
    return untraced(_ordering, pick(n, 1, 4), pick(variant, 0, 6), pickb(plant), pick(gi, 0, 5))


def _dags(di, s):
    from cnfgen.families.pebbling import PebblingFormula, StoneFormula
    D = DAG[di]
    ok = both(['peb'] + D, lambda c: PebblingFormula(g('dag', D), formula_class=c))
    ok = ok and both(['stone', s] + D, lambda c: StoneFormula(g('dag', D), s, formula_class=c))
    if D[-1].endswith('.kthlist') if isinstance(D[-1], str) else False:
        F = run_tool('kthlist2pebbling', ['-q', '-i', D[-1]])
        ok = ok and same(F, PebblingFormula(g('dag', D)))
        ok = ok and same(F, run_tool('cnfgen', ['-q', 'peb', D[-1]]))
    return ok


def h_e_dags(di: int, s: int) -> bool:
    """
    pre: 0 <= di <= 5 and 1 <= s <= 2
    post: _
    """
    return untraced(_dags, pick(di, 0, 5), pick(s, 1, 2))


def _simple_formulas(p, n, fi):
    ok = True
    for tool, cls in (('cnfgen', CNF), ('pbgen', OPB)):
        F = run_tool(tool, ['-q', 'or', p, n])
        L = cls()
        L.new_block(p, label='x_{}')
        L.new_block(n, label='y_{}')
        L.add_clause(list(range(1, p + 1)) + [-v for v in range(p + 1, p + n + 1)])
        ok = ok and same(F, L)
        F = run_tool(tool, ['-q', 'and', p, n])
        L = cls()
        L.new_block(p, label='x_{}')
        L.new_block(n, label='y_{}')
        for v in range(1, p + 1):
            L.add_clause([v])
        for v in range(p + 1, p + n + 1):
            L.add_clause([-v])
        ok = ok and same(F, L)
        ok = ok and same(run_tool(tool, ['-q', 'true']), cls())
        L = cls()
        L.add_clause([])
        ok = ok and same(run_tool(tool, ['-q', 'false']), L)
    path = os.path.join(DATA, 'f%d.cnf' % fi)
    ok = ok and same(run_tool('cnfgen', ['-q', 'dimacs', path]), CNF.from_file(path))
    return ok


def h_e_simple_formulas(p: int, n: int, fi: int) -> bool:
    """
    pre: 0 <= p <= 2 and 0 <= n <= 2 and 0 <= fi <= 11
    post: _
    """
    return untraced(_simple_formulas, pick(p, 0, 2), pick(n, 0, 2), pick(fi, 0, 11))


# ------------------------------------------------------------------ transformations
def _lib_transform(F, t):
    from cnfgen.transformations import substitutions as S
    name = t[0]
    table = {'xor': S.XorSubstitution, 'or': S.OrSubstitution, 'maj': S.MajoritySubstitution, 'eq': S.AllEqualSubstitution,
             'neq': S.NotAllEqualSubstitution, 'one': S.ExactlyOneSubstitution, 'lift': S.FormulaLifting}
    if name in table:
        return table[name](F, t[1])
    if name in ('exact', 'atleast', 'atmost', 'anybut'):
        f = {'exact': S.ExactlyKSubstitution, 'atleast': S.AtLeastKSubstitution, 'atmost': S.AtMostKSubstitution, 'anybut': S.AnythingButKSubstitution}[name]
        return f(F, t[1], t[2])
    if name == 'ite':
        return S.IfThenElseSubstitution(F)
    if name == 'flip':
        return S.FlipPolarity(F)
    if name == 'none':
        return F
    if name in ('xorcomp', 'majcomp'):
        return S.VariableCompression(F, g('bipartite', t[1:]), 'xor' if name == 'xorcomp' else 'maj')
    raise KeyError(name)


TRANSF = [['xor', 2], ['or', 2], ['maj', 3], ['eq', 2], ['neq', 2], ['one', 2], ['lift', 2], ['exact', 3, 1], ['atleast', 2, 1],
          ['atmost', 2, 1], ['anybut', 2, 1], ['ite'], ['flip'], ['none'], ['xor', 1], ['or', 3]]
BASES = [['php', 3, 2], ['op', 3], ['or', 2, 1], ['false'], ['tseitin', 'first', 'complete', 3], ['true']]


def _chain(bi, t1, t2, two):
    base = BASES[bi]
    chain = [TRANSF[t1]] + ([TRANSF[t2]] if two else [])
    argv = ['-q'] + base
    for t in chain:
        argv += ['-T'] + t
    F = run_tool('cnfgen', argv)
    L = run_tool('cnfgen', ['-q'] + base)
    for t in chain:
        L = _lib_transform(L, t)
    return same(F, L)


ARITY_NAMES = ['xor', 'or', 'maj', 'eq', 'neq', 'one', 'lift', 'exact', 'atleast', 'atmost', 'anybut']


def _arity(ni, k, ki, after):
    """every arity from 1 to 9 (and thresholds 1, 2, k//2, k, k+1) gives the library's substitution, alone and after -T xor 2"""
    name = ARITY_NAMES[ni]
    t = [name, k]
    if name in ('exact', 'atleast', 'atmost', 'anybut'):
        t.append([1, 2, max(1, k // 2), k, k + 1][ki])
    if (after and k > 3) or (name in ('xor', 'maj') and k > 5 and after):
        return True                       # cut: gadget sizes multiply along a chain
    base = ['and', 1, 1]                   # one positive and one negative unit clause: both gadgets of every arity, linear size
    chain = ([['xor', 2]] if after else []) + [t]
    argv = ['-q'] + base
    for c in chain:
        argv += ['-T'] + c
    try:
        F = run_tool('cnfgen', argv)
    except CLIError:
        return len(t) == 3 and t[2] > k          # only a threshold above the arity may be refused
    L = run_tool('cnfgen', ['-q'] + base)
    for c in chain:
        L = _lib_transform(L, c)
    return same(F, L)


def h_e_arity(ni: int, kk: int, after: bool) -> bool:
    """
    pre: 0 <= ni <= 6 and 0 <= kk <= 4
    post: _
    """
    return untraced(_arity, pick(ni, 0, 6), [1, 2, 4, 5, 9][pick(kk, 0, 4)], 0, pickb(after))


def h_e_arity_thr(ni: int, kk: int, ki: int) -> bool:
    """
    pre: 7 <= ni <= 10 and 0 <= kk <= 4 and 0 <= ki <= 4
    post: _
    """
    return untraced(_arity, pick(ni, 7, 10), [1, 2, 3, 5, 9][pick(kk, 0, 4)], pick(ki, 0, 4), False)


def h_e_chain_0(t1: int, t2: int) -> bool:
    """
    pre: 0 <= t1 <= 15 and 0 <= t2 <= 6
    post: _
    """
    # second transformation: none (single -T) or one of xor 2, maj 3, one 2, lift 2, ite, flip
    tt2 = pick(t2, 0, 6)
    return untraced(_chain, 0, pick(t1, 0, 15), [0, 0, 2, 5, 6, 11, 12][tt2], tt2 > 0)


def h_e_chain_1(t1: int, t2: int) -> bool:
    """
    pre: 0 <= t1 <= 15 and 0 <= t2 <= 6
    post: _
    """
    # second transformation: none (single -T) or one of xor 2, maj 3, one 2, lift 2, ite, flip
    tt2 = pick(t2, 0, 6)
    return untraced(_chain, 1, pick(t1, 0, 15), [0, 0, 2, 5, 6, 11, 12][tt2], tt2 > 0)


def h_e_chain_2(t1: int, t2: int) -> bool:
    """
    pre: 0 <= t1 <= 15 and 0 <= t2 <= 6
    post: _
    """
    # second transformation: none (single -T) or one of xor 2, maj 3, one 2, lift 2, ite, flip
    tt2 = pick(t2, 0, 6)
    return untraced(_chain, 2, pick(t1, 0, 15), [0, 0, 2, 5, 6, 11, 12][tt2], tt2 > 0)


def h_e_chain_3(t1: int, t2: int) -> bool:
    """
    pre: 0 <= t1 <= 15 and 0 <= t2 <= 6
    post: _
    """
    # second transformation: none (single -T) or one of xor 2, maj 3, one 2, lift 2, ite, flip
    tt2 = pick(t2, 0, 6)
    return untraced(_chain, 3, pick(t1, 0, 15), [0, 0, 2, 5, 6, 11, 12][tt2], tt2 > 0)


def h_e_chain_4(t1: int, t2: int) -> bool:
    """
    pre: 0 <= t1 <= 15 and 0 <= t2 <= 6
    post: _
    """
    # second transformation: none (single -T) or one of xor 2, maj 3, one 2, lift 2, ite, flip
    tt2 = pick(t2, 0, 6)
    return untraced(_chain, 4, pick(t1, 0, 15), [0, 0, 2, 5, 6, 11, 12][tt2], tt2 > 0)


def h_e_chain_5(t1: int, t2: int) -> bool:
    """
    pre: 0 <= t1 <= 15 and 0 <= t2 <= 6
    post: _
    """
    # second transformation: none (single -T) or one of xor 2, maj 3, one 2, lift 2, ite, flip
    tt2 = pick(t2, 0, 6)
    return untraced(_chain, 5, pick(t1, 0, 15), [0, 0, 2, 5, 6, 11, 12][tt2], tt2 > 0)


def _compression(bi, ci, maj):
    from cnfgen.transformations import substitutions as S
    base = BASES[bi]
    L = run_tool('cnfgen', ['-q'] + base)
    n = L.number_of_variables()
    specs = [['complete', n, 2], ['shift', n, n + 1, 0, 1], ['empty', n, 3]] if n > 0 else []
    if not specs:
        return True
    spec = specs[ci]
    name = 'majcomp' if maj else 'xorcomp'
    F = run_tool('cnfgen', ['-q'] + base + ['-T', name] + spec)
    return same(F, S.VariableCompression(L, g('bipartite', spec), 'maj' if maj else 'xor'))


def h_e_compression(bi: int, ci: int, maj: bool) -> bool:
    """
    pre: 0 <= bi <= 4 and 0 <= ci <= 2
    post: _
    """
    return untraced(_compression, pick(bi, 0, 4), pick(ci, 0, 2), pickb(maj))


# ----------------------------------------------- randomness: same deterministic stream on both sides
def _lcg(a, c):
    def f(i):
        x = 12345
        # i-th value of a linear congruential sequence (closed form not needed for these small i)
        return ((i + 1) * a * (i + 7) + c * i + (i * i * i) // 3) // 7 % 32768
    return f


STREAMS = [lambda i: (i * 1103515245 + 12345) // 65536 % 32768, lambda i: (i * 214013 + 2531011) // 4096 % 32749,
           lambda i: ((i + 3) * 69069 + (i * i) * 40503 + 1) // 512 % 30011]


@contextlib.contextmanager
def stream(si):
    import random as _random
    from vlib.xh.c07 import _METHODS
    fake = FakeRandom(Tape(concrete=STREAMS[si], limit=10 ** 6))
    saved = {m: getattr(_random, m) for m in _METHODS}
    saved_inst = _random._inst
    for m in _METHODS:
        if hasattr(fake, m):
            setattr(_random, m, getattr(fake, m))
    _random._inst = fake
    try:
        yield
    finally:
        for m in _METHODS:
            setattr(_random, m, saved[m])
        _random._inst = saved_inst


def _random_cmds(ci, si):
    from cnfgen.families.randomformulas import RandomKCNF
    from cnfgen.families.randomkxor import RandomKXOR
    from cnfgen.families.pigeonhole import GraphPigeonholePrinciple
    from cnfgen.families.pebbling import SparseStoneFormula
    from cnfgen.families.coloring import GraphColoringFormula
    from cnfgen.families.pitfall import PitfallFormula
    cases = [
        (['randkcnf', 2, 4, 3], lambda c: RandomKCNF(2, 4, 3, formula_class=c)),
        (['randkxor', 2, 4, 2], lambda c: RandomKXOR(2, 4, 2, formula_class=c)),
        (['php', 3, 3, 2], lambda c: GraphPigeonholePrinciple(GR.bipartite_random_left_regular(3, 3, 2), formula_class=c)),
        (['stone', 2, 'path', 1, '--sparse', 1], lambda c: SparseStoneFormula(g('dag', ['path', 1]), GR.bipartite_random_left_regular(2, 2, 1), formula_class=c)),
        (['kcolor', 2, 'gnm', 4, 3], lambda c: GraphColoringFormula(g('simple', ['gnm', 4, 3]), 2, formula_class=c)),
        (['kcolor', 2, 'gnp', 4, '.5', 'plantclique', 2], lambda c: GraphColoringFormula(g('simple', ['gnp', 4, '.5', 'plantclique', 2]), 2, formula_class=c)),
        (['php', 'glrd', 3, 3, 2, 'addedges', 1], lambda c: GraphPigeonholePrinciple(g('bipartite', ['glrd', 3, 3, 2, 'addedges', 1]), formula_class=c)),
        (['pitfall', 4, 2, 2, 2, 2], lambda c: PitfallFormula(4, 2, 2, 2, 2, formula_class=c)),
    ]
    argv, lib = cases[ci]
    for tool, cls in (('cnfgen', CNF), ('pbgen', OPB)):
        with stream(si):
            F = run_tool(tool, ['-q'] + argv)
        with stream(si):
            L = lib(cls)
        if not same(F, L):
            return False
    return True


def h_e_random_cmds(ci: int, si: int) -> bool:
    """
    pre: 0 <= ci <= 7 and 0 <= si <= 2
    post: _
    """
    return untraced(_random_cmds, pick(ci, 0, 7), pick(si, 0, 2))


def _php3(m, n, d, fn, si):
    """php M N D: pigeons fly to D random holes each (documented); D = N is the plain principle, D = 0 the edgeless graph"""
    from cnfgen.families.pigeonhole import GraphPigeonholePrinciple, PigeonholePrinciple
    flags = ['--functional'] if fn else []
    for tool, cls in (('cnfgen', CNF), ('pbgen', OPB)):
        with stream(si):
            try:
                F = run_tool(tool, ['-q', 'php', m, n, d] + flags)
            except CLIError:
                F = None
        if d > n:
            if F is not None:
                return False
            continue
        if F is None:
            return False
        with stream(si):
            if d == n:
                L = PigeonholePrinciple(m, n, functional=fn, formula_class=cls)
            else:
                L = GraphPigeonholePrinciple(GR.bipartite_random_left_regular(m, n, d), functional=fn, formula_class=cls)
        if not same(F, L):
            return False
    return True


def h_e_php3(m: int, n: int, d: int, fn: bool, si: int) -> bool:
    """
    pre: 0 <= m <= 3 and 0 <= n <= 3 and 0 <= d <= 4 and 0 <= si <= 2
    post: _
    """
    return untraced(_php3, pick(m, 0, 3), pick(n, 0, 3), pick(d, 0, 4), pickb(fn), pick(si, 0, 2))


def _lattice_pair(shape_i, torus, mod_i, si, cmd_i):
    """two graph arguments of the same shape on one command line, the first one with a random modifier: the second
    argument is still the plain lattice (no state is shared between graph arguments)"""
    import networkx
    from cnfgen.families.graphisomorphism import GraphIsomorphism
    from cnfgen.families.subgraph import SubgraphFormula
    dims = [[2, 3], [3, 3], [2, 2], [3, 4]][shape_i]
    if torus and min(dims) < 3:
        return True
    name = 'torus' if torus else 'grid'
    mod = [['addedges', 2], ['plantclique', 3], ['splitedges', 1]][mod_i]
    fs = _FS()
    GR.open = fs.open
    GF.open = fs.open
    try:
        first = [name] + dims + mod + ['save', 'first.kthlist']
        second = [name] + dims
        argv = (['iso'] + first + ['-e'] + second) if cmd_i == 0 else (['subgraph', '-G'] + first + ['-H'] + second)
        with stream(si):
            F = run_tool('cnfgen', ['-q'] + argv)
        A = g('simple', ['first.kthlist'])
    finally:
        del GR.open
        del GF.open
    plain = GR.Graph.from_networkx(networkx.grid_graph(dims, periodic=bool(torus)))
    L = GraphIsomorphism(A, plain) if cmd_i == 0 else SubgraphFormula(A, plain)
    ok = same(F, L)
    # ... and a later command line in the same process still sees the plain lattice
    K = run_tool('cnfgen', ['-q', 'kclique', 3] + second)
    from cnfgen.families.subgraph import CliqueFormula
    return ok and same(K, CliqueFormula(plain, 3))


def h_e_lattice_pair(shape_i: int, torus: bool, mod_i: int, si: int, cmd_i: int) -> bool:
    """
    pre: 0 <= shape_i <= 3 and 0 <= mod_i <= 2 and 0 <= si <= 2 and 0 <= cmd_i <= 1
    post: _
    """
    return untraced(_lattice_pair, pick(shape_i, 0, 3), pickb(torus), pick(mod_i, 0, 2), pick(si, 0, 2), pick(cmd_i, 0, 1))


# ------------------------------------------------------------- degenerate graphs, which only files can name
SMALL_FILES = ['e0.kthlist', 'e0.dimacs', 'v1.kthlist', 'v2.dimacs', 'g1.gml']


def _degenerate_files(fi, gi, ci):
    """graphs with zero, one or two isolated vertices read from files, alone and as the second graph argument"""
    from cnfgen.families.graphisomorphism import GraphIsomorphism, GraphAutomorphism
    from cnfgen.families.subgraph import SubgraphFormula, CliqueFormula
    from cnfgen.families.coloring import GraphColoringFormula
    from cnfgen.families.dominatingset import DominatingSet, Tiling
    from cnfgen.families.counting import PerfectMatchingPrinciple
    from cnfgen.families.ordering import GraphOrderingPrinciple
    path = os.path.join(DATA, SMALL_FILES[fi])
    fmt = path.rsplit('.', 1)[1]
    H = lambda: GR.readGraph(path, 'simple', fmt)
    A = SIMPLE[gi]
    if ci == 0:
        return both(['iso'] + A + ['-e', path], lambda c: GraphIsomorphism(g('simple', A), H(), formula_class=c))
    if ci == 1:
        return both(['iso', path, '-e'] + A, lambda c: GraphIsomorphism(H(), g('simple', A), formula_class=c))
    if ci == 2:
        return both(['iso', path, '-e', fmt, path], lambda c: GraphIsomorphism(H(), H(), formula_class=c)) and \
            both(['iso', path], lambda c: GraphAutomorphism(H(), formula_class=c))
    if ci == 3:
        return both(['subgraph', '-G'] + A + ['-H', path], lambda c: SubgraphFormula(g('simple', A), H(), formula_class=c))
    if ci == 4:
        return both(['subgraph', '-G', path, '-H'] + A, lambda c: SubgraphFormula(H(), g('simple', A), formula_class=c))
    ok = both(['kcolor', 2, path], lambda c: GraphColoringFormula(H(), 2, formula_class=c))
    ok = ok and both(['domset', 1, path], lambda c: DominatingSet(H(), 1, formula_class=c))
    ok = ok and both(['tiling', fmt, path], lambda c: Tiling(H(), formula_class=c))
    ok = ok and both(['matching', path], lambda c: PerfectMatchingPrinciple(H(), formula_class=c))
    ok = ok and both(['kclique', 1, path], lambda c: CliqueFormula(H(), 1, formula_class=c))
    ok = ok and both(['op', path], lambda c: GraphOrderingPrinciple(H(), formula_class=c))
    return ok


def h_e_degenerate_files(fi: int, gi: int, ci: int) -> bool:
    """
    pre: 0 <= fi <= 4 and 0 <= gi <= 5 and 0 <= ci <= 5
    post: _
    """
    return untraced(_degenerate_files, pick(fi, 0, 4), pick(gi, 0, 5), pick(ci, 0, 5))


# ------------------------------------------------------------- save, output variants
class _FS:
    def __init__(self):
        self.files = {}

    def open(self, name, mode='r', encoding=None):
        fs = self

        class W(io.StringIO):
            def close(w):
                fs.files[name] = w.getvalue()
                io.StringIO.close(w)
        if 'w' in mode:
            f = W()
            f.name = name
            return f
        if name not in self.files:
            return open(name, mode)
        f = io.StringIO(self.files[name])
        f.name = name
        return f


def _save(kind, fi):
    """the graph stored by `save` is the very graph the formula is built from"""
    from cnfgen.families.coloring import GraphColoringFormula
    from cnfgen.families.pigeonhole import GraphPigeonholePrinciple
    from cnfgen.families.pebbling import PebblingFormula
    fs = _FS()
    GR.open = fs.open
    GF.open = fs.open
    try:
        if kind == 0:
            fmt = ['kthlist', 'gml', 'dot', 'dimacs'][fi]
            with stream(fi % 3):
                F = run_tool('cnfgen', ['-q', 'kcolor', 2, 'gnm', 5, 4, 'plantclique', 3, 'addedges', 1, 'splitedges', 2, 'save', 'saved.' + fmt])
            return same(F, GraphColoringFormula(g('simple', ['saved.' + fmt]), 2)) and \
                same(F, run_tool('cnfgen', ['-q', 'kcolor', 2, fmt, 'saved.' + fmt]))
        if kind == 1:
            fmt = ['kthlist', 'gml', 'dot', 'matrix'][fi]
            with stream(fi % 3):
                F = run_tool('cnfgen', ['-q', 'php', 'glrd', 3, 4, 2, 'save', fmt, 'saved.graph'])
            return same(F, GraphPigeonholePrinciple(g('bipartite', [fmt, 'saved.graph'])))
        fmt = ['kthlist', 'gml', 'dot', 'dimacs'][fi]
        F = run_tool('cnfgen', ['-q', 'peb', 'pyramid', 2, 'save', 'saved.' + fmt])
        return same(F, PebblingFormula(g('dag', ['saved.' + fmt])))
    finally:
        del GR.open
        del GF.open


BIG_SEEDS = [0, 1, -1, 2 ** 31, 2 ** 32, 2 ** 32 + 5, 2 ** 64 + 1, 12345678901234567890, -2 ** 40]


def _seeds(ci, si):
    """--seed S means random.seed(S) for every integer S, and the formula-level randomness starts from that seed whatever
    the graph arguments drew while the command line was parsed (real Mersenne Twister, no stub)"""
    import random
    from cnfgen.families.randomformulas import RandomKCNF
    from cnfgen.families.randomkxor import RandomKXOR
    from cnfgen.families.pigeonhole import PigeonholePrinciple
    from cnfgen.families.coloring import GraphColoringFormula
    from cnfgen.transformations.shuffle import Shuffle
    from cnfgen.transformations.substitutions import VariableCompression
    S = BIG_SEEDS[si]
    state = random.getstate()
    try:
        if ci == 0:
            return same(run_tool('cnfgen', ['-q', '--seed', S, 'randkcnf', 3, 6, 5]), RandomKCNF(3, 6, 5, seed=S))
        if ci == 1:
            return same(run_tool('cnfgen', ['-q', '--seed', S, 'randkxor', 2, 5, 3]), RandomKXOR(2, 5, 3, seed=S))
        if ci == 2:
            F = run_tool('cnfgen', ['-q', '--seed', S, 'php', 3, 2, '-T', 'shuffle'])
            random.seed(S)
            return same(F, Shuffle(PigeonholePrinciple(3, 2)))
        fs = _FS()
        GR.open = fs.open
        GF.open = fs.open
        try:
            if ci == 3:
                F = run_tool('cnfgen', ['-q', '--seed', S, 'kcolor', 3, 'gnp', 5, '.5', 'save', 'drawn.gml', '-T', 'shuffle'])
                G = g('simple', ['drawn.gml'])
                random.seed(S)
                return same(F, Shuffle(GraphColoringFormula(G, 3)))
            F = run_tool('cnfgen', ['-q', '--seed', S, 'kcolor', 2, 'gnm', 4, 3, 'addedges', 1, 'save', 'drawn.kthlist', '-T', 'xorcomp', 6, 2])
            G = g('simple', ['drawn.kthlist'])
            random.seed(S)
            B = GR.bipartite_random_left_regular(8, 6, 2)
            return same(F, VariableCompression(GraphColoringFormula(G, 2), B, 'xor'))
        finally:
            del GR.open
            del GF.open
    finally:
        random.setstate(state)


def h_e_seeds(ci: int, si: int) -> bool:
    """
    pre: 0 <= ci <= 4 and 0 <= si <= 8
    post: _
    """
    return untraced(_seeds, pick(ci, 0, 4), pick(si, 0, 8))


def h_e_save(kind: int, fi: int) -> bool:
    """
    pre: 0 <= kind <= 2 and 0 <= fi <= 3
    post: _
    """
    return untraced(_save, pick(kind, 0, 2), pick(fi, 0, 3))


def _body(text, marker):
    return [l for l in text.split('\n') if l and not l.startswith(marker)]


OUT_BASES = BASES + [['php', 5, 4], ['op', 5], ['and', 20, 15], ['and', 30, 6]]     # 45, 70, 35 and 36 clauses (35 rows to a page)


def _output_variants(bi, quiet, varnames, fmt):
    """-q / -v / --varnames / -of select the rendering and change nothing else"""
    base = OUT_BASES[bi]
    F = run_tool('cnfgen', ['-q'] + base)
    opts = (['-q'] if quiet else ['-v']) + (['--varnames'] if varnames else []) + ['-of', fmt]
    out = io.StringIO()
    with contextlib.redirect_stdout(out):
        run_tool('cnfgen', opts + base, mode='output')
    text = out.getvalue()
    marker = {'dimacs': 'c', 'opb': '*', 'latex': '%'}[fmt]
    if fmt == 'dimacs':
        if _body(text, 'c') != _body(F.to_dimacs(), 'c'):
            return False
    elif fmt == 'opb':
        if _body(text, '*') != _body(F.to_opb(), '*'):
            return False
        if not text.startswith('* #variable= %d #constraint= %d\n' % (F.number_of_variables(), len(F))):
            return False
    else:
        if '\\begin{document}' not in text or text.count('\\begin{align}') < 1:
            return False
        # the document shows every clause / constraint of the formula the library builds: as many rows, and the same rows
        # as the library's own rendering of that formula
        from vlib.xh.c12 import _latex_rows
        rows = [r for r, _ in _latex_rows(text)[0]]
        m = len(F)
        if len(rows) != max(m, 1):
            return False
        ref = io.StringIO()
        F.to_file(ref, fileformat='latex', export_header=not quiet)
        ref_rows = [r for r, _ in _latex_rows(ref.getvalue())[0]]
        snippet_rows = [r for r, _ in _latex_rows(F.to_latex())[0]]
        if rows != ref_rows or len(snippet_rows) != len(rows):
            return False
    if fmt != 'latex':
        header_lines = [l for l in text.split('\n') if l.startswith(marker + ' ') and not l.startswith(marker + ' varname')
                        and not l.startswith('* #variable=')]
        if quiet and header_lines:
            return False
        if not quiet and not any('description' in l for l in header_lines):
            return False
        names = [l for l in text.split('\n') if l.startswith(marker + ' varname')]
        if len(names) != (F.number_of_variables() if varnames else 0):
            return False
    S = run_tool('cnfgen', opts + base, mode='string')
    want = {'dimacs': F.to_dimacs, 'opb': F.to_opb, 'latex': F.to_latex}[fmt]()
    return S == want


def h_e_output(bi: int, quiet: bool, varnames: bool, fi: int) -> bool:
    """
    pre: 0 <= bi <= 9 and 0 <= fi <= 2
    post: _
    """
    return untraced(_output_variants, pick(bi, 0, 9), pickb(quiet), pickb(varnames), ['dimacs', 'opb', 'latex'][pick(fi, 0, 2)])
