"""CrossHair harnesses for C13: random k-CNF / k-XOR under a nondeterministic RNG stub.

All outcomes of random.sample / random.choice / random.randint are explored up to a bound on the number of
non-trivial draws per run (tape limit); runs that need more draws (long streaks of rejected samples) are cut and
are outside the claim.  Planted assignments are given by symbolic sign bits.
"""
import itertools

import cnfgen.families.randomformulas as RF
import cnfgen.families.randomkxor as RX
from vlib.xh.xutil import pick, pickb, untraced, Tape, FakeRandom, TapeExhausted


def _planted(n, use, bits):
    if not use:
        return []
    return [[(v if bits >> (v - 1) & 1 else -v) for v in range(1, n + 1)]]


def _compatible_clauses(k, n, planted):
    cnt = 0
    for dom in itertools.combinations(range(1, n + 1), k):
        for pol in itertools.product([1, -1], repeat=k):
            cl = [p * v for p, v in zip(pol, dom)]
            if all(any(l in a for l in cl) for a in planted):
                cnt += 1
    return cnt


def _compatible_parities(k, n, planted):
    cnt = 0
    for dom in itertools.combinations(range(1, n + 1), k):
        for b in (0, 1):
            if all(sum(1 for v in dom if v in a) % 2 == b for a in planted):
                cnt += 1
    return cnt


def _kcnf_body(k, n, m, use, bits, tape):
    planted = _planted(n, use, bits)
    mx = _compatible_clauses(k, n, planted) if k <= n else 0
    old = RF.random
    RF.random = FakeRandom(tape)
    try:
        try:
            F = RF.RandomKCNF(k, n, m, planted_assignments=[list(a) for a in planted])
        except ValueError:
            return k > n or m > mx
        except TapeExhausted:
            return True                   # cut: outside the explored bound
    finally:
        RF.random = old
    if k > n or m > mx:
        return False
    cls = [list(c) for c in F.clauses()]
    if F.number_of_variables() != n or len(cls) != m:
        return False
    seen = set()
    for c in cls:
        vs = [abs(l) for l in c]
        if len(c) != k or len(set(vs)) != k or any(not (1 <= v <= n) for v in vs):
            return False
        key = tuple(sorted(c, key=abs))
        if key in seen:
            return False
        seen.add(key)
        for a in planted:
            if not any(l in a for l in c):
                return False
    return True


def _kxor_body(k, n, m, use, bits, tape):
    planted = _planted(n, use, bits)
    mx = _compatible_parities(k, n, planted) if k <= n else 0
    old = RX.random
    RX.random = FakeRandom(tape)
    try:
        try:
            F = RX.RandomKXOR(k, n, m, planted_assignments=[list(a) for a in planted])
        except ValueError:
            return k > n or m > mx
        except TapeExhausted:
            return True
    finally:
        RX.random = old
    if k > n or m > mx:
        return False
    if F.number_of_variables() != n:
        return False
    cls = [list(c) for c in F.clauses()]
    # the formula must be a sequence of m distinct parity constraints on k distinct variables each:
    # decode it greedily block by block (a parity on k variables is 2^(k-1) clauses; k = 0: one empty
    # clause for 0 = 1, nothing for 0 = 0)
    size = (1 << (k - 1)) if k >= 1 else None
    parities = []
    if k >= 1:
        if len(cls) != m * size:
            return False
        for i in range(m):
            block = cls[i * size:(i + 1) * size]
            X = sorted(abs(l) for l in block[0])
            if len(set(X)) != k or any(not (1 <= v <= n) for v in X):
                return False
            b = None
            for cand in (0, 1):
                want = set()
                for pol in itertools.product([1, -1], repeat=k):
                    neg = sum(1 for s in pol if s < 0)
                    # clause forbids the assignment x_i = (pol_i < 0); forbidden iff its parity != cand
                    if (neg % 2) != cand:
                        want.add(tuple(p * v for p, v in zip(pol, X)))
                if set(tuple(sorted(c, key=abs)) for c in block) == want and len(block) == len(want):
                    b = cand
            if b is None:
                return False
            parities.append((tuple(X), b))
    else:
        if any(len(c) != 0 for c in cls) or len(cls) > m:
            return False
        parities = [((), 1)] * len(cls) + [((), 0)] * (m - len(cls))
    if len(set(parities)) != m:
        return False
    for a in planted:
        for X, b in parities:
            if sum(1 for v in X if v in a) % 2 != b:
                return False
    return True


def _run(body, k, n, m, use, bits, limit):
    tape = Tape(limit=limit)
    ok = untraced(body, k, n, m, use, bits, tape)
    if not ok:
        raise AssertionError('TAPE=%r' % (tape.log,))
    return True


def h_e_kcnf_11(m: int, use: bool, bits: int) -> bool:
    """
    pre: 0 <= m <= 2 and 0 <= bits <= 1
    post: _
    """
    return _run(_kcnf_body, 1, 1, pick(m, 0, 2), pickb(use), pick(bits, 0, 1), 10)


def h_e_kcnf_12(m: int, use: bool, bits: int) -> bool:
    """
    pre: 0 <= m <= 3 and 0 <= bits <= 3
    post: _
    """
    return _run(_kcnf_body, 1, 2, pick(m, 0, 3), pickb(use), pick(bits, 0, 3), 7)


def h_e_kcnf_22(m: int, use: bool, bits: int) -> bool:
    """
    pre: 0 <= m <= 2 and 0 <= bits <= 3
    post: _
    """
    return _run(_kcnf_body, 2, 2, pick(m, 0, 2), pickb(use), pick(bits, 0, 3), 7)


def h_e_kcnf_13(m: int, use: bool, bits: int) -> bool:
    """
    pre: 0 <= m <= 2 and 0 <= bits <= 7
    post: _
    """
    return _run(_kcnf_body, 1, 3, pick(m, 0, 2), pickb(use), pick(bits, 0, 7), 6)


def h_e_kcnf_23(m: int, use: bool, bits: int) -> bool:
    """
    pre: 0 <= m <= 2 and 0 <= bits <= 7
    post: _
    """
    return _run(_kcnf_body, 2, 3, pick(m, 0, 2), pickb(use), pick(bits, 0, 7), 5)


def h_e_kcnf_deg(k: int, n: int, m: int) -> bool:
    """
    pre: 0 <= k <= 3 and 0 <= n <= 2 and 0 <= m <= 2
    post: _
    """
    kk, nn, mm = pick(k, 0, 3), pick(n, 0, 2), pick(m, 0, 2)
    if kk >= 1 and kk <= nn:
        return True
    return _run(_kcnf_body, kk, nn, mm, False, 0, 6)


def h_e_kxor_11(m: int, use: bool, bits: int) -> bool:
    """
    pre: 0 <= m <= 2 and 0 <= bits <= 1
    post: _
    """
    return _run(_kxor_body, 1, 1, pick(m, 0, 2), pickb(use), pick(bits, 0, 1), 10)


def h_e_kxor_12(m: int, use: bool, bits: int) -> bool:
    """
    pre: 0 <= m <= 3 and 0 <= bits <= 3
    post: _
    """
    return _run(_kxor_body, 1, 2, pick(m, 0, 3), pickb(use), pick(bits, 0, 3), 7)


def h_e_kxor_22(m: int, use: bool, bits: int) -> bool:
    """
    pre: 0 <= m <= 3 and 0 <= bits <= 3
    post: _
    """
    return _run(_kxor_body, 2, 2, pick(m, 0, 3), pickb(use), pick(bits, 0, 3), 8)


def h_e_kxor_23(m: int, use: bool, bits: int) -> bool:
    """
    pre: 0 <= m <= 2 and 0 <= bits <= 7
    post: _
    """
    return _run(_kxor_body, 2, 3, pick(m, 0, 2), pickb(use), pick(bits, 0, 7), 5)


def h_e_kxor_deg(k: int, n: int, m: int) -> bool:
    """
    pre: 0 <= k <= 3 and 0 <= n <= 2 and 0 <= m <= 2
    post: _
    """
    kk, nn, mm = pick(k, 0, 3), pick(n, 0, 2), pick(m, 0, 2)
    if kk >= 1 and kk <= nn:
        return True
    return _run(_kxor_body, kk, nn, mm, False, 0, 6)
