"""CrossHair harnesses for C18: any command line ends in a usable formula or a clean, shielded error.

Enumerative mode over a wide argv grammar: every sub-command with each numeric slot replaced by solver-chosen
values inside, at and beyond the legal range and by non-numeric tokens, missing and extra arguments, unknown
options, malformed graph specifications, unreadable and malformed input files; all four tools through their real
main() entry points.  Outcome classes: (a) exit 0 and stdout is a complete formula that a strict reader of the
chosen format accepts, (b) help / version text with exit 0, (c) non-zero exit, nothing on stdout, and every line on
stderr starts with a comment marker.  An exception escaping main() (anything but SystemExit) is a violation.
"""
import io
import os
import re
import sys

import cnfgen.clitools.cnfgen  # noqa
import cnfgen.clitools.pbgen  # noqa
import cnfgen.clitools.kthlist2pebbling  # noqa
import cnfgen.clitools.cnfshuffle  # noqa
import cnfgen.clitools.cmdline as CMD
from vlib.xh.xutil import pick, pickb, untraced, Tape, FakeRandom
from vlib.xh.c06 import strict_read
from vlib.xh.c12 import strict_opb
from vlib.xh.c17 import stream, DATA


class _Out(io.StringIO):
    def close(self):
        pass

    def isatty(self):
        return False


class _PipeIn(io.StringIO):
    """standard input fed by a pipe: readable, not seekable, not a tty"""
    name = '<stdin>'
    mode = 'r'

    def seekable(self):
        return False

    def seek(self, *a):
        raise io.UnsupportedOperation('underlying stream is not seekable')

    def tell(self):
        raise io.UnsupportedOperation('underlying stream is not seekable')

    def isatty(self):
        return False


def run_main(tool, argv, stdin_text='', rnd=0):
    import cnfgen.clitools.msg as msg
    mod = sys.modules['cnfgen.clitools.' + tool]
    out, err = _Out(), _Out()
    saved = (sys.argv, sys.stdout, sys.stderr, sys.stdin, mod.setup_SIGINT)
    sys.argv = [tool] + [str(a) for a in argv]
    sys.stdout, sys.stderr, sys.stdin = out, err, _PipeIn(stdin_text)
    mod.setup_SIGINT = lambda: None        # stub: no signal handler is installed during the analysis
    msg._prefix = ''
    code = 0
    try:
        try:
            with stream(rnd):
                mod.main()
        except SystemExit as e:
            code = e.code
    finally:
        sys.argv, sys.stdout, sys.stderr, sys.stdin, mod.setup_SIGINT = saved
        msg._prefix = ''
    return (0 if code is None else code), out.getvalue(), err.getvalue()


def _latex_ok(text):
    if not (text.count('\\begin{align}') == text.count('\\end{align}') >= 1 and ('\\begin{document}' not in text or text.rstrip().endswith('\\end{document}'))):
        return False
    # rows: '\top' stands for the formula without clauses and is then the only row; a page holds 1..35 rows
    from vlib.xh.c12 import _latex_rows
    rows, nblocks, nbreaks = _latex_rows(text)
    if not rows:
        return False
    if any(r == '\\top' for r, _ in rows) and len(rows) != 1:
        return False
    per = {}
    for r, b in rows:
        if r == '':
            return False
        per[b] = per.get(b, 0) + 1
    if '\\begin{document}' in text and (len(per) != nblocks or any(v > 35 for v in per.values())):
        return False
    m = re.search(r'with (\d+) variables and(?: and)? (\d+) (?:clauses|constraints)', text)
    if m and len(rows) != max(int(m.group(2)), 1):
        return False
    return True


def classify(tool, argv, code, out, err):
    """True iff the outcome is one of the three documented classes"""
    if code == 0:
        helpopts = ('-h', '--help', '-V', '--version', '--tutorial', '--help-graph', '--help-bipartite', '--help-dag')
        if any(str(x) in helpopts for x in argv):
            return len(out) > 0                            # help / version / tutorial text
        fmt = 'opb' if tool == 'pbgen' else 'dimacs'
        av = [str(a) for a in argv]
        for i, a in enumerate(av):
            if a in ('-of', '--output-format') and i + 1 < len(av):
                fmt = av[i + 1]
            if a in ('-l', '--latex'):
                fmt = 'latex'
        if fmt == 'dimacs':
            return strict_read(out) is not None
        if fmt == 'opb':
            return strict_opb(out) is not None
        return _latex_ok(out)
    if out != '':
        return False                                       # a partial formula was written before the error
    lines = err.split('\n')
    if lines and lines[-1] == '':
        lines = lines[:-1]
    if not lines:
        return False
    markers = {'cnfgen': 'c*%', 'pbgen': '*%', 'cnfshuffle': 'c', 'kthlist2pebbling': 'c'}[tool]
    for l in lines:
        if l == '' or l[0] not in markers:
            return False
    return True


TOK = [1, 2, 3, 0, -1, 'x', '', 5, 7, -2, '1.5', 'nan', '-T', '--nosuchoption', '1e1', 'complete', os.path.join(DATA, 'nosuchfile.gml'),
       os.path.join(DATA, 'f5.cnf')]      # the reduced menus of the quick tier are prefixes of this list

# templates: sub-command with its numeric slots marked None
TEMPLATES = [
    ['php', None, None], ['php', None, None, None], ['php', None, None, '--functional', '--onto'], ['bphp', None, None], ['rphp', None, None, None],
    ['count', None, None], ['parity', None], ['cliquecoloring', None, None, None], ['ram', None, None, None], ['vdw', None, None, None],
    ['vdw', None, None, None, None], ['ptn', None], ['cpls', None, None, None], ['pitfall', None, None, 2, None, None], ['pitfall', 4, 2, None, None, None],
    ['op', None], ['op', None, None], ['op', '--total', None], ['tseitin', None], ['tseitin', None, None], ['subsetcard', None], ['subsetcard', None, None],
    ['randkcnf', None, None, None], ['randkxor', None, None, None], ['randkcnf', '-p', None, None, None], ['and', None, None], ['or', None, None],
    ['kcolor', None, 'complete', None], ['kcolor', None, 'gnd', None, None], ['kcolor', 2, 'gnp', None, None], ['kcolor', 2, 'gnm', None, None],
    ['kcolor', 2, 'grid', None, None], ['kcolor', 2, 'torus', None, None], ['kcolor', 2, 'complete', 3, 'plantclique', None],
    ['kcolor', 2, 'empty', None, 'addedges', None], ['kcolor', 2, 'complete', None, 'splitedges', None], ['domset', None, 'complete', None],
    ['kclique', None, 'empty', None], ['kcliquebin', None, 'complete', None], ['ramlb', None, None, 'complete', None], ['ec', 'torus', None, None],
    ['matching', 'complete', None, None], ['tiling', 'gnd', None, None], ['iso', 'complete', None, '-e', 'grid', None, None],
    ['subgraph', '-G', 'complete', None, '-H', 'empty', None], ['tseitin', 'first', 'gnd', None, None], ['tseitin', 'random', 'complete', None],
    ['php', 'glrp', None, None, None], ['php', 'glrm', None, None, None], ['php', 'glrd', None, None, None], ['php', 'regular', None, None, None],
    ['php', 'shift', None, None, None], ['php', 'complete', None, None], ['subsetcard', 'empty', None, None, 'plantbiclique', None, None],
    ['peb', 'pyramid', None], ['peb', 'tree', None], ['peb', 'path', None], ['stone', None, 'pyramid', None], ['stone', None, 'path', None, '--sparse', None],
    ['php', 3, 2, '-T', 'xor', None], ['php', 3, 2, '-T', 'lift', None], ['php', 2, 2, '-T', 'exact', None, None], ['op', 3, '-T', 'xorcomp', None, None],
    ['op', 3, '-T', 'majcomp', None], ['php', 2, 2, '-T', 'shuffle', None], ['php', 2, 2, '-T', None], ['-of', None, 'php', 2, 2], ['--seed', None, 'php', 2, 2],
    ['dimacs', None], ['true', None], ['false'], [None], [],
]


def _template(tool, ti, a, b, c, slot_extra):
    t = list(TEMPLATES[ti])
    vals = [TOK[a], TOK[b], TOK[c]]
    k = 0
    argv = []
    for x in t:
        if x is None:
            argv.append(vals[k % 3] if k < 3 else 2)
            k += 1
        else:
            argv.append(x)
    if slot_extra == 1:
        argv = argv[:-1]
    elif slot_extra == 2:
        argv = argv + [1]
    code, out, err = run_main(tool, ['-q'] + argv if slot_extra != 3 else argv)
    return classify(tool, argv, code, out, err)


# generated: one harness per template and tool (q = quick: reduced menus, no missing/extra argument; t = thorough)


def h_q_t0_cnfgen(a: int, b: int, c: int) -> bool:
    """
    pre: 0 <= a <= 17 and 0 <= b <= 5 and 0 <= c <= 0
    post: _
    """
    # php <n> <n>
    return untraced(_template, 'cnfgen', 0, pick(a, 0, 17), pick(b, 0, 5), pick(c, 0, 0), 0)


def h_t_t0_cnfgen(a: int, b: int, c: int, extra: int) -> bool:
    """
    pre: 0 <= a <= 17 and 0 <= b <= 17 and 0 <= c <= 0 and 0 <= extra <= 3
    post: _
    """
    # php <n> <n>
    return untraced(_template, 'cnfgen', 0, pick(a, 0, 17), pick(b, 0, 17), pick(c, 0, 0), pick(extra, 0, 3))


def h_q_t0_pbgen(a: int, b: int, c: int) -> bool:
    """
    pre: 0 <= a <= 17 and 0 <= b <= 5 and 0 <= c <= 0
    post: _
    """
    # php <n> <n>
    return untraced(_template, 'pbgen', 0, pick(a, 0, 17), pick(b, 0, 5), pick(c, 0, 0), 0)


def h_t_t0_pbgen(a: int, b: int, c: int, extra: int) -> bool:
    """
    pre: 0 <= a <= 17 and 0 <= b <= 17 and 0 <= c <= 0 and 0 <= extra <= 3
    post: _
    """
    # php <n> <n>
    return untraced(_template, 'pbgen', 0, pick(a, 0, 17), pick(b, 0, 17), pick(c, 0, 0), pick(extra, 0, 3))


def h_q_t1_cnfgen(a: int, b: int, c: int) -> bool:
    """
    pre: 0 <= a <= 17 and 0 <= b <= 5 and 0 <= c <= 2
    post: _
    """
    # php <n> <n> <n>
    return untraced(_template, 'cnfgen', 1, pick(a, 0, 17), pick(b, 0, 5), pick(c, 0, 2), 0)


def h_t_t1_cnfgen(a: int, b: int, c: int, extra: int) -> bool:
    """
    pre: 0 <= a <= 17 and 0 <= b <= 17 and 0 <= c <= 5 and 0 <= extra <= 3
    post: _
    """
    # php <n> <n> <n>
    return untraced(_template, 'cnfgen', 1, pick(a, 0, 17), pick(b, 0, 17), pick(c, 0, 5), pick(extra, 0, 3))


def h_q_t2_cnfgen(a: int, b: int, c: int) -> bool:
    """
    pre: 0 <= a <= 17 and 0 <= b <= 5 and 0 <= c <= 0
    post: _
    """
    # php <n> <n> --functional --onto
    return untraced(_template, 'cnfgen', 2, pick(a, 0, 17), pick(b, 0, 5), pick(c, 0, 0), 0)


def h_t_t2_cnfgen(a: int, b: int, c: int, extra: int) -> bool:
    """
    pre: 0 <= a <= 17 and 0 <= b <= 17 and 0 <= c <= 0 and 0 <= extra <= 3
    post: _
    """
    # php <n> <n> --functional --onto
    return untraced(_template, 'cnfgen', 2, pick(a, 0, 17), pick(b, 0, 17), pick(c, 0, 0), pick(extra, 0, 3))


def h_q_t3_cnfgen(a: int, b: int, c: int) -> bool:
    """
    pre: 0 <= a <= 17 and 0 <= b <= 5 and 0 <= c <= 0
    post: _
    """
    # bphp <n> <n>
    return untraced(_template, 'cnfgen', 3, pick(a, 0, 17), pick(b, 0, 5), pick(c, 0, 0), 0)


def h_t_t3_cnfgen(a: int, b: int, c: int, extra: int) -> bool:
    """
    pre: 0 <= a <= 17 and 0 <= b <= 17 and 0 <= c <= 0 and 0 <= extra <= 3
    post: _
    """
    # bphp <n> <n>
    return untraced(_template, 'cnfgen', 3, pick(a, 0, 17), pick(b, 0, 17), pick(c, 0, 0), pick(extra, 0, 3))


def h_q_t3_pbgen(a: int, b: int, c: int) -> bool:
    """
    pre: 0 <= a <= 17 and 0 <= b <= 5 and 0 <= c <= 0
    post: _
    """
    # bphp <n> <n>
    return untraced(_template, 'pbgen', 3, pick(a, 0, 17), pick(b, 0, 5), pick(c, 0, 0), 0)


def h_t_t3_pbgen(a: int, b: int, c: int, extra: int) -> bool:
    """
    pre: 0 <= a <= 17 and 0 <= b <= 17 and 0 <= c <= 0 and 0 <= extra <= 3
    post: _
    """
    # bphp <n> <n>
    return untraced(_template, 'pbgen', 3, pick(a, 0, 17), pick(b, 0, 17), pick(c, 0, 0), pick(extra, 0, 3))


def h_q_t4_cnfgen(a: int, b: int, c: int) -> bool:
    """
    pre: 0 <= a <= 17 and 0 <= b <= 5 and 0 <= c <= 2
    post: _
    """
    # rphp <n> <n> <n>
    return untraced(_template, 'cnfgen', 4, pick(a, 0, 17), pick(b, 0, 5), pick(c, 0, 2), 0)


def h_t_t4_cnfgen(a: int, b: int, c: int, extra: int) -> bool:
    """
    pre: 0 <= a <= 17 and 0 <= b <= 17 and 0 <= c <= 5 and 0 <= extra <= 3
    post: _
    """
    # rphp <n> <n> <n>
    return untraced(_template, 'cnfgen', 4, pick(a, 0, 17), pick(b, 0, 17), pick(c, 0, 5), pick(extra, 0, 3))


def h_q_t5_cnfgen(a: int, b: int, c: int) -> bool:
    """
    pre: 0 <= a <= 17 and 0 <= b <= 5 and 0 <= c <= 0
    post: _
    """
    # count <n> <n>
    return untraced(_template, 'cnfgen', 5, pick(a, 0, 17), pick(b, 0, 5), pick(c, 0, 0), 0)


def h_t_t5_cnfgen(a: int, b: int, c: int, extra: int) -> bool:
    """
    pre: 0 <= a <= 17 and 0 <= b <= 17 and 0 <= c <= 0 and 0 <= extra <= 3
    post: _
    """
    # count <n> <n>
    return untraced(_template, 'cnfgen', 5, pick(a, 0, 17), pick(b, 0, 17), pick(c, 0, 0), pick(extra, 0, 3))


def h_q_t6_cnfgen(a: int, b: int, c: int) -> bool:
    """
    pre: 0 <= a <= 17 and 0 <= b <= 0 and 0 <= c <= 0
    post: _
    """
    # parity <n>
    return untraced(_template, 'cnfgen', 6, pick(a, 0, 17), pick(b, 0, 0), pick(c, 0, 0), 0)


def h_t_t6_cnfgen(a: int, b: int, c: int, extra: int) -> bool:
    """
    pre: 0 <= a <= 17 and 0 <= b <= 0 and 0 <= c <= 0 and 0 <= extra <= 3
    post: _
    """
    # parity <n>
    return untraced(_template, 'cnfgen', 6, pick(a, 0, 17), pick(b, 0, 0), pick(c, 0, 0), pick(extra, 0, 3))


def h_q_t6_pbgen(a: int, b: int, c: int) -> bool:
    """
    pre: 0 <= a <= 17 and 0 <= b <= 0 and 0 <= c <= 0
    post: _
    """
    # parity <n>
    return untraced(_template, 'pbgen', 6, pick(a, 0, 17), pick(b, 0, 0), pick(c, 0, 0), 0)


def h_t_t6_pbgen(a: int, b: int, c: int, extra: int) -> bool:
    """
    pre: 0 <= a <= 17 and 0 <= b <= 0 and 0 <= c <= 0 and 0 <= extra <= 3
    post: _
    """
    # parity <n>
    return untraced(_template, 'pbgen', 6, pick(a, 0, 17), pick(b, 0, 0), pick(c, 0, 0), pick(extra, 0, 3))


def h_q_t7_cnfgen(a: int, b: int, c: int) -> bool:
    """
    pre: 0 <= a <= 17 and 0 <= b <= 5 and 0 <= c <= 2
    post: _
    """
    # cliquecoloring <n> <n> <n>
    return untraced(_template, 'cnfgen', 7, pick(a, 0, 17), pick(b, 0, 5), pick(c, 0, 2), 0)


def h_t_t7_cnfgen(a: int, b: int, c: int, extra: int) -> bool:
    """
    pre: 0 <= a <= 17 and 0 <= b <= 17 and 0 <= c <= 5 and 0 <= extra <= 3
    post: _
    """
    # cliquecoloring <n> <n> <n>
    return untraced(_template, 'cnfgen', 7, pick(a, 0, 17), pick(b, 0, 17), pick(c, 0, 5), pick(extra, 0, 3))


def h_q_t8_cnfgen(a: int, b: int, c: int) -> bool:
    """
    pre: 0 <= a <= 17 and 0 <= b <= 5 and 0 <= c <= 2
    post: _
    """
    # ram <n> <n> <n>
    return untraced(_template, 'cnfgen', 8, pick(a, 0, 17), pick(b, 0, 5), pick(c, 0, 2), 0)


def h_t_t8_cnfgen(a: int, b: int, c: int, extra: int) -> bool:
    """
    pre: 0 <= a <= 17 and 0 <= b <= 17 and 0 <= c <= 5 and 0 <= extra <= 3
    post: _
    """
    # ram <n> <n> <n>
    return untraced(_template, 'cnfgen', 8, pick(a, 0, 17), pick(b, 0, 17), pick(c, 0, 5), pick(extra, 0, 3))


def h_q_t9_cnfgen(a: int, b: int, c: int) -> bool:
    """
    pre: 0 <= a <= 17 and 0 <= b <= 5 and 0 <= c <= 2
    post: _
    """
    # vdw <n> <n> <n>
    return untraced(_template, 'cnfgen', 9, pick(a, 0, 17), pick(b, 0, 5), pick(c, 0, 2), 0)


def h_t_t9_cnfgen(a: int, b: int, c: int, extra: int) -> bool:
    """
    pre: 0 <= a <= 17 and 0 <= b <= 17 and 0 <= c <= 5 and 0 <= extra <= 3
    post: _
    """
    # vdw <n> <n> <n>
    return untraced(_template, 'cnfgen', 9, pick(a, 0, 17), pick(b, 0, 17), pick(c, 0, 5), pick(extra, 0, 3))


def h_q_t9_pbgen(a: int, b: int, c: int) -> bool:
    """
    pre: 0 <= a <= 17 and 0 <= b <= 5 and 0 <= c <= 2
    post: _
    """
    # vdw <n> <n> <n>
    return untraced(_template, 'pbgen', 9, pick(a, 0, 17), pick(b, 0, 5), pick(c, 0, 2), 0)


def h_t_t9_pbgen(a: int, b: int, c: int, extra: int) -> bool:
    """
    pre: 0 <= a <= 17 and 0 <= b <= 17 and 0 <= c <= 5 and 0 <= extra <= 3
    post: _
    """
    # vdw <n> <n> <n>
    return untraced(_template, 'pbgen', 9, pick(a, 0, 17), pick(b, 0, 17), pick(c, 0, 5), pick(extra, 0, 3))


def h_q_t10_cnfgen(a: int, b: int, c: int) -> bool:
    """
    pre: 0 <= a <= 17 and 0 <= b <= 5 and 0 <= c <= 2
    post: _
    """
    # vdw <n> <n> <n> <n>
    return untraced(_template, 'cnfgen', 10, pick(a, 0, 17), pick(b, 0, 5), pick(c, 0, 2), 0)


def h_t_t10_cnfgen(a: int, b: int, c: int, extra: int) -> bool:
    """
    pre: 0 <= a <= 17 and 0 <= b <= 17 and 0 <= c <= 5 and 0 <= extra <= 3
    post: _
    """
    # vdw <n> <n> <n> <n>
    return untraced(_template, 'cnfgen', 10, pick(a, 0, 17), pick(b, 0, 17), pick(c, 0, 5), pick(extra, 0, 3))


def h_q_t11_cnfgen(a: int, b: int, c: int) -> bool:
    """
    pre: 0 <= a <= 17 and 0 <= b <= 0 and 0 <= c <= 0
    post: _
    """
    # ptn <n>
    return untraced(_template, 'cnfgen', 11, pick(a, 0, 17), pick(b, 0, 0), pick(c, 0, 0), 0)


def h_t_t11_cnfgen(a: int, b: int, c: int, extra: int) -> bool:
    """
    pre: 0 <= a <= 17 and 0 <= b <= 0 and 0 <= c <= 0 and 0 <= extra <= 3
    post: _
    """
    # ptn <n>
    return untraced(_template, 'cnfgen', 11, pick(a, 0, 17), pick(b, 0, 0), pick(c, 0, 0), pick(extra, 0, 3))


def h_q_t12_cnfgen(a: int, b: int, c: int) -> bool:
    """
    pre: 0 <= a <= 17 and 0 <= b <= 5 and 0 <= c <= 2
    post: _
    """
    # cpls <n> <n> <n>
    return untraced(_template, 'cnfgen', 12, pick(a, 0, 17), pick(b, 0, 5), pick(c, 0, 2), 0)


def h_t_t12_cnfgen(a: int, b: int, c: int, extra: int) -> bool:
    """
    pre: 0 <= a <= 17 and 0 <= b <= 17 and 0 <= c <= 5 and 0 <= extra <= 3
    post: _
    """
    # cpls <n> <n> <n>
    return untraced(_template, 'cnfgen', 12, pick(a, 0, 17), pick(b, 0, 17), pick(c, 0, 5), pick(extra, 0, 3))


def h_q_t12_pbgen(a: int, b: int, c: int) -> bool:
    """
    pre: 0 <= a <= 17 and 0 <= b <= 5 and 0 <= c <= 2
    post: _
    """
    # cpls <n> <n> <n>
    return untraced(_template, 'pbgen', 12, pick(a, 0, 17), pick(b, 0, 5), pick(c, 0, 2), 0)


def h_t_t12_pbgen(a: int, b: int, c: int, extra: int) -> bool:
    """
    pre: 0 <= a <= 17 and 0 <= b <= 17 and 0 <= c <= 5 and 0 <= extra <= 3
    post: _
    """
    # cpls <n> <n> <n>
    return untraced(_template, 'pbgen', 12, pick(a, 0, 17), pick(b, 0, 17), pick(c, 0, 5), pick(extra, 0, 3))


def h_q_t13_cnfgen(a: int, b: int, c: int) -> bool:
    """
    pre: 0 <= a <= 17 and 0 <= b <= 5 and 0 <= c <= 2
    post: _
    """
    # pitfall <n> <n> 2 <n> <n>
    return untraced(_template, 'cnfgen', 13, pick(a, 0, 17), pick(b, 0, 5), pick(c, 0, 2), 0)


def h_t_t13_cnfgen(a: int, b: int, c: int, extra: int) -> bool:
    """
    pre: 0 <= a <= 17 and 0 <= b <= 17 and 0 <= c <= 5 and 0 <= extra <= 3
    post: _
    """
    # pitfall <n> <n> 2 <n> <n>
    return untraced(_template, 'cnfgen', 13, pick(a, 0, 17), pick(b, 0, 17), pick(c, 0, 5), pick(extra, 0, 3))


def h_q_t14_cnfgen(a: int, b: int, c: int) -> bool:
    """
    pre: 0 <= a <= 17 and 0 <= b <= 5 and 0 <= c <= 2
    post: _
    """
    # pitfall 4 2 <n> <n> <n>
    return untraced(_template, 'cnfgen', 14, pick(a, 0, 17), pick(b, 0, 5), pick(c, 0, 2), 0)


def h_t_t14_cnfgen(a: int, b: int, c: int, extra: int) -> bool:
    """
    pre: 0 <= a <= 17 and 0 <= b <= 17 and 0 <= c <= 5 and 0 <= extra <= 3
    post: _
    """
    # pitfall 4 2 <n> <n> <n>
    return untraced(_template, 'cnfgen', 14, pick(a, 0, 17), pick(b, 0, 17), pick(c, 0, 5), pick(extra, 0, 3))


def h_q_t15_cnfgen(a: int, b: int, c: int) -> bool:
    """
    pre: 0 <= a <= 17 and 0 <= b <= 0 and 0 <= c <= 0
    post: _
    """
    # op <n>
    return untraced(_template, 'cnfgen', 15, pick(a, 0, 17), pick(b, 0, 0), pick(c, 0, 0), 0)


def h_t_t15_cnfgen(a: int, b: int, c: int, extra: int) -> bool:
    """
    pre: 0 <= a <= 17 and 0 <= b <= 0 and 0 <= c <= 0 and 0 <= extra <= 3
    post: _
    """
    # op <n>
    return untraced(_template, 'cnfgen', 15, pick(a, 0, 17), pick(b, 0, 0), pick(c, 0, 0), pick(extra, 0, 3))


def h_q_t15_pbgen(a: int, b: int, c: int) -> bool:
    """
    pre: 0 <= a <= 17 and 0 <= b <= 0 and 0 <= c <= 0
    post: _
    """
    # op <n>
    return untraced(_template, 'pbgen', 15, pick(a, 0, 17), pick(b, 0, 0), pick(c, 0, 0), 0)


def h_t_t15_pbgen(a: int, b: int, c: int, extra: int) -> bool:
    """
    pre: 0 <= a <= 17 and 0 <= b <= 0 and 0 <= c <= 0 and 0 <= extra <= 3
    post: _
    """
    # op <n>
    return untraced(_template, 'pbgen', 15, pick(a, 0, 17), pick(b, 0, 0), pick(c, 0, 0), pick(extra, 0, 3))


def h_q_t16_cnfgen(a: int, b: int, c: int) -> bool:
    """
    pre: 0 <= a <= 17 and 0 <= b <= 5 and 0 <= c <= 0
    post: _
    """
    # op <n> <n>
    return untraced(_template, 'cnfgen', 16, pick(a, 0, 17), pick(b, 0, 5), pick(c, 0, 0), 0)


def h_t_t16_cnfgen(a: int, b: int, c: int, extra: int) -> bool:
    """
    pre: 0 <= a <= 17 and 0 <= b <= 17 and 0 <= c <= 0 and 0 <= extra <= 3
    post: _
    """
    # op <n> <n>
    return untraced(_template, 'cnfgen', 16, pick(a, 0, 17), pick(b, 0, 17), pick(c, 0, 0), pick(extra, 0, 3))


def h_q_t17_cnfgen(a: int, b: int, c: int) -> bool:
    """
    pre: 0 <= a <= 17 and 0 <= b <= 0 and 0 <= c <= 0
    post: _
    """
    # op --total <n>
    return untraced(_template, 'cnfgen', 17, pick(a, 0, 17), pick(b, 0, 0), pick(c, 0, 0), 0)


def h_t_t17_cnfgen(a: int, b: int, c: int, extra: int) -> bool:
    """
    pre: 0 <= a <= 17 and 0 <= b <= 0 and 0 <= c <= 0 and 0 <= extra <= 3
    post: _
    """
    # op --total <n>
    return untraced(_template, 'cnfgen', 17, pick(a, 0, 17), pick(b, 0, 0), pick(c, 0, 0), pick(extra, 0, 3))


def h_q_t18_cnfgen(a: int, b: int, c: int) -> bool:
    """
    pre: 0 <= a <= 17 and 0 <= b <= 0 and 0 <= c <= 0
    post: _
    """
    # tseitin <n>
    return untraced(_template, 'cnfgen', 18, pick(a, 0, 17), pick(b, 0, 0), pick(c, 0, 0), 0)


def h_t_t18_cnfgen(a: int, b: int, c: int, extra: int) -> bool:
    """
    pre: 0 <= a <= 17 and 0 <= b <= 0 and 0 <= c <= 0 and 0 <= extra <= 3
    post: _
    """
    # tseitin <n>
    return untraced(_template, 'cnfgen', 18, pick(a, 0, 17), pick(b, 0, 0), pick(c, 0, 0), pick(extra, 0, 3))


def h_q_t18_pbgen(a: int, b: int, c: int) -> bool:
    """
    pre: 0 <= a <= 17 and 0 <= b <= 0 and 0 <= c <= 0
    post: _
    """
    # tseitin <n>
    return untraced(_template, 'pbgen', 18, pick(a, 0, 17), pick(b, 0, 0), pick(c, 0, 0), 0)


def h_t_t18_pbgen(a: int, b: int, c: int, extra: int) -> bool:
    """
    pre: 0 <= a <= 17 and 0 <= b <= 0 and 0 <= c <= 0 and 0 <= extra <= 3
    post: _
    """
    # tseitin <n>
    return untraced(_template, 'pbgen', 18, pick(a, 0, 17), pick(b, 0, 0), pick(c, 0, 0), pick(extra, 0, 3))


def h_q_t19_cnfgen(a: int, b: int, c: int) -> bool:
    """
    pre: 0 <= a <= 17 and 0 <= b <= 5 and 0 <= c <= 0
    post: _
    """
    # tseitin <n> <n>
    return untraced(_template, 'cnfgen', 19, pick(a, 0, 17), pick(b, 0, 5), pick(c, 0, 0), 0)


def h_t_t19_cnfgen(a: int, b: int, c: int, extra: int) -> bool:
    """
    pre: 0 <= a <= 17 and 0 <= b <= 17 and 0 <= c <= 0 and 0 <= extra <= 3
    post: _
    """
    # tseitin <n> <n>
    return untraced(_template, 'cnfgen', 19, pick(a, 0, 17), pick(b, 0, 17), pick(c, 0, 0), pick(extra, 0, 3))


def h_q_t20_cnfgen(a: int, b: int, c: int) -> bool:
    """
    pre: 0 <= a <= 17 and 0 <= b <= 0 and 0 <= c <= 0
    post: _
    """
    # subsetcard <n>
    return untraced(_template, 'cnfgen', 20, pick(a, 0, 17), pick(b, 0, 0), pick(c, 0, 0), 0)


def h_t_t20_cnfgen(a: int, b: int, c: int, extra: int) -> bool:
    """
    pre: 0 <= a <= 17 and 0 <= b <= 0 and 0 <= c <= 0 and 0 <= extra <= 3
    post: _
    """
    # subsetcard <n>
    return untraced(_template, 'cnfgen', 20, pick(a, 0, 17), pick(b, 0, 0), pick(c, 0, 0), pick(extra, 0, 3))


def h_q_t21_cnfgen(a: int, b: int, c: int) -> bool:
    """
    pre: 0 <= a <= 17 and 0 <= b <= 5 and 0 <= c <= 0
    post: _
    """
    # subsetcard <n> <n>
    return untraced(_template, 'cnfgen', 21, pick(a, 0, 17), pick(b, 0, 5), pick(c, 0, 0), 0)


def h_t_t21_cnfgen(a: int, b: int, c: int, extra: int) -> bool:
    """
    pre: 0 <= a <= 17 and 0 <= b <= 17 and 0 <= c <= 0 and 0 <= extra <= 3
    post: _
    """
    # subsetcard <n> <n>
    return untraced(_template, 'cnfgen', 21, pick(a, 0, 17), pick(b, 0, 17), pick(c, 0, 0), pick(extra, 0, 3))


def h_q_t21_pbgen(a: int, b: int, c: int) -> bool:
    """
    pre: 0 <= a <= 17 and 0 <= b <= 5 and 0 <= c <= 0
    post: _
    """
    # subsetcard <n> <n>
    return untraced(_template, 'pbgen', 21, pick(a, 0, 17), pick(b, 0, 5), pick(c, 0, 0), 0)


def h_t_t21_pbgen(a: int, b: int, c: int, extra: int) -> bool:
    """
    pre: 0 <= a <= 17 and 0 <= b <= 17 and 0 <= c <= 0 and 0 <= extra <= 3
    post: _
    """
    # subsetcard <n> <n>
    return untraced(_template, 'pbgen', 21, pick(a, 0, 17), pick(b, 0, 17), pick(c, 0, 0), pick(extra, 0, 3))


def h_q_t22_cnfgen(a: int, b: int, c: int) -> bool:
    """
    pre: 0 <= a <= 17 and 0 <= b <= 5 and 0 <= c <= 2
    post: _
    """
    # randkcnf <n> <n> <n>
    return untraced(_template, 'cnfgen', 22, pick(a, 0, 17), pick(b, 0, 5), pick(c, 0, 2), 0)


def h_t_t22_cnfgen(a: int, b: int, c: int, extra: int) -> bool:
    """
    pre: 0 <= a <= 17 and 0 <= b <= 17 and 0 <= c <= 5 and 0 <= extra <= 3
    post: _
    """
    # randkcnf <n> <n> <n>
    return untraced(_template, 'cnfgen', 22, pick(a, 0, 17), pick(b, 0, 17), pick(c, 0, 5), pick(extra, 0, 3))


def h_q_t23_cnfgen(a: int, b: int, c: int) -> bool:
    """
    pre: 0 <= a <= 17 and 0 <= b <= 5 and 0 <= c <= 2
    post: _
    """
    # randkxor <n> <n> <n>
    return untraced(_template, 'cnfgen', 23, pick(a, 0, 17), pick(b, 0, 5), pick(c, 0, 2), 0)


def h_t_t23_cnfgen(a: int, b: int, c: int, extra: int) -> bool:
    """
    pre: 0 <= a <= 17 and 0 <= b <= 17 and 0 <= c <= 5 and 0 <= extra <= 3
    post: _
    """
    # randkxor <n> <n> <n>
    return untraced(_template, 'cnfgen', 23, pick(a, 0, 17), pick(b, 0, 17), pick(c, 0, 5), pick(extra, 0, 3))


def h_q_t24_cnfgen(a: int, b: int, c: int) -> bool:
    """
    pre: 0 <= a <= 17 and 0 <= b <= 5 and 0 <= c <= 2
    post: _
    """
    # randkcnf -p <n> <n> <n>
    return untraced(_template, 'cnfgen', 24, pick(a, 0, 17), pick(b, 0, 5), pick(c, 0, 2), 0)


def h_t_t24_cnfgen(a: int, b: int, c: int, extra: int) -> bool:
    """
    pre: 0 <= a <= 17 and 0 <= b <= 17 and 0 <= c <= 5 and 0 <= extra <= 3
    post: _
    """
    # randkcnf -p <n> <n> <n>
    return untraced(_template, 'cnfgen', 24, pick(a, 0, 17), pick(b, 0, 17), pick(c, 0, 5), pick(extra, 0, 3))


def h_q_t24_pbgen(a: int, b: int, c: int) -> bool:
    """
    pre: 0 <= a <= 17 and 0 <= b <= 5 and 0 <= c <= 2
    post: _
    """
    # randkcnf -p <n> <n> <n>
    return untraced(_template, 'pbgen', 24, pick(a, 0, 17), pick(b, 0, 5), pick(c, 0, 2), 0)


def h_t_t24_pbgen(a: int, b: int, c: int, extra: int) -> bool:
    """
    pre: 0 <= a <= 17 and 0 <= b <= 17 and 0 <= c <= 5 and 0 <= extra <= 3
    post: _
    """
    # randkcnf -p <n> <n> <n>
    return untraced(_template, 'pbgen', 24, pick(a, 0, 17), pick(b, 0, 17), pick(c, 0, 5), pick(extra, 0, 3))


def h_q_t25_cnfgen(a: int, b: int, c: int) -> bool:
    """
    pre: 0 <= a <= 17 and 0 <= b <= 5 and 0 <= c <= 0
    post: _
    """
    # and <n> <n>
    return untraced(_template, 'cnfgen', 25, pick(a, 0, 17), pick(b, 0, 5), pick(c, 0, 0), 0)


def h_t_t25_cnfgen(a: int, b: int, c: int, extra: int) -> bool:
    """
    pre: 0 <= a <= 17 and 0 <= b <= 17 and 0 <= c <= 0 and 0 <= extra <= 3
    post: _
    """
    # and <n> <n>
    return untraced(_template, 'cnfgen', 25, pick(a, 0, 17), pick(b, 0, 17), pick(c, 0, 0), pick(extra, 0, 3))


def h_q_t26_cnfgen(a: int, b: int, c: int) -> bool:
    """
    pre: 0 <= a <= 17 and 0 <= b <= 5 and 0 <= c <= 0
    post: _
    """
    # or <n> <n>
    return untraced(_template, 'cnfgen', 26, pick(a, 0, 17), pick(b, 0, 5), pick(c, 0, 0), 0)


def h_t_t26_cnfgen(a: int, b: int, c: int, extra: int) -> bool:
    """
    pre: 0 <= a <= 17 and 0 <= b <= 17 and 0 <= c <= 0 and 0 <= extra <= 3
    post: _
    """
    # or <n> <n>
    return untraced(_template, 'cnfgen', 26, pick(a, 0, 17), pick(b, 0, 17), pick(c, 0, 0), pick(extra, 0, 3))


def h_q_t27_cnfgen(a: int, b: int, c: int) -> bool:
    """
    pre: 0 <= a <= 17 and 0 <= b <= 5 and 0 <= c <= 0
    post: _
    """
    # kcolor <n> complete <n>
    return untraced(_template, 'cnfgen', 27, pick(a, 0, 17), pick(b, 0, 5), pick(c, 0, 0), 0)


def h_t_t27_cnfgen(a: int, b: int, c: int, extra: int) -> bool:
    """
    pre: 0 <= a <= 17 and 0 <= b <= 17 and 0 <= c <= 0 and 0 <= extra <= 3
    post: _
    """
    # kcolor <n> complete <n>
    return untraced(_template, 'cnfgen', 27, pick(a, 0, 17), pick(b, 0, 17), pick(c, 0, 0), pick(extra, 0, 3))


def h_q_t27_pbgen(a: int, b: int, c: int) -> bool:
    """
    pre: 0 <= a <= 17 and 0 <= b <= 5 and 0 <= c <= 0
    post: _
    """
    # kcolor <n> complete <n>
    return untraced(_template, 'pbgen', 27, pick(a, 0, 17), pick(b, 0, 5), pick(c, 0, 0), 0)


def h_t_t27_pbgen(a: int, b: int, c: int, extra: int) -> bool:
    """
    pre: 0 <= a <= 17 and 0 <= b <= 17 and 0 <= c <= 0 and 0 <= extra <= 3
    post: _
    """
    # kcolor <n> complete <n>
    return untraced(_template, 'pbgen', 27, pick(a, 0, 17), pick(b, 0, 17), pick(c, 0, 0), pick(extra, 0, 3))


def h_q_t28_cnfgen(a: int, b: int, c: int) -> bool:
    """
    pre: 0 <= a <= 17 and 0 <= b <= 5 and 0 <= c <= 2
    post: _
    """
    # kcolor <n> gnd <n> <n>
    return untraced(_template, 'cnfgen', 28, pick(a, 0, 17), pick(b, 0, 5), pick(c, 0, 2), 0)


def h_t_t28_cnfgen(a: int, b: int, c: int, extra: int) -> bool:
    """
    pre: 0 <= a <= 17 and 0 <= b <= 17 and 0 <= c <= 5 and 0 <= extra <= 3
    post: _
    """
    # kcolor <n> gnd <n> <n>
    return untraced(_template, 'cnfgen', 28, pick(a, 0, 17), pick(b, 0, 17), pick(c, 0, 5), pick(extra, 0, 3))


def h_q_t29_cnfgen(a: int, b: int, c: int) -> bool:
    """
    pre: 0 <= a <= 17 and 0 <= b <= 5 and 0 <= c <= 0
    post: _
    """
    # kcolor 2 gnp <n> <n>
    return untraced(_template, 'cnfgen', 29, pick(a, 0, 17), pick(b, 0, 5), pick(c, 0, 0), 0)


def h_t_t29_cnfgen(a: int, b: int, c: int, extra: int) -> bool:
    """
    pre: 0 <= a <= 17 and 0 <= b <= 17 and 0 <= c <= 0 and 0 <= extra <= 3
    post: _
    """
    # kcolor 2 gnp <n> <n>
    return untraced(_template, 'cnfgen', 29, pick(a, 0, 17), pick(b, 0, 17), pick(c, 0, 0), pick(extra, 0, 3))


def h_q_t30_cnfgen(a: int, b: int, c: int) -> bool:
    """
    pre: 0 <= a <= 17 and 0 <= b <= 5 and 0 <= c <= 0
    post: _
    """
    # kcolor 2 gnm <n> <n>
    return untraced(_template, 'cnfgen', 30, pick(a, 0, 17), pick(b, 0, 5), pick(c, 0, 0), 0)


def h_t_t30_cnfgen(a: int, b: int, c: int, extra: int) -> bool:
    """
    pre: 0 <= a <= 17 and 0 <= b <= 17 and 0 <= c <= 0 and 0 <= extra <= 3
    post: _
    """
    # kcolor 2 gnm <n> <n>
    return untraced(_template, 'cnfgen', 30, pick(a, 0, 17), pick(b, 0, 17), pick(c, 0, 0), pick(extra, 0, 3))


def h_q_t30_pbgen(a: int, b: int, c: int) -> bool:
    """
    pre: 0 <= a <= 17 and 0 <= b <= 5 and 0 <= c <= 0
    post: _
    """
    # kcolor 2 gnm <n> <n>
    return untraced(_template, 'pbgen', 30, pick(a, 0, 17), pick(b, 0, 5), pick(c, 0, 0), 0)


def h_t_t30_pbgen(a: int, b: int, c: int, extra: int) -> bool:
    """
    pre: 0 <= a <= 17 and 0 <= b <= 17 and 0 <= c <= 0 and 0 <= extra <= 3
    post: _
    """
    # kcolor 2 gnm <n> <n>
    return untraced(_template, 'pbgen', 30, pick(a, 0, 17), pick(b, 0, 17), pick(c, 0, 0), pick(extra, 0, 3))


def h_q_t31_cnfgen(a: int, b: int, c: int) -> bool:
    """
    pre: 0 <= a <= 17 and 0 <= b <= 5 and 0 <= c <= 0
    post: _
    """
    # kcolor 2 grid <n> <n>
    return untraced(_template, 'cnfgen', 31, pick(a, 0, 17), pick(b, 0, 5), pick(c, 0, 0), 0)


def h_t_t31_cnfgen(a: int, b: int, c: int, extra: int) -> bool:
    """
    pre: 0 <= a <= 17 and 0 <= b <= 17 and 0 <= c <= 0 and 0 <= extra <= 3
    post: _
    """
    # kcolor 2 grid <n> <n>
    return untraced(_template, 'cnfgen', 31, pick(a, 0, 17), pick(b, 0, 17), pick(c, 0, 0), pick(extra, 0, 3))


def h_q_t32_cnfgen(a: int, b: int, c: int) -> bool:
    """
    pre: 0 <= a <= 17 and 0 <= b <= 5 and 0 <= c <= 0
    post: _
    """
    # kcolor 2 torus <n> <n>
    return untraced(_template, 'cnfgen', 32, pick(a, 0, 17), pick(b, 0, 5), pick(c, 0, 0), 0)


def h_t_t32_cnfgen(a: int, b: int, c: int, extra: int) -> bool:
    """
    pre: 0 <= a <= 17 and 0 <= b <= 17 and 0 <= c <= 0 and 0 <= extra <= 3
    post: _
    """
    # kcolor 2 torus <n> <n>
    return untraced(_template, 'cnfgen', 32, pick(a, 0, 17), pick(b, 0, 17), pick(c, 0, 0), pick(extra, 0, 3))


def h_q_t33_cnfgen(a: int, b: int, c: int) -> bool:
    """
    pre: 0 <= a <= 17 and 0 <= b <= 0 and 0 <= c <= 0
    post: _
    """
    # kcolor 2 complete 3 plantclique <n>
    return untraced(_template, 'cnfgen', 33, pick(a, 0, 17), pick(b, 0, 0), pick(c, 0, 0), 0)


def h_t_t33_cnfgen(a: int, b: int, c: int, extra: int) -> bool:
    """
    pre: 0 <= a <= 17 and 0 <= b <= 0 and 0 <= c <= 0 and 0 <= extra <= 3
    post: _
    """
    # kcolor 2 complete 3 plantclique <n>
    return untraced(_template, 'cnfgen', 33, pick(a, 0, 17), pick(b, 0, 0), pick(c, 0, 0), pick(extra, 0, 3))


def h_q_t33_pbgen(a: int, b: int, c: int) -> bool:
    """
    pre: 0 <= a <= 17 and 0 <= b <= 0 and 0 <= c <= 0
    post: _
    """
    # kcolor 2 complete 3 plantclique <n>
    return untraced(_template, 'pbgen', 33, pick(a, 0, 17), pick(b, 0, 0), pick(c, 0, 0), 0)


def h_t_t33_pbgen(a: int, b: int, c: int, extra: int) -> bool:
    """
    pre: 0 <= a <= 17 and 0 <= b <= 0 and 0 <= c <= 0 and 0 <= extra <= 3
    post: _
    """
    # kcolor 2 complete 3 plantclique <n>
    return untraced(_template, 'pbgen', 33, pick(a, 0, 17), pick(b, 0, 0), pick(c, 0, 0), pick(extra, 0, 3))


def h_q_t34_cnfgen(a: int, b: int, c: int) -> bool:
    """
    pre: 0 <= a <= 17 and 0 <= b <= 5 and 0 <= c <= 0
    post: _
    """
    # kcolor 2 empty <n> addedges <n>
    return untraced(_template, 'cnfgen', 34, pick(a, 0, 17), pick(b, 0, 5), pick(c, 0, 0), 0)


def h_t_t34_cnfgen(a: int, b: int, c: int, extra: int) -> bool:
    """
    pre: 0 <= a <= 17 and 0 <= b <= 17 and 0 <= c <= 0 and 0 <= extra <= 3
    post: _
    """
    # kcolor 2 empty <n> addedges <n>
    return untraced(_template, 'cnfgen', 34, pick(a, 0, 17), pick(b, 0, 17), pick(c, 0, 0), pick(extra, 0, 3))


def h_q_t35_cnfgen(a: int, b: int, c: int) -> bool:
    """
    pre: 0 <= a <= 17 and 0 <= b <= 5 and 0 <= c <= 0
    post: _
    """
    # kcolor 2 complete <n> splitedges <n>
    return untraced(_template, 'cnfgen', 35, pick(a, 0, 17), pick(b, 0, 5), pick(c, 0, 0), 0)


def h_t_t35_cnfgen(a: int, b: int, c: int, extra: int) -> bool:
    """
    pre: 0 <= a <= 17 and 0 <= b <= 17 and 0 <= c <= 0 and 0 <= extra <= 3
    post: _
    """
    # kcolor 2 complete <n> splitedges <n>
    return untraced(_template, 'cnfgen', 35, pick(a, 0, 17), pick(b, 0, 17), pick(c, 0, 0), pick(extra, 0, 3))


def h_q_t36_cnfgen(a: int, b: int, c: int) -> bool:
    """
    pre: 0 <= a <= 17 and 0 <= b <= 5 and 0 <= c <= 0
    post: _
    """
    # domset <n> complete <n>
    return untraced(_template, 'cnfgen', 36, pick(a, 0, 17), pick(b, 0, 5), pick(c, 0, 0), 0)


def h_t_t36_cnfgen(a: int, b: int, c: int, extra: int) -> bool:
    """
    pre: 0 <= a <= 17 and 0 <= b <= 17 and 0 <= c <= 0 and 0 <= extra <= 3
    post: _
    """
    # domset <n> complete <n>
    return untraced(_template, 'cnfgen', 36, pick(a, 0, 17), pick(b, 0, 17), pick(c, 0, 0), pick(extra, 0, 3))


def h_q_t36_pbgen(a: int, b: int, c: int) -> bool:
    """
    pre: 0 <= a <= 17 and 0 <= b <= 5 and 0 <= c <= 0
    post: _
    """
    # domset <n> complete <n>
    return untraced(_template, 'pbgen', 36, pick(a, 0, 17), pick(b, 0, 5), pick(c, 0, 0), 0)


def h_t_t36_pbgen(a: int, b: int, c: int, extra: int) -> bool:
    """
    pre: 0 <= a <= 17 and 0 <= b <= 17 and 0 <= c <= 0 and 0 <= extra <= 3
    post: _
    """
    # domset <n> complete <n>
    return untraced(_template, 'pbgen', 36, pick(a, 0, 17), pick(b, 0, 17), pick(c, 0, 0), pick(extra, 0, 3))


def h_q_t37_cnfgen(a: int, b: int, c: int) -> bool:
    """
    pre: 0 <= a <= 17 and 0 <= b <= 5 and 0 <= c <= 0
    post: _
    """
    # kclique <n> empty <n>
    return untraced(_template, 'cnfgen', 37, pick(a, 0, 17), pick(b, 0, 5), pick(c, 0, 0), 0)


def h_t_t37_cnfgen(a: int, b: int, c: int, extra: int) -> bool:
    """
    pre: 0 <= a <= 17 and 0 <= b <= 17 and 0 <= c <= 0 and 0 <= extra <= 3
    post: _
    """
    # kclique <n> empty <n>
    return untraced(_template, 'cnfgen', 37, pick(a, 0, 17), pick(b, 0, 17), pick(c, 0, 0), pick(extra, 0, 3))


def h_q_t38_cnfgen(a: int, b: int, c: int) -> bool:
    """
    pre: 0 <= a <= 17 and 0 <= b <= 5 and 0 <= c <= 0
    post: _
    """
    # kcliquebin <n> complete <n>
    return untraced(_template, 'cnfgen', 38, pick(a, 0, 17), pick(b, 0, 5), pick(c, 0, 0), 0)


def h_t_t38_cnfgen(a: int, b: int, c: int, extra: int) -> bool:
    """
    pre: 0 <= a <= 17 and 0 <= b <= 17 and 0 <= c <= 0 and 0 <= extra <= 3
    post: _
    """
    # kcliquebin <n> complete <n>
    return untraced(_template, 'cnfgen', 38, pick(a, 0, 17), pick(b, 0, 17), pick(c, 0, 0), pick(extra, 0, 3))


def h_q_t39_cnfgen(a: int, b: int, c: int) -> bool:
    """
    pre: 0 <= a <= 17 and 0 <= b <= 5 and 0 <= c <= 2
    post: _
    """
    # ramlb <n> <n> complete <n>
    return untraced(_template, 'cnfgen', 39, pick(a, 0, 17), pick(b, 0, 5), pick(c, 0, 2), 0)


def h_t_t39_cnfgen(a: int, b: int, c: int, extra: int) -> bool:
    """
    pre: 0 <= a <= 17 and 0 <= b <= 17 and 0 <= c <= 5 and 0 <= extra <= 3
    post: _
    """
    # ramlb <n> <n> complete <n>
    return untraced(_template, 'cnfgen', 39, pick(a, 0, 17), pick(b, 0, 17), pick(c, 0, 5), pick(extra, 0, 3))


def h_q_t39_pbgen(a: int, b: int, c: int) -> bool:
    """
    pre: 0 <= a <= 17 and 0 <= b <= 5 and 0 <= c <= 2
    post: _
    """
    # ramlb <n> <n> complete <n>
    return untraced(_template, 'pbgen', 39, pick(a, 0, 17), pick(b, 0, 5), pick(c, 0, 2), 0)


def h_t_t39_pbgen(a: int, b: int, c: int, extra: int) -> bool:
    """
    pre: 0 <= a <= 17 and 0 <= b <= 17 and 0 <= c <= 5 and 0 <= extra <= 3
    post: _
    """
    # ramlb <n> <n> complete <n>
    return untraced(_template, 'pbgen', 39, pick(a, 0, 17), pick(b, 0, 17), pick(c, 0, 5), pick(extra, 0, 3))


def h_q_t40_cnfgen(a: int, b: int, c: int) -> bool:
    """
    pre: 0 <= a <= 17 and 0 <= b <= 5 and 0 <= c <= 0
    post: _
    """
    # ec torus <n> <n>
    return untraced(_template, 'cnfgen', 40, pick(a, 0, 17), pick(b, 0, 5), pick(c, 0, 0), 0)


def h_t_t40_cnfgen(a: int, b: int, c: int, extra: int) -> bool:
    """
    pre: 0 <= a <= 17 and 0 <= b <= 17 and 0 <= c <= 0 and 0 <= extra <= 3
    post: _
    """
    # ec torus <n> <n>
    return untraced(_template, 'cnfgen', 40, pick(a, 0, 17), pick(b, 0, 17), pick(c, 0, 0), pick(extra, 0, 3))


def h_q_t41_cnfgen(a: int, b: int, c: int) -> bool:
    """
    pre: 0 <= a <= 17 and 0 <= b <= 5 and 0 <= c <= 0
    post: _
    """
    # matching complete <n> <n>
    return untraced(_template, 'cnfgen', 41, pick(a, 0, 17), pick(b, 0, 5), pick(c, 0, 0), 0)


def h_t_t41_cnfgen(a: int, b: int, c: int, extra: int) -> bool:
    """
    pre: 0 <= a <= 17 and 0 <= b <= 17 and 0 <= c <= 0 and 0 <= extra <= 3
    post: _
    """
    # matching complete <n> <n>
    return untraced(_template, 'cnfgen', 41, pick(a, 0, 17), pick(b, 0, 17), pick(c, 0, 0), pick(extra, 0, 3))


def h_q_t42_cnfgen(a: int, b: int, c: int) -> bool:
    """
    pre: 0 <= a <= 17 and 0 <= b <= 5 and 0 <= c <= 0
    post: _
    """
    # tiling gnd <n> <n>
    return untraced(_template, 'cnfgen', 42, pick(a, 0, 17), pick(b, 0, 5), pick(c, 0, 0), 0)


def h_t_t42_cnfgen(a: int, b: int, c: int, extra: int) -> bool:
    """
    pre: 0 <= a <= 17 and 0 <= b <= 17 and 0 <= c <= 0 and 0 <= extra <= 3
    post: _
    """
    # tiling gnd <n> <n>
    return untraced(_template, 'cnfgen', 42, pick(a, 0, 17), pick(b, 0, 17), pick(c, 0, 0), pick(extra, 0, 3))


def h_q_t42_pbgen(a: int, b: int, c: int) -> bool:
    """
    pre: 0 <= a <= 17 and 0 <= b <= 5 and 0 <= c <= 0
    post: _
    """
    # tiling gnd <n> <n>
    return untraced(_template, 'pbgen', 42, pick(a, 0, 17), pick(b, 0, 5), pick(c, 0, 0), 0)


def h_t_t42_pbgen(a: int, b: int, c: int, extra: int) -> bool:
    """
    pre: 0 <= a <= 17 and 0 <= b <= 17 and 0 <= c <= 0 and 0 <= extra <= 3
    post: _
    """
    # tiling gnd <n> <n>
    return untraced(_template, 'pbgen', 42, pick(a, 0, 17), pick(b, 0, 17), pick(c, 0, 0), pick(extra, 0, 3))


def h_q_t43_cnfgen(a: int, b: int, c: int) -> bool:
    """
    pre: 0 <= a <= 17 and 0 <= b <= 5 and 0 <= c <= 2
    post: _
    """
    # iso complete <n> -e grid <n> <n>
    return untraced(_template, 'cnfgen', 43, pick(a, 0, 17), pick(b, 0, 5), pick(c, 0, 2), 0)


def h_t_t43_cnfgen(a: int, b: int, c: int, extra: int) -> bool:
    """
    pre: 0 <= a <= 17 and 0 <= b <= 17 and 0 <= c <= 5 and 0 <= extra <= 3
    post: _
    """
    # iso complete <n> -e grid <n> <n>
    return untraced(_template, 'cnfgen', 43, pick(a, 0, 17), pick(b, 0, 17), pick(c, 0, 5), pick(extra, 0, 3))


def h_q_t44_cnfgen(a: int, b: int, c: int) -> bool:
    """
    pre: 0 <= a <= 17 and 0 <= b <= 5 and 0 <= c <= 0
    post: _
    """
    # subgraph -G complete <n> -H empty <n>
    return untraced(_template, 'cnfgen', 44, pick(a, 0, 17), pick(b, 0, 5), pick(c, 0, 0), 0)


def h_t_t44_cnfgen(a: int, b: int, c: int, extra: int) -> bool:
    """
    pre: 0 <= a <= 17 and 0 <= b <= 17 and 0 <= c <= 0 and 0 <= extra <= 3
    post: _
    """
    # subgraph -G complete <n> -H empty <n>
    return untraced(_template, 'cnfgen', 44, pick(a, 0, 17), pick(b, 0, 17), pick(c, 0, 0), pick(extra, 0, 3))


def h_q_t45_cnfgen(a: int, b: int, c: int) -> bool:
    """
    pre: 0 <= a <= 17 and 0 <= b <= 5 and 0 <= c <= 0
    post: _
    """
    # tseitin first gnd <n> <n>
    return untraced(_template, 'cnfgen', 45, pick(a, 0, 17), pick(b, 0, 5), pick(c, 0, 0), 0)


def h_t_t45_cnfgen(a: int, b: int, c: int, extra: int) -> bool:
    """
    pre: 0 <= a <= 17 and 0 <= b <= 17 and 0 <= c <= 0 and 0 <= extra <= 3
    post: _
    """
    # tseitin first gnd <n> <n>
    return untraced(_template, 'cnfgen', 45, pick(a, 0, 17), pick(b, 0, 17), pick(c, 0, 0), pick(extra, 0, 3))


def h_q_t45_pbgen(a: int, b: int, c: int) -> bool:
    """
    pre: 0 <= a <= 17 and 0 <= b <= 5 and 0 <= c <= 0
    post: _
    """
    # tseitin first gnd <n> <n>
    return untraced(_template, 'pbgen', 45, pick(a, 0, 17), pick(b, 0, 5), pick(c, 0, 0), 0)


def h_t_t45_pbgen(a: int, b: int, c: int, extra: int) -> bool:
    """
    pre: 0 <= a <= 17 and 0 <= b <= 17 and 0 <= c <= 0 and 0 <= extra <= 3
    post: _
    """
    # tseitin first gnd <n> <n>
    return untraced(_template, 'pbgen', 45, pick(a, 0, 17), pick(b, 0, 17), pick(c, 0, 0), pick(extra, 0, 3))


def h_q_t46_cnfgen(a: int, b: int, c: int) -> bool:
    """
    pre: 0 <= a <= 17 and 0 <= b <= 0 and 0 <= c <= 0
    post: _
    """
    # tseitin random complete <n>
    return untraced(_template, 'cnfgen', 46, pick(a, 0, 17), pick(b, 0, 0), pick(c, 0, 0), 0)


def h_t_t46_cnfgen(a: int, b: int, c: int, extra: int) -> bool:
    """
    pre: 0 <= a <= 17 and 0 <= b <= 0 and 0 <= c <= 0 and 0 <= extra <= 3
    post: _
    """
    # tseitin random complete <n>
    return untraced(_template, 'cnfgen', 46, pick(a, 0, 17), pick(b, 0, 0), pick(c, 0, 0), pick(extra, 0, 3))


def h_q_t47_cnfgen(a: int, b: int, c: int) -> bool:
    """
    pre: 0 <= a <= 17 and 0 <= b <= 5 and 0 <= c <= 2
    post: _
    """
    # php glrp <n> <n> <n>
    return untraced(_template, 'cnfgen', 47, pick(a, 0, 17), pick(b, 0, 5), pick(c, 0, 2), 0)


def h_t_t47_cnfgen(a: int, b: int, c: int, extra: int) -> bool:
    """
    pre: 0 <= a <= 17 and 0 <= b <= 17 and 0 <= c <= 5 and 0 <= extra <= 3
    post: _
    """
    # php glrp <n> <n> <n>
    return untraced(_template, 'cnfgen', 47, pick(a, 0, 17), pick(b, 0, 17), pick(c, 0, 5), pick(extra, 0, 3))


def h_q_t48_cnfgen(a: int, b: int, c: int) -> bool:
    """
    pre: 0 <= a <= 17 and 0 <= b <= 5 and 0 <= c <= 2
    post: _
    """
    # php glrm <n> <n> <n>
    return untraced(_template, 'cnfgen', 48, pick(a, 0, 17), pick(b, 0, 5), pick(c, 0, 2), 0)


def h_t_t48_cnfgen(a: int, b: int, c: int, extra: int) -> bool:
    """
    pre: 0 <= a <= 17 and 0 <= b <= 17 and 0 <= c <= 5 and 0 <= extra <= 3
    post: _
    """
    # php glrm <n> <n> <n>
    return untraced(_template, 'cnfgen', 48, pick(a, 0, 17), pick(b, 0, 17), pick(c, 0, 5), pick(extra, 0, 3))


def h_q_t48_pbgen(a: int, b: int, c: int) -> bool:
    """
    pre: 0 <= a <= 17 and 0 <= b <= 5 and 0 <= c <= 2
    post: _
    """
    # php glrm <n> <n> <n>
    return untraced(_template, 'pbgen', 48, pick(a, 0, 17), pick(b, 0, 5), pick(c, 0, 2), 0)


def h_t_t48_pbgen(a: int, b: int, c: int, extra: int) -> bool:
    """
    pre: 0 <= a <= 17 and 0 <= b <= 17 and 0 <= c <= 5 and 0 <= extra <= 3
    post: _
    """
    # php glrm <n> <n> <n>
    return untraced(_template, 'pbgen', 48, pick(a, 0, 17), pick(b, 0, 17), pick(c, 0, 5), pick(extra, 0, 3))


def h_q_t49_cnfgen(a: int, b: int, c: int) -> bool:
    """
    pre: 0 <= a <= 17 and 0 <= b <= 5 and 0 <= c <= 2
    post: _
    """
    # php glrd <n> <n> <n>
    return untraced(_template, 'cnfgen', 49, pick(a, 0, 17), pick(b, 0, 5), pick(c, 0, 2), 0)


def h_t_t49_cnfgen(a: int, b: int, c: int, extra: int) -> bool:
    """
    pre: 0 <= a <= 17 and 0 <= b <= 17 and 0 <= c <= 5 and 0 <= extra <= 3
    post: _
    """
    # php glrd <n> <n> <n>
    return untraced(_template, 'cnfgen', 49, pick(a, 0, 17), pick(b, 0, 17), pick(c, 0, 5), pick(extra, 0, 3))


def h_q_t50_cnfgen(a: int, b: int, c: int) -> bool:
    """
    pre: 0 <= a <= 17 and 0 <= b <= 5 and 0 <= c <= 2
    post: _
    """
    # php regular <n> <n> <n>
    return untraced(_template, 'cnfgen', 50, pick(a, 0, 17), pick(b, 0, 5), pick(c, 0, 2), 0)


def h_t_t50_cnfgen(a: int, b: int, c: int, extra: int) -> bool:
    """
    pre: 0 <= a <= 17 and 0 <= b <= 17 and 0 <= c <= 5 and 0 <= extra <= 3
    post: _
    """
    # php regular <n> <n> <n>
    return untraced(_template, 'cnfgen', 50, pick(a, 0, 17), pick(b, 0, 17), pick(c, 0, 5), pick(extra, 0, 3))


def h_q_t51_cnfgen(a: int, b: int, c: int) -> bool:
    """
    pre: 0 <= a <= 17 and 0 <= b <= 5 and 0 <= c <= 2
    post: _
    """
    # php shift <n> <n> <n>
    return untraced(_template, 'cnfgen', 51, pick(a, 0, 17), pick(b, 0, 5), pick(c, 0, 2), 0)


def h_t_t51_cnfgen(a: int, b: int, c: int, extra: int) -> bool:
    """
    pre: 0 <= a <= 17 and 0 <= b <= 17 and 0 <= c <= 5 and 0 <= extra <= 3
    post: _
    """
    # php shift <n> <n> <n>
    return untraced(_template, 'cnfgen', 51, pick(a, 0, 17), pick(b, 0, 17), pick(c, 0, 5), pick(extra, 0, 3))


def h_q_t51_pbgen(a: int, b: int, c: int) -> bool:
    """
    pre: 0 <= a <= 17 and 0 <= b <= 5 and 0 <= c <= 2
    post: _
    """
    # php shift <n> <n> <n>
    return untraced(_template, 'pbgen', 51, pick(a, 0, 17), pick(b, 0, 5), pick(c, 0, 2), 0)


def h_t_t51_pbgen(a: int, b: int, c: int, extra: int) -> bool:
    """
    pre: 0 <= a <= 17 and 0 <= b <= 17 and 0 <= c <= 5 and 0 <= extra <= 3
    post: _
    """
    # php shift <n> <n> <n>
    return untraced(_template, 'pbgen', 51, pick(a, 0, 17), pick(b, 0, 17), pick(c, 0, 5), pick(extra, 0, 3))


def h_q_t52_cnfgen(a: int, b: int, c: int) -> bool:
    """
    pre: 0 <= a <= 17 and 0 <= b <= 5 and 0 <= c <= 0
    post: _
    """
    # php complete <n> <n>
    return untraced(_template, 'cnfgen', 52, pick(a, 0, 17), pick(b, 0, 5), pick(c, 0, 0), 0)


def h_t_t52_cnfgen(a: int, b: int, c: int, extra: int) -> bool:
    """
    pre: 0 <= a <= 17 and 0 <= b <= 17 and 0 <= c <= 0 and 0 <= extra <= 3
    post: _
    """
    # php complete <n> <n>
    return untraced(_template, 'cnfgen', 52, pick(a, 0, 17), pick(b, 0, 17), pick(c, 0, 0), pick(extra, 0, 3))


def h_q_t53_cnfgen(a: int, b: int, c: int) -> bool:
    """
    pre: 0 <= a <= 17 and 0 <= b <= 5 and 0 <= c <= 2
    post: _
    """
    # subsetcard empty <n> <n> plantbiclique <n> <n>
    return untraced(_template, 'cnfgen', 53, pick(a, 0, 17), pick(b, 0, 5), pick(c, 0, 2), 0)


def h_t_t53_cnfgen(a: int, b: int, c: int, extra: int) -> bool:
    """
    pre: 0 <= a <= 17 and 0 <= b <= 17 and 0 <= c <= 5 and 0 <= extra <= 3
    post: _
    """
    # subsetcard empty <n> <n> plantbiclique <n> <n>
    return untraced(_template, 'cnfgen', 53, pick(a, 0, 17), pick(b, 0, 17), pick(c, 0, 5), pick(extra, 0, 3))


def h_q_t54_cnfgen(a: int, b: int, c: int) -> bool:
    """
    pre: 0 <= a <= 17 and 0 <= b <= 0 and 0 <= c <= 0
    post: _
    """
    # peb pyramid <n>
    return untraced(_template, 'cnfgen', 54, pick(a, 0, 17), pick(b, 0, 0), pick(c, 0, 0), 0)


def h_t_t54_cnfgen(a: int, b: int, c: int, extra: int) -> bool:
    """
    pre: 0 <= a <= 17 and 0 <= b <= 0 and 0 <= c <= 0 and 0 <= extra <= 3
    post: _
    """
    # peb pyramid <n>
    return untraced(_template, 'cnfgen', 54, pick(a, 0, 17), pick(b, 0, 0), pick(c, 0, 0), pick(extra, 0, 3))


def h_q_t54_pbgen(a: int, b: int, c: int) -> bool:
    """
    pre: 0 <= a <= 17 and 0 <= b <= 0 and 0 <= c <= 0
    post: _
    """
    # peb pyramid <n>
    return untraced(_template, 'pbgen', 54, pick(a, 0, 17), pick(b, 0, 0), pick(c, 0, 0), 0)


def h_t_t54_pbgen(a: int, b: int, c: int, extra: int) -> bool:
    """
    pre: 0 <= a <= 17 and 0 <= b <= 0 and 0 <= c <= 0 and 0 <= extra <= 3
    post: _
    """
    # peb pyramid <n>
    return untraced(_template, 'pbgen', 54, pick(a, 0, 17), pick(b, 0, 0), pick(c, 0, 0), pick(extra, 0, 3))


def h_q_t55_cnfgen(a: int, b: int, c: int) -> bool:
    """
    pre: 0 <= a <= 17 and 0 <= b <= 0 and 0 <= c <= 0
    post: _
    """
    # peb tree <n>
    return untraced(_template, 'cnfgen', 55, pick(a, 0, 17), pick(b, 0, 0), pick(c, 0, 0), 0)


def h_t_t55_cnfgen(a: int, b: int, c: int, extra: int) -> bool:
    """
    pre: 0 <= a <= 17 and 0 <= b <= 0 and 0 <= c <= 0 and 0 <= extra <= 3
    post: _
    """
    # peb tree <n>
    return untraced(_template, 'cnfgen', 55, pick(a, 0, 17), pick(b, 0, 0), pick(c, 0, 0), pick(extra, 0, 3))


def h_q_t56_cnfgen(a: int, b: int, c: int) -> bool:
    """
    pre: 0 <= a <= 17 and 0 <= b <= 0 and 0 <= c <= 0
    post: _
    """
    # peb path <n>
    return untraced(_template, 'cnfgen', 56, pick(a, 0, 17), pick(b, 0, 0), pick(c, 0, 0), 0)


def h_t_t56_cnfgen(a: int, b: int, c: int, extra: int) -> bool:
    """
    pre: 0 <= a <= 17 and 0 <= b <= 0 and 0 <= c <= 0 and 0 <= extra <= 3
    post: _
    """
    # peb path <n>
    return untraced(_template, 'cnfgen', 56, pick(a, 0, 17), pick(b, 0, 0), pick(c, 0, 0), pick(extra, 0, 3))


def h_q_t57_cnfgen(a: int, b: int, c: int) -> bool:
    """
    pre: 0 <= a <= 17 and 0 <= b <= 5 and 0 <= c <= 0
    post: _
    """
    # stone <n> pyramid <n>
    return untraced(_template, 'cnfgen', 57, pick(a, 0, 17), pick(b, 0, 5), pick(c, 0, 0), 0)


def h_t_t57_cnfgen(a: int, b: int, c: int, extra: int) -> bool:
    """
    pre: 0 <= a <= 17 and 0 <= b <= 17 and 0 <= c <= 0 and 0 <= extra <= 3
    post: _
    """
    # stone <n> pyramid <n>
    return untraced(_template, 'cnfgen', 57, pick(a, 0, 17), pick(b, 0, 17), pick(c, 0, 0), pick(extra, 0, 3))


def h_q_t57_pbgen(a: int, b: int, c: int) -> bool:
    """
    pre: 0 <= a <= 17 and 0 <= b <= 5 and 0 <= c <= 0
    post: _
    """
    # stone <n> pyramid <n>
    return untraced(_template, 'pbgen', 57, pick(a, 0, 17), pick(b, 0, 5), pick(c, 0, 0), 0)


def h_t_t57_pbgen(a: int, b: int, c: int, extra: int) -> bool:
    """
    pre: 0 <= a <= 17 and 0 <= b <= 17 and 0 <= c <= 0 and 0 <= extra <= 3
    post: _
    """
    # stone <n> pyramid <n>
    return untraced(_template, 'pbgen', 57, pick(a, 0, 17), pick(b, 0, 17), pick(c, 0, 0), pick(extra, 0, 3))


def h_q_t58_cnfgen(a: int, b: int, c: int) -> bool:
    """
    pre: 0 <= a <= 17 and 0 <= b <= 5 and 0 <= c <= 2
    post: _
    """
    # stone <n> path <n> --sparse <n>
    return untraced(_template, 'cnfgen', 58, pick(a, 0, 17), pick(b, 0, 5), pick(c, 0, 2), 0)


def h_t_t58_cnfgen(a: int, b: int, c: int, extra: int) -> bool:
    """
    pre: 0 <= a <= 17 and 0 <= b <= 17 and 0 <= c <= 5 and 0 <= extra <= 3
    post: _
    """
    # stone <n> path <n> --sparse <n>
    return untraced(_template, 'cnfgen', 58, pick(a, 0, 17), pick(b, 0, 17), pick(c, 0, 5), pick(extra, 0, 3))


def h_q_t59_cnfgen(a: int, b: int, c: int) -> bool:
    """
    pre: 0 <= a <= 17 and 0 <= b <= 0 and 0 <= c <= 0
    post: _
    """
    # php 3 2 -T xor <n>
    return untraced(_template, 'cnfgen', 59, pick(a, 0, 17), pick(b, 0, 0), pick(c, 0, 0), 0)


def h_t_t59_cnfgen(a: int, b: int, c: int, extra: int) -> bool:
    """
    pre: 0 <= a <= 17 and 0 <= b <= 0 and 0 <= c <= 0 and 0 <= extra <= 3
    post: _
    """
    # php 3 2 -T xor <n>
    return untraced(_template, 'cnfgen', 59, pick(a, 0, 17), pick(b, 0, 0), pick(c, 0, 0), pick(extra, 0, 3))


def h_q_t60_cnfgen(a: int, b: int, c: int) -> bool:
    """
    pre: 0 <= a <= 17 and 0 <= b <= 0 and 0 <= c <= 0
    post: _
    """
    # php 3 2 -T lift <n>
    return untraced(_template, 'cnfgen', 60, pick(a, 0, 17), pick(b, 0, 0), pick(c, 0, 0), 0)


def h_t_t60_cnfgen(a: int, b: int, c: int, extra: int) -> bool:
    """
    pre: 0 <= a <= 17 and 0 <= b <= 0 and 0 <= c <= 0 and 0 <= extra <= 3
    post: _
    """
    # php 3 2 -T lift <n>
    return untraced(_template, 'cnfgen', 60, pick(a, 0, 17), pick(b, 0, 0), pick(c, 0, 0), pick(extra, 0, 3))


def h_q_t60_pbgen(a: int, b: int, c: int) -> bool:
    """
    pre: 0 <= a <= 17 and 0 <= b <= 0 and 0 <= c <= 0
    post: _
    """
    # php 3 2 -T lift <n>
    return untraced(_template, 'pbgen', 60, pick(a, 0, 17), pick(b, 0, 0), pick(c, 0, 0), 0)


def h_t_t60_pbgen(a: int, b: int, c: int, extra: int) -> bool:
    """
    pre: 0 <= a <= 17 and 0 <= b <= 0 and 0 <= c <= 0 and 0 <= extra <= 3
    post: _
    """
    # php 3 2 -T lift <n>
    return untraced(_template, 'pbgen', 60, pick(a, 0, 17), pick(b, 0, 0), pick(c, 0, 0), pick(extra, 0, 3))


def h_q_t61_cnfgen(a: int, b: int, c: int) -> bool:
    """
    pre: 0 <= a <= 17 and 0 <= b <= 5 and 0 <= c <= 0
    post: _
    """
    # php 2 2 -T exact <n> <n>
    return untraced(_template, 'cnfgen', 61, pick(a, 0, 17), pick(b, 0, 5), pick(c, 0, 0), 0)


def h_t_t61_cnfgen(a: int, b: int, c: int, extra: int) -> bool:
    """
    pre: 0 <= a <= 17 and 0 <= b <= 17 and 0 <= c <= 0 and 0 <= extra <= 3
    post: _
    """
    # php 2 2 -T exact <n> <n>
    return untraced(_template, 'cnfgen', 61, pick(a, 0, 17), pick(b, 0, 17), pick(c, 0, 0), pick(extra, 0, 3))


def h_q_t62_cnfgen(a: int, b: int, c: int) -> bool:
    """
    pre: 0 <= a <= 17 and 0 <= b <= 5 and 0 <= c <= 0
    post: _
    """
    # op 3 -T xorcomp <n> <n>
    return untraced(_template, 'cnfgen', 62, pick(a, 0, 17), pick(b, 0, 5), pick(c, 0, 0), 0)


def h_t_t62_cnfgen(a: int, b: int, c: int, extra: int) -> bool:
    """
    pre: 0 <= a <= 17 and 0 <= b <= 17 and 0 <= c <= 0 and 0 <= extra <= 3
    post: _
    """
    # op 3 -T xorcomp <n> <n>
    return untraced(_template, 'cnfgen', 62, pick(a, 0, 17), pick(b, 0, 17), pick(c, 0, 0), pick(extra, 0, 3))


def h_q_t63_cnfgen(a: int, b: int, c: int) -> bool:
    """
    pre: 0 <= a <= 17 and 0 <= b <= 0 and 0 <= c <= 0
    post: _
    """
    # op 3 -T majcomp <n>
    return untraced(_template, 'cnfgen', 63, pick(a, 0, 17), pick(b, 0, 0), pick(c, 0, 0), 0)


def h_t_t63_cnfgen(a: int, b: int, c: int, extra: int) -> bool:
    """
    pre: 0 <= a <= 17 and 0 <= b <= 0 and 0 <= c <= 0 and 0 <= extra <= 3
    post: _
    """
    # op 3 -T majcomp <n>
    return untraced(_template, 'cnfgen', 63, pick(a, 0, 17), pick(b, 0, 0), pick(c, 0, 0), pick(extra, 0, 3))


def h_q_t63_pbgen(a: int, b: int, c: int) -> bool:
    """
    pre: 0 <= a <= 17 and 0 <= b <= 0 and 0 <= c <= 0
    post: _
    """
    # op 3 -T majcomp <n>
    return untraced(_template, 'pbgen', 63, pick(a, 0, 17), pick(b, 0, 0), pick(c, 0, 0), 0)


def h_t_t63_pbgen(a: int, b: int, c: int, extra: int) -> bool:
    """
    pre: 0 <= a <= 17 and 0 <= b <= 0 and 0 <= c <= 0 and 0 <= extra <= 3
    post: _
    """
    # op 3 -T majcomp <n>
    return untraced(_template, 'pbgen', 63, pick(a, 0, 17), pick(b, 0, 0), pick(c, 0, 0), pick(extra, 0, 3))


def h_q_t64_cnfgen(a: int, b: int, c: int) -> bool:
    """
    pre: 0 <= a <= 17 and 0 <= b <= 0 and 0 <= c <= 0
    post: _
    """
    # php 2 2 -T shuffle <n>
    return untraced(_template, 'cnfgen', 64, pick(a, 0, 17), pick(b, 0, 0), pick(c, 0, 0), 0)


def h_t_t64_cnfgen(a: int, b: int, c: int, extra: int) -> bool:
    """
    pre: 0 <= a <= 17 and 0 <= b <= 0 and 0 <= c <= 0 and 0 <= extra <= 3
    post: _
    """
    # php 2 2 -T shuffle <n>
    return untraced(_template, 'cnfgen', 64, pick(a, 0, 17), pick(b, 0, 0), pick(c, 0, 0), pick(extra, 0, 3))


def h_q_t65_cnfgen(a: int, b: int, c: int) -> bool:
    """
    pre: 0 <= a <= 17 and 0 <= b <= 0 and 0 <= c <= 0
    post: _
    """
    # php 2 2 -T <n>
    return untraced(_template, 'cnfgen', 65, pick(a, 0, 17), pick(b, 0, 0), pick(c, 0, 0), 0)


def h_t_t65_cnfgen(a: int, b: int, c: int, extra: int) -> bool:
    """
    pre: 0 <= a <= 17 and 0 <= b <= 0 and 0 <= c <= 0 and 0 <= extra <= 3
    post: _
    """
    # php 2 2 -T <n>
    return untraced(_template, 'cnfgen', 65, pick(a, 0, 17), pick(b, 0, 0), pick(c, 0, 0), pick(extra, 0, 3))


def h_q_t66_cnfgen(a: int, b: int, c: int) -> bool:
    """
    pre: 0 <= a <= 17 and 0 <= b <= 0 and 0 <= c <= 0
    post: _
    """
    # -of <n> php 2 2
    return untraced(_template, 'cnfgen', 66, pick(a, 0, 17), pick(b, 0, 0), pick(c, 0, 0), 0)


def h_t_t66_cnfgen(a: int, b: int, c: int, extra: int) -> bool:
    """
    pre: 0 <= a <= 17 and 0 <= b <= 0 and 0 <= c <= 0 and 0 <= extra <= 3
    post: _
    """
    # -of <n> php 2 2
    return untraced(_template, 'cnfgen', 66, pick(a, 0, 17), pick(b, 0, 0), pick(c, 0, 0), pick(extra, 0, 3))


def h_q_t66_pbgen(a: int, b: int, c: int) -> bool:
    """
    pre: 0 <= a <= 17 and 0 <= b <= 0 and 0 <= c <= 0
    post: _
    """
    # -of <n> php 2 2
    return untraced(_template, 'pbgen', 66, pick(a, 0, 17), pick(b, 0, 0), pick(c, 0, 0), 0)


def h_t_t66_pbgen(a: int, b: int, c: int, extra: int) -> bool:
    """
    pre: 0 <= a <= 17 and 0 <= b <= 0 and 0 <= c <= 0 and 0 <= extra <= 3
    post: _
    """
    # -of <n> php 2 2
    return untraced(_template, 'pbgen', 66, pick(a, 0, 17), pick(b, 0, 0), pick(c, 0, 0), pick(extra, 0, 3))


def h_q_t67_cnfgen(a: int, b: int, c: int) -> bool:
    """
    pre: 0 <= a <= 17 and 0 <= b <= 0 and 0 <= c <= 0
    post: _
    """
    # --seed <n> php 2 2
    return untraced(_template, 'cnfgen', 67, pick(a, 0, 17), pick(b, 0, 0), pick(c, 0, 0), 0)


def h_t_t67_cnfgen(a: int, b: int, c: int, extra: int) -> bool:
    """
    pre: 0 <= a <= 17 and 0 <= b <= 0 and 0 <= c <= 0 and 0 <= extra <= 3
    post: _
    """
    # --seed <n> php 2 2
    return untraced(_template, 'cnfgen', 67, pick(a, 0, 17), pick(b, 0, 0), pick(c, 0, 0), pick(extra, 0, 3))


def h_q_t68_cnfgen(a: int, b: int, c: int) -> bool:
    """
    pre: 0 <= a <= 17 and 0 <= b <= 0 and 0 <= c <= 0
    post: _
    """
    # dimacs <n>
    return untraced(_template, 'cnfgen', 68, pick(a, 0, 17), pick(b, 0, 0), pick(c, 0, 0), 0)


def h_t_t68_cnfgen(a: int, b: int, c: int, extra: int) -> bool:
    """
    pre: 0 <= a <= 17 and 0 <= b <= 0 and 0 <= c <= 0 and 0 <= extra <= 3
    post: _
    """
    # dimacs <n>
    return untraced(_template, 'cnfgen', 68, pick(a, 0, 17), pick(b, 0, 0), pick(c, 0, 0), pick(extra, 0, 3))


def h_q_t69_cnfgen(a: int, b: int, c: int) -> bool:
    """
    pre: 0 <= a <= 17 and 0 <= b <= 0 and 0 <= c <= 0
    post: _
    """
    # true <n>
    return untraced(_template, 'cnfgen', 69, pick(a, 0, 17), pick(b, 0, 0), pick(c, 0, 0), 0)


def h_t_t69_cnfgen(a: int, b: int, c: int, extra: int) -> bool:
    """
    pre: 0 <= a <= 17 and 0 <= b <= 0 and 0 <= c <= 0 and 0 <= extra <= 3
    post: _
    """
    # true <n>
    return untraced(_template, 'cnfgen', 69, pick(a, 0, 17), pick(b, 0, 0), pick(c, 0, 0), pick(extra, 0, 3))


def h_q_t69_pbgen(a: int, b: int, c: int) -> bool:
    """
    pre: 0 <= a <= 17 and 0 <= b <= 0 and 0 <= c <= 0
    post: _
    """
    # true <n>
    return untraced(_template, 'pbgen', 69, pick(a, 0, 17), pick(b, 0, 0), pick(c, 0, 0), 0)


def h_t_t69_pbgen(a: int, b: int, c: int, extra: int) -> bool:
    """
    pre: 0 <= a <= 17 and 0 <= b <= 0 and 0 <= c <= 0 and 0 <= extra <= 3
    post: _
    """
    # true <n>
    return untraced(_template, 'pbgen', 69, pick(a, 0, 17), pick(b, 0, 0), pick(c, 0, 0), pick(extra, 0, 3))


def h_q_t70_cnfgen(a: int, b: int, c: int) -> bool:
    """
    pre: 0 <= a <= 17 and 0 <= b <= 0 and 0 <= c <= 0
    post: _
    """
    # false
    return untraced(_template, 'cnfgen', 70, pick(a, 0, 17), pick(b, 0, 0), pick(c, 0, 0), 0)


def h_t_t70_cnfgen(a: int, b: int, c: int, extra: int) -> bool:
    """
    pre: 0 <= a <= 17 and 0 <= b <= 0 and 0 <= c <= 0 and 0 <= extra <= 3
    post: _
    """
    # false
    return untraced(_template, 'cnfgen', 70, pick(a, 0, 17), pick(b, 0, 0), pick(c, 0, 0), pick(extra, 0, 3))


def h_q_t71_cnfgen(a: int, b: int, c: int) -> bool:
    """
    pre: 0 <= a <= 17 and 0 <= b <= 0 and 0 <= c <= 0
    post: _
    """
    # <n>
    return untraced(_template, 'cnfgen', 71, pick(a, 0, 17), pick(b, 0, 0), pick(c, 0, 0), 0)


def h_t_t71_cnfgen(a: int, b: int, c: int, extra: int) -> bool:
    """
    pre: 0 <= a <= 17 and 0 <= b <= 0 and 0 <= c <= 0 and 0 <= extra <= 3
    post: _
    """
    # <n>
    return untraced(_template, 'cnfgen', 71, pick(a, 0, 17), pick(b, 0, 0), pick(c, 0, 0), pick(extra, 0, 3))


def h_q_t72_cnfgen(a: int, b: int, c: int) -> bool:
    """
    pre: 0 <= a <= 17 and 0 <= b <= 0 and 0 <= c <= 0
    post: _
    """
    # 
    return untraced(_template, 'cnfgen', 72, pick(a, 0, 17), pick(b, 0, 0), pick(c, 0, 0), 0)


def h_t_t72_cnfgen(a: int, b: int, c: int, extra: int) -> bool:
    """
    pre: 0 <= a <= 17 and 0 <= b <= 0 and 0 <= c <= 0 and 0 <= extra <= 3
    post: _
    """
    # 
    return untraced(_template, 'cnfgen', 72, pick(a, 0, 17), pick(b, 0, 0), pick(c, 0, 0), pick(extra, 0, 3))


def h_q_t72_pbgen(a: int, b: int, c: int) -> bool:
    """
    pre: 0 <= a <= 17 and 0 <= b <= 0 and 0 <= c <= 0
    post: _
    """
    # 
    return untraced(_template, 'pbgen', 72, pick(a, 0, 17), pick(b, 0, 0), pick(c, 0, 0), 0)


def h_t_t72_pbgen(a: int, b: int, c: int, extra: int) -> bool:
    """
    pre: 0 <= a <= 17 and 0 <= b <= 0 and 0 <= c <= 0 and 0 <= extra <= 3
    post: _
    """
    # 
    return untraced(_template, 'pbgen', 72, pick(a, 0, 17), pick(b, 0, 0), pick(c, 0, 0), pick(extra, 0, 3))


# ------------------------------------------------------- the two file based tools and malformed input files
DIMACS_TEXTS = ['p cnf 2 1\n1 -2 0\n', '', 'p cnf 2 2\n1 0\n', 'p cnf 1 1\n2 0\n', 'garbage\n', 'p cnf 0 0\n', 'c only a comment\n', 'p cnf 2 1\n1 x 0\n',
                'p cnf 1 1\n\n1 0\n\n']
KTH_TEXTS = ['3\n1 : 0\n2 : 0\n3 : 1 2 0\n', '', '2\n2 : 1 0\n1 : 0\n', '2\n1 : 2 0\n2 : 0\n', 'x\n', '0\n', '2\n1 : 3 0\n', '2\n1 : 0\n1 : 0\n', 'c c\n1\n1 : 0\n',
             '2\n1 : 0\n2 :\n', '2\n1 : 0\n2 : 1\n', '2\n: 1 0\n', '1\n1 : : 0\n']
OPTS = [[], ['-q'], ['-p'], ['-v', '-c'], ['--seed', 0], ['--seed', 'abc'], ['--nosuchoption'], ['-h'], ['-o'], ['-i'], ['xor', 2], ['xor'], ['lift', 0], ['extra']]


def _filetool(tool, ti, oi, via_stdin):
    text = (DIMACS_TEXTS if tool == 'cnfshuffle' else KTH_TEXTS)[ti]
    opts = OPTS[oi]
    import cnfgen.clitools.cnfshuffle as _cs  # noqa
    import builtins
    real_open = builtins.open
    path = os.path.join(DATA, '__virtual_input__')

    def fake_open(name, *a, **k):
        if name == path:
            f = io.StringIO(text)
            f.name = name
            return f
        return real_open(name, *a, **k)
    import argparse
    builtins_open = builtins.open
    builtins.open = fake_open
    try:
        if via_stdin:
            code, out, err = run_main(tool, opts, stdin_text=text)
        else:
            code, out, err = run_main(tool, ['-i', path] + opts)
    finally:
        builtins.open = builtins_open
    return classify(tool, opts, code, out, err)


def h_e_cnfshuffle(ti: int, oi: int, via_stdin: bool) -> bool:
    """
    pre: 0 <= ti <= 8 and 0 <= oi <= 9
    post: _
    """
    return untraced(_filetool, 'cnfshuffle', pick(ti, 0, 8), pick(oi, 0, 9), pickb(via_stdin))


def h_e_kthlist2pebbling(ti: int, oi: int, via_stdin: bool) -> bool:
    """
    pre: 0 <= ti <= 12 and 0 <= oi <= 13
    post: _
    """
    oo = pick(oi, 0, 13)
    if oo in (2, 3, 4, 5):
        return True
    return untraced(_filetool, 'kthlist2pebbling', pick(ti, 0, 12), oo, pickb(via_stdin))


def _graphfiles(kind, ti, fmt_i):
    """malformed graph files and dimacs files given to cnfgen / pbgen"""
    import builtins
    real_open = builtins.open
    texts = {'kthlist': KTH_TEXTS, 'dimacs': ['p edge 3 2\ne 1 2\ne 2 3\n', '', 'p edge 2 1\n\ne 1 2\n', 'e 1 2\n', 'p edge 2 1\ne 1 3\n', 'p edge 2\n', 'x\n', 'p edge 1 0\n', 'p edge 2 2\ne 1 2\n'],
             'matrix': ['2 2\n1 0\n0 1\n', '', '2 2\n1 0\n', '1 1\n2\n', 'x\n', '0 0\n', '1 2\n1 1 1\n', '# c\n1 1\n1\n', '2\n'],
             'gml': ['graph [\n node [ id 1 ]\n node [ id 2 ]\n edge [ source 1 target 2 ]\n]\n', '', 'graph [\n', 'garbage', 'graph [ node [ id 1 ] edge [ source 1 target 5 ] ]', 'graph [ ]\n',
                     'graph [ directed 1 node [ id 1 ] ]', 'graph [ node [ id 1 label "é" ] ]', 'graph [ node [ id 1 ] node [ id 1 ] ]']}
    fmts = [('kcolor', 'simple', 'kthlist'), ('kcolor', 'simple', 'dimacs'), ('kcolor', 'simple', 'gml'), ('php', 'bipartite', 'matrix'),
            ('php', 'bipartite', 'kthlist'), ('peb', 'dag', 'kthlist'), ('peb', 'dag', 'dimacs'), ('php', 'bipartite', 'gml')]
    cmd, gt, fmt = fmts[fmt_i]
    text = texts[fmt][ti % len(texts[fmt])]
    path = os.path.join(DATA, '__virtual__.' + fmt)

    def fake_open(name, *a, **k):
        if name == path:
            f = io.StringIO(text)
            f.name = name
            return f
        return real_open(name, *a, **k)
    builtins.open = fake_open
    try:
        argv = ['-q', cmd] + ([2] if cmd == 'kcolor' else []) + ([path] if kind == 0 else [fmt, path])
        code, out, err = run_main('cnfgen' if kind < 2 else 'pbgen', argv)
    finally:
        builtins.open = real_open
    return classify('cnfgen' if kind < 2 else 'pbgen', argv, code, out, err)


def h_e_graphfiles(kind: int, ti: int, fmt_i: int) -> bool:
    """
    pre: 0 <= kind <= 2 and 0 <= ti <= 12 and 0 <= fmt_i <= 7
    post: _
    """
    return untraced(_graphfiles, pick(kind, 0, 2), pick(ti, 0, 12), pick(fmt_i, 0, 7))


STDIN_ARGV = [['dimacs'], ['dimacs', '-'], ['-q', 'dimacs'], ['dimacs', '-T', 'xor', 2], ['-of', 'opb', 'dimacs'], ['-of', 'latex', 'dimacs'],
              ['-q', 'dimacs', '-T', 'shuffle'], ['kcolor', 2, 'kthlist', '-'], ['peb', 'kthlist', '-'], ['php', 'matrix', '-']]


def _stdin_tools(tool_i, ai, ti):
    """formula / graph read from a piped (non seekable) standard input by cnfgen and pbgen"""
    argv = STDIN_ARGV[ai]
    if argv[0] in ('kcolor', 'peb'):
        text = KTH_TEXTS[ti]
    elif argv[0] == 'php':
        text = ['2 2\n1 0\n0 1\n', '', '2 2\n1 0\n', 'x\n', '1 1\n1\n', '0 0\n', '1 1\n2\n', '# c\n1 1\n0\n', '2\n'][ti % 9]
    else:
        text = DIMACS_TEXTS[ti % len(DIMACS_TEXTS)]
    tool = ['cnfgen', 'pbgen'][tool_i]
    if tool == 'pbgen' and '-T' in argv:
        return True
    if tool == 'pbgen' and '-of' in argv and argv[1] == 'opb':
        argv = argv[2:]
    code, out, err = run_main(tool, argv, stdin_text=text)
    return classify(tool, argv, code, out, err)


def h_e_stdin_tools(tool_i: int, ai: int, ti: int) -> bool:
    """
    pre: 0 <= tool_i <= 1 and 0 <= ai <= 9 and 0 <= ti <= 12
    post: _
    """
    return untraced(_stdin_tools, pick(tool_i, 0, 1), pick(ai, 0, 9), pick(ti, 0, 12))


POSTPARSE = [['cpls', 2, 3, 4], ['randkcnf', 3, 2, 1], ['tseitin', 4, 5], ['stone', 2, 'path', 3, '--sparse', 3], ['pitfall', 3, 1, 2, 2, 2],
             ['ec', 'complete', 4], ['randkxor', 3, 2, 1], ['op', 3, 3], ['php', 2, 2, '-T', 'xorcomp', 5, 6], ['subsetcard', 3, 5]]
FORMATS = [([], None), (['-of', 'opb'], '*'), (['-of', 'latex'], '%'), (['-of', 'dimacs'], 'c'), (['-o', 'OUT.opb'], '*'), (['-o', 'OUT.tex'], '%'),
           (['-o', 'OUT.cnf'], 'c'), (['-l'], '%')]


def _postparse(tool_i, ci, fi):
    """errors found AFTER the command line has been parsed (the generator refuses the parameters) carry the comment
    marker of the output format in effect, also when that format was chosen through the extension of -o"""
    import builtins
    tool = ['cnfgen', 'pbgen'][tool_i]
    cmd = POSTPARSE[ci]
    opts, marker = FORMATS[fi]
    if tool == 'pbgen' and ('-T' in cmd or 'dimacs' in opts or 'OUT.cnf' in opts):
        return True
    if marker is None:
        marker = 'c' if tool == 'cnfgen' else '*'
    if tool == 'pbgen' and '-o' in opts:
        marker = '*'        # pbgen documents "-of (default: opb)": the extension of -o does not select the format
    written = {}
    real_open = builtins.open

    def fake_open(name, mode='r', *a, **k):
        if isinstance(name, str) and name.startswith('OUT.'):
            f = _Out()
            f.name = name
            written[name] = f
            return f
        return real_open(name, mode, *a, **k)
    builtins.open = fake_open
    try:
        code, out, err = run_main(tool, opts + cmd)
    finally:
        builtins.open = real_open
    if code == 0:
        return False                       # these requests cannot be met
    if out != '' or any(f.getvalue() != '' for f in written.values()):
        return False
    lines = [l for l in err.split('\n')]
    if lines and lines[-1] == '':
        lines = lines[:-1]
    if not lines:
        return False
    return all(l[:1] == marker for l in lines)


def h_e_postparse(tool_i: int, ci: int, fi: int) -> bool:
    """
    pre: 0 <= tool_i <= 1 and 0 <= ci <= 9 and 0 <= fi <= 7
    post: _
    """
    return untraced(_postparse, pick(tool_i, 0, 1), pick(ci, 0, 9), pick(fi, 0, 7))


# ------------------------------------------------ random constructions pushed into their fallback code paths
FALLBACK_CMDS = [
    ('cnfgen', ['kclique', 3, 'gnm', 5, 9, 'addedges', 1]), ('cnfgen', ['kclique', 3, 'complete', 4, 'addedges', 0]),
    ('cnfgen', ['kcolor', 2, 'gnm', 4, 6]), ('cnfgen', ['kcolor', 2, 'gnm', 4, 5, 'addedges', 1]), ('cnfgen', ['kcolor', 2, 'empty', 4, 'addedges', 6]),
    ('cnfgen', ['php', 'glrm', 3, 3, 9]), ('cnfgen', ['php', 'glrm', 3, 3, 8, 'addedges', 1]), ('cnfgen', ['php', 'empty', 3, 3, 'addedges', 9]),
    ('cnfgen', ['php', 'glrd', 3, 3, 3]), ('cnfgen', ['php', 'glrd', 3, 4, 3, 'addedges', 3]), ('cnfgen', ['php', 'regular', 3, 3, 2, 'addedges', 3]),
    ('cnfgen', ['subsetcard', 3, 2]), ('cnfgen', ['subsetcard', 4, 3]), ('cnfgen', ['subsetcard', 3, 3]),
    ('cnfgen', ['randkcnf', 2, 3, 12]), ('cnfgen', ['randkcnf', 1, 3, 6]), ('cnfgen', ['randkxor', 2, 3, 6]), ('cnfgen', ['randkcnf', '-p', 2, 3, 9]),
    ('cnfgen', ['kclique', 3, 'gnm', 5, 4, 'plantclique', 5]), ('cnfgen', ['tiling', 'complete', 4, 'splitedges', 6]),
    ('cnfgen', ['php', 'complete', 3, 3, 'plantbiclique', 3, 3]), ('pbgen', ['php', 'glrm', 3, 3, 8, 'addedges', 1]),
    ('pbgen', ['kcolor', 2, 'gnm', 4, 5, 'addedges', 1]), ('cnfgen', ['op', 3, '-T', 'xorcomp', 'glrm', 6, 3, 18]),
    ('cnfgen', ['op', 3, '-T', 'majcomp', 'glrm', 6, 3, 17, 'addedges', 1]), ('cnfgen', ['stone', 2, 'pyramid', 1, '--sparse', 2]),
]
FB_STREAMS = [lambda i: 0, lambda i: 10 ** 6 - 1, lambda i: (i // 3) % 2, lambda i: i // 2, lambda i: (i * 7 + 3) % 5]


def _fallbacks(ci, st):
    from vlib.xh.xutil import TapeExhausted
    import vlib.xh.c17 as c17
    tool, argv = FALLBACK_CMDS[ci]
    saved = list(c17.STREAMS)
    c17.STREAMS.append(FB_STREAMS[st])
    try:
        code, out, err = run_main(tool, argv, rnd=len(c17.STREAMS) - 1)
    except (TapeExhausted, RecursionError):
        return True                        # a rejection loop / restart chain that never ends under this stream: cut
    finally:
        c17.STREAMS[:] = saved
    if 'maximum recursion depth exceeded' in err:
        # bipartite_random_regular restarts itself when a run of draws leads to a dead end (a Las Vegas algorithm): under a
        # constant or short-period stream every restart repeats the same draws.  Not a behaviour of a random source: cut
        return True
    return classify(tool, argv, code, out, err)


def h_e_fallbacks(ci: int, st: int) -> bool:
    """
    pre: 0 <= ci <= 25 and 0 <= st <= 4
    post: _
    """
    return untraced(_fallbacks, pick(ci, 0, len(FALLBACK_CMDS) - 1), pick(st, 0, 4))


# ------------------------------------------------ operating-system errors while reading or saving a graph / formula file
OS_ERRORS = [FileNotFoundError(2, 'No such file or directory'), IsADirectoryError(21, 'Is a directory'), PermissionError(13, 'Permission denied'),
             OSError(28, 'No space left on device'), NotADirectoryError(20, 'Not a directory')]
OS_CMDS = [
    ('cnfgen', ['kcolor', 3, 'gnp', 5, '.5', 'save', 'gml', '@']), ('cnfgen', ['kcolor', 3, 'complete', 3, 'save', '@.kthlist']),
    ('cnfgen', ['kcolor', 3, '@.gml']), ('cnfgen', ['kcolor', 3, 'dimacs', '@']), ('cnfgen', ['peb', 'pyramid', 2, 'save', 'kthlist', '@']),
    ('cnfgen', ['peb', 'kthlist', '@']), ('cnfgen', ['php', 'complete', 3, 2, 'save', 'matrix', '@']), ('cnfgen', ['php', '@.matrix']),
    ('pbgen', ['php', 'complete', 3, 2, 'save', 'kthlist', '@']), ('pbgen', ['kcolor', 2, '@.kthlist']),
    ('cnfgen', ['op', 3, '-T', 'xorcomp', 'glrd', 6, 4, 2, 'save', 'matrix', '@']), ('cnfgen', ['op', 3, '-T', 'majcomp', 'kthlist', '@']),
    ('cnfgen', ['iso', 'complete', 3, '-e', '@.gml']), ('cnfgen', ['subgraph', '-G', 'complete', 3, '-H', 'complete', 2, 'save', '@.dimacs']),
    ('cnfgen', ['dimacs', '@']), ('pbgen', ['dimacs', '@']), ('cnfgen', ['-o', '@', 'php', 3, 2]), ('pbgen', ['-o', '@', 'php', 3, 2]),
    ('cnfshuffle', ['-i', '@']), ('cnfshuffle', ['-o', '@']), ('kthlist2pebbling', ['-i', '@']), ('kthlist2pebbling', ['-o', '@']),
]


def _oserrors(ci, ei):
    """every way the operating system can refuse a file named on the command line ends in a clean error"""
    import builtins
    import cnfgen.graphs as G
    tool, argv = OS_CMDS[ci]
    mark = os.path.join(DATA, '__refused__')
    argv = [a.replace('@', mark) if isinstance(a, str) else a for a in argv]
    real_open = builtins.open
    err_obj = OS_ERRORS[ei]

    def fake_open(name, *a, **k):
        if isinstance(name, str) and name.startswith(mark):
            raise type(err_obj)(err_obj.errno, err_obj.strerror, name)
        return real_open(name, *a, **k)
    builtins.open = fake_open
    try:
        code, out, err = run_main(tool, argv, stdin_text='p cnf 1 1\n1 0\n' if tool == 'cnfshuffle' else '1\n1 : 0\n')
    finally:
        builtins.open = real_open
    if code == 0:
        return False                       # the file could not be used: there is no formula to deliver
    return classify(tool, argv, code, out, err)


def h_e_oserrors(ci: int, ei: int) -> bool:
    """
    pre: 0 <= ci <= 21 and 0 <= ei <= 4
    post: _
    """
    return untraced(_oserrors, pick(ci, 0, len(OS_CMDS) - 1), pick(ei, 0, 4))


# ------------------------------------------------ LaTeX documents around the page size
LATEX_CMDS = [('cnfgen', ['-of', 'latex', 'and', 20, 15]), ('cnfgen', ['-of', 'latex', 'and', 35, 35]), ('cnfgen', ['-l', 'and', 30, 5]),
              ('pbgen', ['-of', 'latex', 'and', 30, 5]), ('cnfgen', ['-of', 'latex', 'and', 36, 0]), ('cnfgen', ['-of', 'latex', 'and', 0, 0]),
              ('cnfgen', ['-of', 'latex', 'and', 34, 0]), ('cnfgen', ['-q', '-of', 'latex', 'and', 35, 0]), ('pbgen', ['-of', 'latex', 'php', 7, 5]),
              ('cnfgen', ['-of', 'latex', 'and', 35, 0, '-T', 'xor', 2]), ('cnfgen', ['-of', 'latex', 'php', 5, 4]), ('cnfgen', ['-of', 'latex', 'op', 5])]


def _latex_pages(ci):
    tool, argv = LATEX_CMDS[ci]
    code, out, err = run_main(tool, argv)
    return code == 0 and classify(tool, argv, code, out, err)


def h_e_latex_pages(ci: int) -> bool:
    """
    pre: 0 <= ci <= 11
    post: _
    """
    return untraced(_latex_pages, pick(ci, 0, 11))
