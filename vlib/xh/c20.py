"""CrossHair harnesses for C20: the SAT solver bridge with the process boundary replaced by a fake.

Stubs (all part of the claim): cnfgen.utils.solver.subprocess -> fake Popen whose behaviour is assembled from the
harness choices; cnfgen.utils.solver.tempfile / os / open -> an in-memory file system that records which
temporary files exist.  The fake solver READS what the bridge sent (stdin bytes or the named file) with a strict
DIMACS reader and answers garbage if it is not the formula.
"""
import io

from cnfgen.formula.cnf import CNF
import cnfgen.utils.solver as S
from vlib.xh.xutil import pick, pickb, untraced

STDIN_SOLVERS = ['cadical', 'kissat', 'lingeling', 'plingeling', 'precosat', 'picosat', 'cryptominisat']
NAMES = ['cadical', 'kissat', 'lingeling', 'plingeling', 'precosat', 'picosat', 'march', 'cryptominisat', 'minisat',
         'glucose', 'sat4j']

FORMULAS = [
    (0, []),                          # no variables, no clauses
    (0, [[]]),                        # no variables, empty clause
    (1, [[1]]),
    (2, [[1, -2]]),
    (3, [[1, 2], [-1, -2]]),          # variable 3 unused
    (3, [[1, 2, 3], [-1], [-2]]),
    (2, [[1], [-1]]),                 # unsatisfiable
    (3, []),                          # only unused variables
    (10, [[1, -10], [10, 2]]),        # two-digit variables: the answer mentions 10 / -10 (a literal ending in the digit 0)
    (20, [[20, -10], [5, -20]]),
    (11, [[-10, 11], [10, -11]]),
]


def strict_dimacs(text):
    """(n, clauses) or None"""
    lines = text.split('\n')
    if lines and lines[-1] == '':
        lines = lines[:-1]
    n = m = None
    clauses = []
    for ln in lines:
        if ln.startswith('c'):
            continue
        if ln.startswith('p '):
            if n is not None:
                return None
            parts = ln.split(' ')
            if len(parts) != 4 or parts[1] != 'cnf' or not parts[2].isdigit() or not parts[3].isdigit():
                return None
            n, m = int(parts[2]), int(parts[3])
            continue
        if n is None:
            return None
        toks = ln.split(' ')
        if toks and toks[-1] == '':
            return None
        if not toks or toks[-1] != '0':
            return None
        cl = []
        for t in toks[:-1]:
            body = t[1:] if t.startswith('-') else t
            if not body.isdigit() or int(body) == 0 or int(body) > n:
                return None
            cl.append(int(t))
        clauses.append(cl)
    if n is None or m != len(clauses):
        return None
    return n, clauses


class World:
    """in-memory file system + fake solver"""
    def __init__(self, n, clauses, installed, verdict, model, layout, comments, trailing_zero, fail_run, unsat_text):
        self.n, self.clauses = n, clauses
        self.installed = installed
        self.verdict, self.model, self.layout = verdict, model, layout
        self.comments, self.trailing_zero, self.fail_run = comments, trailing_zero, fail_run
        self.unsat_text = unsat_text
        self.files = {}
        self.created = []
        self.counter = 0
        self.convention = None
        self.saw_formula = None
        self.runs = 0
        self.early_exit = False

    # ---- tempfile / os / open
    def NamedTemporaryFile(self, delete=True, **kw):
        self.counter += 1
        # the temporary directory may have any legal name: a blank in it for the third answer layout
        name = ('/faketmp/scratch files/tmp%d' if self.layout == 2 else '/faketmp/tmp%d') % self.counter
        self.files[name] = b''
        self.created.append(name)
        return _TmpFile(self, name)

    def unlink(self, name):
        if name not in self.files:
            raise FileNotFoundError(name)
        del self.files[name]

    def open(self, name, mode='r', encoding=None):
        if 'r' in mode:
            if name not in self.files:
                raise FileNotFoundError(name)
            data = self.files[name]
            f = _NamedStringIO(data.decode('ascii'))
            f.name = name
            return f
        raise AssertionError('unexpected write through open()')

    # ---- the solver
    def answer_lines(self):
        lits = [(v if s else -v) for v, s in zip(range(1, self.n + 1), self.model)]
        toks = [str(l) for l in lits]
        if self.trailing_zero:
            toks.append('0')
        if self.layout == 0 or len(toks) <= 1:
            chunks = [toks]
        elif self.layout == 1:
            chunks = [toks[:1], toks[1:]]
        else:
            chunks = [toks[:1], toks[1:2], toks[2:]]
        return chunks

    def stdout_text(self):
        out = []
        if self.comments:
            out.append('c fake solver 1.0')
        if self.verdict == 0:
            out.append('s SATISFIABLE')
            for ch in self.answer_lines():
                if self.comments:
                    out.append('c progress')
                out.append(' '.join(['v'] + ch))
        elif self.verdict == 1:
            out.append('s UNSATISFIABLE')
        elif self.verdict == 2:
            pass                                # no answer at all
        else:
            out.append('s UNKNOWN')
        if self.comments:
            out.append('')
            out.append('c done')
        return ('\n'.join(out) + '\n').encode('ascii')

    def result_file_text(self):
        if self.verdict == 0:
            lits = [(v if s else -v) for v, s in zip(range(1, self.n + 1), self.model)]
            toks = [str(l) for l in lits] + (['0'] if self.trailing_zero else [])
            sep = '\n' if self.layout else ' '
            return ('SAT\n' + sep.join(toks) + '\n').encode('ascii')
        if self.verdict == 1:
            return b'UNSAT\n'
        if self.verdict == 2:
            return b''
        return b'INDET\n'


class _NamedStringIO(io.StringIO):
    name = None


class _TmpFile:
    def __init__(self, w, name):
        self.w, self.name = w, name

    def write(self, data):
        self.w.files[self.name] += data

    def close(self):
        pass


class _FakeSubprocess:
    PIPE = -1

    def __init__(self, w):
        self.w = w

    def Popen(self, args, stdin=None, stdout=None, stderr=None):
        w = self.w
        name = args[0]
        if list(args[1:]) == ['--help']:
            if name not in w.installed:
                raise OSError('not installed')
            return _Proc(w, None)
        if name not in w.installed or w.fail_run:
            raise OSError('cannot start')
        return _Proc(w, list(args))


class _PipeToSolver:
    """the solver's standard input as a pipe: what is written is collected; a solver that has already answered and left
    (it read an empty clause and needs no more) closes its end, and a writer that goes on past the pipe buffer gets
    BrokenPipeError - the model buffer is PIPE_BUFFER bytes"""
    PIPE_BUFFER = 64

    def __init__(self, proc):
        self.proc, self.data, self.closed = proc, b'', False

    def write(self, chunk):
        if isinstance(chunk, str):
            chunk = chunk.encode('ascii')
        self.data += chunk
        if self.proc.w.early_exit and len(self.data) > self.PIPE_BUFFER and b'\n0\n' in self.data[:self.PIPE_BUFFER]:
            raise BrokenPipeError(32, 'Broken pipe')
        return len(chunk)

    def flush(self):
        pass

    def close(self):
        self.closed = True

    def writable(self):
        return True

    def readable(self):
        return False

    def seekable(self):
        return False


class _PipeFromSolver:
    def __init__(self, proc):
        self.proc, self.done = proc, False

    def read(self, *a):
        if self.done:
            return b''
        self.done = True
        return self.proc.communicate(self.proc.stdin.data)[0]

    def close(self):
        pass


class _Proc:
    returncode = 0

    def __init__(self, w, args):
        self.w, self.args = w, args
        self.stdin = _PipeToSolver(self)
        self.stdout = _PipeFromSolver(self)
        self.stderr = None

    def wait(self, timeout=None):
        return 0

    def poll(self):
        return 0

    def kill(self):
        pass

    terminate = kill

    def __enter__(self):
        return self

    def __exit__(self, *a):
        return False

    def communicate(self, input=None):
        w = self.w
        if self.args is None:
            return (b'', b'')
        w.runs += 1
        files = [a for a in self.args[1:] if a.startswith('/faketmp/')]
        if len(files) == 0:
            w.convention = 'stdin'
            text = (input or b'').decode('ascii')
        else:
            w.convention = 'file%d' % len(files)
            text = w.files.get(files[0], b'').decode('ascii')
        parsed = strict_dimacs(text)
        w.saw_formula = parsed is not None and parsed[0] == w.n and parsed[1] == w.clauses
        if not w.saw_formula:
            return (b's GARBAGE\n', None)
        if len(files) == 2:
            if files[1] not in w.files:
                raise AssertionError('result file missing')
            w.files[files[1]] = w.result_file_text()
            return (b'c minisat-style solver\n', None)
        return (w.stdout_text(), None)


class _FakeOs:
    def __init__(self, w):
        self.unlink = w.unlink


class _FakeTempfile:
    def __init__(self, w):
        self.NamedTemporaryFile = w.NamedTemporaryFile


def _satisfies(clauses, model):
    for c in clauses:
        ok = False
        for l in c:
            if model[abs(l) - 1] == (l > 0):
                ok = True
        if not ok:
            return False
    return True


def _bridge(fidx, solver, sameas_kind, installed_bit, verdict, bits, layout, comments, trailing_zero, fail_run, api, auto=None):
    """One call of the real bridge in a fake world; True iff the outcome is the documented one."""
    n, clauses = FORMULAS[fidx]
    model = [bool(bits >> (i % 3) & 1) for i in range(n)]
    if verdict == 0 and not _satisfies(clauses, model):
        return True                      # a sound solver never emits a non-model: outside the contract
    if verdict == 1 and n > 3:
        return True                      # the larger formulas are satisfiable: UNSAT is not an answer a sound solver gives
    if verdict == 1 and n <= 3:
        # a sound solver says UNSAT only for unsatisfiable formulas
        for b in range(1 << n):
            if _satisfies(clauses, [bool(b >> i & 1) for i in range(n)]):
                return True
    # command line
    unknown = solver >= len(NAMES)
    name = 'mysolver' if unknown else NAMES[solver]
    cmd = name + (' -opt' if layout == 1 else '')
    sameas = None
    if sameas_kind == 1:
        sameas = 'minisat'
    elif sameas_kind == 2:
        sameas = 'lingeling'
    elif sameas_kind == 3:
        sameas = 'sat4j'
    elif sameas_kind == 4:
        sameas = 'nosuchsolver'
    installed = {name} if installed_bit else set()
    sameas_arg = sameas
    if auto is not None:
        # no command line given: the first installed supported solver (in the documented table order) is used
        installed = {NAMES[i] for i in range(len(NAMES)) if auto >> i & 1}
        cmd = None if layout != 1 else '  '
        sameas = None if sameas_kind != 4 else sameas
        first = [nm for nm in NAMES if nm in installed]
        name = first[0] if first else None
        unknown = False
        installed_bit = bool(first)
    w = World(n, [list(c) for c in clauses], installed, verdict, model, layout, comments, trailing_zero, fail_run, None)
    F = CNF([list(c) for c in clauses])
    F.update_variable_number(n)
    saved = (S.subprocess, S.tempfile, S.os, getattr(S, 'open', None))
    S.subprocess, S.tempfile, S.os, S.open = _FakeSubprocess(w), _FakeTempfile(w), _FakeOs(w), w.open
    try:
        exc = None
        res = None
        try:
            if api == 0:
                res = F.solve(cmd=cmd, sameas=sameas_arg)
            else:
                res = F.is_satisfiable(cmd=cmd, sameas=sameas_arg)
        except (RuntimeError, ValueError, TypeError) as e:
            exc = type(e).__name__
    finally:
        S.subprocess, S.tempfile, S.os = saved[0], saved[1], saved[2]
        if saved[3] is None:
            del S.open
        else:
            S.open = saved[3]
    if w.files:
        return False                                  # a temporary file was left behind
    # expected outcome
    if sameas_kind == 4:
        return exc == 'ValueError' and w.runs == 0
    if unknown and sameas is None:
        return exc == 'RuntimeError' and w.runs == 0
    if not installed_bit:
        return exc == 'RuntimeError' and w.runs == 0
    if fail_run:
        return exc == 'RuntimeError'
    if w.runs != 1 or not w.saw_formula:
        return False
    iface = sameas or name
    if iface == 'minisat' and w.convention != 'file2':
        return False
    if iface in STDIN_SOLVERS and w.convention != 'stdin':
        return False
    if verdict in (2, 3):
        return exc == 'RuntimeError'
    if exc is not None:
        return False
    if verdict == 1:
        return res == ((False, None) if api == 0 else False)
    want = [(v if s else -v) for v, s in zip(range(1, n + 1), model)]
    if api == 1:
        return res is True
    return res == (True, want)


def h_e_route(solver: int, sameas_kind: int, installed_bit: bool, fail_run: bool, api: int, verdict: int) -> bool:
    """
    pre: 0 <= solver <= 11 and 0 <= sameas_kind <= 4 and 0 <= api <= 1 and 0 <= verdict <= 1
    post: _
    """
    # which interface is used for which solver name / sameas, missing or failing solver, unknown names
    return untraced(_bridge, 3 if verdict == 0 else 6, pick(solver, 0, 11), pick(sameas_kind, 0, 4), pickb(installed_bit),
                    pick(verdict, 0, 1), 1, 0, False, True, pickb(fail_run), pick(api, 0, 1))


IFACE = [2, 8, 10]      # lingeling (stdin/stdout), minisat (file-in/file-out), sat4j (file-in/stdout)


def h_e_parse_0(iface: int, verdict: int, bits: int, layout: int, comments: bool, trailing_zero: bool, api: int) -> bool:
    """
    pre: 0 <= iface <= 2 and 0 <= verdict <= 3 and 0 <= bits <= 0 and 0 <= layout <= 2 and 0 <= api <= 1
    post: _
    """
    return untraced(_bridge, 0, IFACE[pick(iface, 0, 2)], 0, True, pick(verdict, 0, 3), pick(bits, 0, 0), pick(layout, 0, 2),
                    pickb(comments), pickb(trailing_zero), False, pick(api, 0, 1))


def h_e_parse_1(iface: int, verdict: int, bits: int, layout: int, comments: bool, trailing_zero: bool, api: int) -> bool:
    """
    pre: 0 <= iface <= 2 and 0 <= verdict <= 3 and 0 <= bits <= 0 and 0 <= layout <= 2 and 0 <= api <= 1
    post: _
    """
    return untraced(_bridge, 1, IFACE[pick(iface, 0, 2)], 0, True, pick(verdict, 0, 3), pick(bits, 0, 0), pick(layout, 0, 2),
                    pickb(comments), pickb(trailing_zero), False, pick(api, 0, 1))


def h_e_parse_2(iface: int, verdict: int, bits: int, layout: int, comments: bool, trailing_zero: bool, api: int) -> bool:
    """
    pre: 0 <= iface <= 2 and 0 <= verdict <= 3 and 0 <= bits <= 1 and 0 <= layout <= 2 and 0 <= api <= 1
    post: _
    """
    return untraced(_bridge, 2, IFACE[pick(iface, 0, 2)], 0, True, pick(verdict, 0, 3), pick(bits, 0, 1), pick(layout, 0, 2),
                    pickb(comments), pickb(trailing_zero), False, pick(api, 0, 1))


def h_e_parse_3(iface: int, verdict: int, bits: int, layout: int, comments: bool, trailing_zero: bool, api: int) -> bool:
    """
    pre: 0 <= iface <= 2 and 0 <= verdict <= 3 and 0 <= bits <= 3 and 0 <= layout <= 2 and 0 <= api <= 1
    post: _
    """
    return untraced(_bridge, 3, IFACE[pick(iface, 0, 2)], 0, True, pick(verdict, 0, 3), pick(bits, 0, 3), pick(layout, 0, 2),
                    pickb(comments), pickb(trailing_zero), False, pick(api, 0, 1))


def h_e_parse_4(iface: int, verdict: int, bits: int, layout: int, comments: bool, trailing_zero: bool, api: int) -> bool:
    """
    pre: 0 <= iface <= 2 and 0 <= verdict <= 3 and 0 <= bits <= 7 and 0 <= layout <= 2 and 0 <= api <= 1
    post: _
    """
    return untraced(_bridge, 4, IFACE[pick(iface, 0, 2)], 0, True, pick(verdict, 0, 3), pick(bits, 0, 7), pick(layout, 0, 2),
                    pickb(comments), pickb(trailing_zero), False, pick(api, 0, 1))


def h_e_parse_5(iface: int, verdict: int, bits: int, layout: int, comments: bool, trailing_zero: bool, api: int) -> bool:
    """
    pre: 0 <= iface <= 2 and 0 <= verdict <= 3 and 0 <= bits <= 7 and 0 <= layout <= 2 and 0 <= api <= 1
    post: _
    """
    return untraced(_bridge, 5, IFACE[pick(iface, 0, 2)], 0, True, pick(verdict, 0, 3), pick(bits, 0, 7), pick(layout, 0, 2),
                    pickb(comments), pickb(trailing_zero), False, pick(api, 0, 1))


def h_e_parse_6(iface: int, verdict: int, bits: int, layout: int, comments: bool, trailing_zero: bool, api: int) -> bool:
    """
    pre: 0 <= iface <= 2 and 0 <= verdict <= 3 and 0 <= bits <= 3 and 0 <= layout <= 2 and 0 <= api <= 1
    post: _
    """
    return untraced(_bridge, 6, IFACE[pick(iface, 0, 2)], 0, True, pick(verdict, 0, 3), pick(bits, 0, 3), pick(layout, 0, 2),
                    pickb(comments), pickb(trailing_zero), False, pick(api, 0, 1))


def h_e_parse_7(iface: int, verdict: int, bits: int, layout: int, comments: bool, trailing_zero: bool, api: int) -> bool:
    """
    pre: 0 <= iface <= 2 and 0 <= verdict <= 3 and 0 <= bits <= 7 and 0 <= layout <= 2 and 0 <= api <= 1
    post: _
    """
    return untraced(_bridge, 7, IFACE[pick(iface, 0, 2)], 0, True, pick(verdict, 0, 3), pick(bits, 0, 7), pick(layout, 0, 2),
                    pickb(comments), pickb(trailing_zero), False, pick(api, 0, 1))


def h_e_parse_8(iface: int, verdict: int, bits: int, layout: int, comments: bool, trailing_zero: bool, api: int) -> bool:
    """
    pre: 0 <= iface <= 2 and 0 <= verdict <= 3 and 0 <= bits <= 7 and 0 <= layout <= 2 and 0 <= api <= 1
    post: _
    """
    return untraced(_bridge, 8, IFACE[pick(iface, 0, 2)], 0, True, pick(verdict, 0, 3), pick(bits, 0, 7), pick(layout, 0, 2),
                    pickb(comments), pickb(trailing_zero), False, pick(api, 0, 1))


def h_e_parse_9(iface: int, verdict: int, bits: int, layout: int, comments: bool, trailing_zero: bool, api: int) -> bool:
    """
    pre: 0 <= iface <= 2 and 0 <= verdict <= 3 and 0 <= bits <= 7 and 0 <= layout <= 2 and 0 <= api <= 1
    post: _
    """
    return untraced(_bridge, 9, IFACE[pick(iface, 0, 2)], 0, True, pick(verdict, 0, 3), pick(bits, 0, 7), pick(layout, 0, 2),
                    pickb(comments), pickb(trailing_zero), False, pick(api, 0, 1))


def h_e_parse_10(iface: int, verdict: int, bits: int, layout: int, comments: bool, trailing_zero: bool, api: int) -> bool:
    """
    pre: 0 <= iface <= 2 and 0 <= verdict <= 3 and 0 <= bits <= 7 and 0 <= layout <= 2 and 0 <= api <= 1
    post: _
    """
    return untraced(_bridge, 10, IFACE[pick(iface, 0, 2)], 0, True, pick(verdict, 0, 3), pick(bits, 0, 7), pick(layout, 0, 2),
                    pickb(comments), pickb(trailing_zero), False, pick(api, 0, 1))


def _early_exit(solver_i, api, pad):
    """a stdin/stdout solver that answers UNSATISFIABLE as soon as it has read an empty clause and exits without reading the
    rest (the formula is longer than the pipe buffer of the model): the verdict is still reported"""
    n = 3
    clauses = [[1, 2], []] + [[1, -2, 3], [-1, 2], [3], [-3, 1]] * (2 + pad)
    name = STDIN_SOLVERS[solver_i]
    w = World(n, [list(c) for c in clauses], {name}, 1, [False] * n, 0, False, False, False, None)
    w.early_exit = True
    F = CNF([list(c) for c in clauses])
    F.update_variable_number(n)
    saved = (S.subprocess, S.tempfile, S.os, getattr(S, 'open', None))
    S.subprocess, S.tempfile, S.os, S.open = _FakeSubprocess(w), _FakeTempfile(w), _FakeOs(w), w.open
    try:
        try:
            res = F.solve(cmd=name) if api == 0 else F.is_satisfiable(cmd=name)
        except (RuntimeError, ValueError, TypeError):
            return False
    finally:
        S.subprocess, S.tempfile, S.os = saved[0], saved[1], saved[2]
        if saved[3] is None:
            del S.open
        else:
            S.open = saved[3]
    return res == ((False, None) if api == 0 else False) and not w.files


def h_e_early_exit(solver_i: int, api: int, pad: int) -> bool:
    """
    pre: 0 <= solver_i <= 6 and 0 <= api <= 1 and 0 <= pad <= 2
    post: _
    """
    return untraced(_early_exit, pick(solver_i, 0, 6), pick(api, 0, 1), pick(pad, 0, 2))


def _auto_set(first, more):
    if first >= 11:
        return 0
    a = 1 << first
    if more:
        for i in range(first + 1, 11):
            a |= 1 << i
    return a


def h_e_auto(first: int, more: bool, sameas_kind: int, verdict: int, layout: int, api: int) -> bool:
    """
    pre: 0 <= first <= 11 and 0 <= sameas_kind <= 4 and 0 <= verdict <= 1 and 0 <= layout <= 1 and 0 <= api <= 1
    post: _
    """
    # no command line: which of the installed solvers is used (first supported one that is installed; solvers
    # before it are missing, later ones all present or all absent) and through which convention
    v = pick(verdict, 0, 1)
    return untraced(_bridge, 3 if v == 0 else 6, 0, pick(sameas_kind, 0, 4), True, v, 1, pick(layout, 0, 1), False, True, False,
                    pick(api, 0, 1), _auto_set(pick(first, 0, 11), pickb(more)))


def _two_calls(s1, inst1, s2, inst2, auto1, auto2):
    """the set of installed solvers may change between two calls in one process: nothing is remembered"""
    # a caller that asks for the table of supported solvers and edits the list it got does not change the table
    listing = S.supported_satsolvers()
    keep = list(listing)
    if isinstance(listing, list):
        listing.sort(reverse=True)
        del listing[:4]
        listing.append('mysolver')
    if list(S.supported_satsolvers()) != keep:
        return False

    def one(solver, installed, auto):
        if auto:
            return _bridge(3, 0, 0, True, 0, 1, 0, False, True, False, 0, (1 << solver) if installed else 0)
        return _bridge(3, solver, 0, installed, 0, 1, 0, False, True, False, 0)
    return one(s1, inst1, auto1) and one(s2, inst2, auto2) and one(s1, not inst1, auto2)


def h_e_two_calls(s1: int, inst1: bool, s2: int, inst2: bool, auto1: bool, auto2: bool) -> bool:
    """
    pre: 0 <= s1 <= 10 and 0 <= s2 <= 10
    post: _
    """
    return untraced(_two_calls, pick(s1, 0, 10), pickb(inst1), pick(s2, 0, 10), pickb(inst2), pickb(auto1), pickb(auto2))


# --------------------------------------------------------------- symbolic variant
def h_s_stdin(s1: bool, s2: bool, s3: bool, verdict: int, layout: int, comments: bool, trailing_zero: bool) -> bool:
    """
    pre: 0 <= verdict <= 3 and 0 <= layout <= 2
    post: _
    """
    # the sign bits of the model, the verdict and the shape of the answer stay symbolic while the real
    # output parser runs (traced) on the text assembled from them
    bits = (1 if s1 else 0) + (2 if s2 else 0) + (4 if s3 else 0)
    return _bridge(4, 2, 0, True, verdict, bits, layout, comments, trailing_zero, False, 0)


def h_s_minisat(s1: bool, s2: bool, s3: bool, verdict: int, layout: int, trailing_zero: bool) -> bool:
    """
    pre: 0 <= verdict <= 3 and 0 <= layout <= 1
    post: _
    """
    bits = (1 if s1 else 0) + (2 if s2 else 0) + (4 if s3 else 0)
    return _bridge(4, 8, 0, True, verdict, bits, layout, False, trailing_zero, False, 0)
