"""CrossHair harnesses for C14: graph files round-trip in every supported format; bad files are rejected.

Mode: enumerative.  Graphs are given by solver-chosen edge bits, input texts are assembled from solver-chosen
menu lines; readers and writers run concretely (gml/dot go through networkx/pydot).  Independent strict
reference readers below define what a text means.
"""
import io

from cnfgen.graphs import Graph, DirectedGraph, BipartiteGraph, readGraph, writeGraph
from vlib.xh.xutil import pick, pickb, untraced

FORMATS = {'simple': ['kthlist', 'gml', 'dot', 'dimacs'], 'digraph': ['kthlist', 'gml', 'dot', 'dimacs'],
           'dag': ['kthlist', 'gml', 'dot', 'dimacs'], 'bipartite': ['kthlist', 'gml', 'dot', 'matrix']}


def _views(G, typ):
    if typ == 'bipartite':
        return (G.left_order(), G.right_order(), sorted(G.edges()))
    if typ == 'simple':
        return (G.number_of_vertices(), sorted((min(u, v), max(u, v)) for u, v in G.edges()))
    return (G.number_of_vertices(), sorted(G.edges()))


def _roundtrip(G, typ, fi):
    fmt = FORMATS[typ][fi]
    buf = io.StringIO()
    writeGraph(G, buf, typ, fmt)
    H = readGraph(io.StringIO(buf.getvalue()), typ, fmt)
    return _views(H, typ) == _views(G, typ)


def _simple(n, bits, fi, skeleton=None):
    G = Graph(n)
    P = skeleton or [(u, v) for u in range(1, n + 1) for v in range(u + 1, n + 1)]
    for i, b in enumerate(bits):
        if b:
            G.add_edge(*P[i])
    return _roundtrip(G, 'simple', fi)


def _directed(n, bits, fi, dag, skeleton=None):
    D = DirectedGraph(n)
    if skeleton:
        P = skeleton
    elif dag:
        P = [(u, v) for u in range(1, n + 1) for v in range(u + 1, n + 1)]
    else:
        P = [(u, v) for u in range(1, n + 1) for v in range(1, n + 1)]
    for i, b in enumerate(bits):
        if b:
            D.add_edge(*P[i])
    return _roundtrip(D, 'dag' if dag else 'digraph', fi)


def _bip(l, r, bits, fi, skeleton=None):
    B = BipartiteGraph(l, r)
    P = skeleton or [(u, v) for u in range(1, l + 1) for v in range(1, r + 1)]
    for i, b in enumerate(bits):
        if b:
            B.add_edge(*P[i])
    return _roundtrip(B, 'bipartite', fi)


def _complete_bip(l, r, fi):
    """the complete bipartite graph class (what the construction `complete L R` returns) keeps no edge list of its own:
    every writer must still write all L*R edges"""
    from cnfgen.graphs import CompleteBipartiteGraph
    B = CompleteBipartiteGraph(l, r)
    fmt = FORMATS['bipartite'][fi]
    buf = io.StringIO()
    writeGraph(B, buf, 'bipartite', fmt)
    H = readGraph(io.StringIO(buf.getvalue()), 'bipartite', fmt)
    return (H.left_order(), H.right_order(), sorted(H.edges())) == (l, r, [(u, v) for u in range(1, l + 1) for v in range(1, r + 1)])


def h_e_rt_complete_bip(l: int, r: int, fi: int) -> bool:
    """
    pre: 0 <= l <= 4 and 0 <= r <= 4 and 0 <= fi <= 3
    post: _
    """
    return untraced(_complete_bip, pick(l, 0, 4), pick(r, 0, 4), pick(fi, 0, 3))


COMMENTS = [[], ['c one comment'], ['c first', 'c second'], ['c e 1 2', 'c p edge 9 9', 'c 3'], ['c', 'c', 'c 1 : 2 0']]


def _read_write_read(src, ci, typ_i, fo):
    """a graph read from a file with comment lines (they become its name) can be written in any format and read back"""
    typ = ['simple', 'digraph', 'dag'][typ_i]
    cm = COMMENTS[ci]
    if src == 0:
        text = '\n'.join(cm + ['p edge 3 2', 'e 1 2', 'e 2 3']) + '\n'
        fmt_in = 'dimacs'
    else:
        text = '\n'.join(cm + ['3', '1 : 0', '2 : 1 0', '3 : 2 0']) + '\n'
        fmt_in = 'kthlist'
    G = readGraph(io.StringIO(text), typ, fmt_in)
    fmt = FORMATS[typ][fo]
    buf = io.StringIO()
    writeGraph(G, buf, typ, fmt)
    H = readGraph(io.StringIO(buf.getvalue()), typ, fmt)
    return _views(H, typ) == _views(G, typ) and G.number_of_vertices() == 3 and len(list(G.edges())) == 2


def h_e_read_write_read(src: int, ci: int, typ_i: int, fo: int) -> bool:
    """
    pre: 0 <= src <= 1 and 0 <= ci <= 4 and 0 <= typ_i <= 2 and 0 <= fo <= 3
    post: _
    """
    return untraced(_read_write_read, pick(src, 0, 1), pick(ci, 0, 4), pick(typ_i, 0, 2), pick(fo, 0, 3))


def _write_mutate_write(typ_i, bits, f1, f2, how):
    """the file describes the graph as it is when it is written: write, change the graph, write again, read back"""
    typ = ['simple', 'digraph', 'bipartite'][typ_i]
    if typ == 'simple':
        G = Graph(4)
        P = [(1, 2), (2, 3), (3, 4), (1, 4), (1, 3)]
    elif typ == 'digraph':
        G = DirectedGraph(4)
        P = [(1, 2), (2, 3), (3, 4), (4, 1), (3, 1)]
    else:
        G = BipartiteGraph(3, 3)
        P = [(1, 1), (2, 2), (3, 3), (1, 3), (2, 1)]
    for i, b in enumerate(bits):
        if b:
            G.add_edge(*P[i])
    writeGraph(G, io.StringIO(), typ, FORMATS[typ][f1])
    G.to_networkx()
    if how == 0:
        G.add_edge(*P[4])
    elif how == 1 and typ == 'simple':
        G.update_vertex_number(6)
    elif how == 2 and typ == 'simple':
        for e in list(G.edges())[:1]:
            G.remove_edge(*e)
    elif how == 3 and typ == 'simple':
        G.update_vertex_number(5)
        G.add_edge(2, 5)
        G.remove_edge(2, 5)
    else:
        G.add_edge(*P[3])
    return _roundtrip(G, typ, f2)


def h_e_write_mutate_write(typ_i: int, b1: bool, b2: bool, b3: bool, f1: int, f2: int, how: int) -> bool:
    """
    pre: 0 <= typ_i <= 2 and 0 <= f1 <= 3 and 0 <= f2 <= 3 and 0 <= how <= 3
    post: _
    """
    return untraced(_write_mutate_write, pick(typ_i, 0, 2), [pickb(b1), pickb(b2), pickb(b3)], pick(f1, 0, 3), pick(f2, 0, 3), pick(how, 0, 3))


# skeletons on 10-12 vertices (label sorting hazard "10" < "2")
SK_SIMPLE = [(1, 2), (2, 10), (10, 11), (3, 12), (9, 10), (1, 11), (2, 3), (11, 12)]
SK_DAG = [(1, 2), (2, 10), (10, 11), (3, 12), (9, 10), (1, 11), (2, 3), (11, 12)]
SK_BIP = [(1, 1), (1, 10), (2, 2), (2, 11), (3, 9), (3, 10), (1, 12), (2, 1)]


def h_e_rt_simple(n: int, b1: bool, b2: bool, b3: bool, b4: bool, b5: bool, b6: bool, fi: int) -> bool:
    """
    pre: 0 <= n <= 4 and 0 <= fi <= 3
    post: _
    """
    nn = pick(n, 0, 4)
    k = nn * (nn - 1) // 2
    bits = [pickb(b) for b in (b1, b2, b3, b4, b5, b6)[:k]]
    return untraced(_simple, nn, bits, pick(fi, 0, 3))


def h_e_rt_dag(n: int, b1: bool, b2: bool, b3: bool, b4: bool, b5: bool, b6: bool, fi: int) -> bool:
    """
    pre: 0 <= n <= 4 and 0 <= fi <= 3
    post: _
    """
    nn = pick(n, 0, 4)
    k = nn * (nn - 1) // 2
    bits = [pickb(b) for b in (b1, b2, b3, b4, b5, b6)[:k]]
    return untraced(_directed, nn, bits, pick(fi, 0, 3), True)


def h_e_rt_digraph(n: int, b1: bool, b2: bool, b3: bool, b4: bool, b5: bool, b6: bool, b7: bool, b8: bool, b9: bool, fi: int) -> bool:
    """
    pre: 0 <= n <= 3 and 0 <= fi <= 3
    post: _
    """
    nn = pick(n, 0, 3)
    bits = [pickb(b) for b in (b1, b2, b3, b4, b5, b6, b7, b8, b9)[:nn * nn]]
    return untraced(_directed, nn, bits, pick(fi, 0, 3), False)


def h_e_rt_bip(l: int, r: int, b1: bool, b2: bool, b3: bool, b4: bool, b5: bool, b6: bool, fi: int) -> bool:
    """
    pre: 0 <= l <= 3 and 0 <= r <= 3 and l * r <= 6 and 0 <= fi <= 3
    post: _
    """
    ll, rr = pick(l, 0, 3), pick(r, 0, 3)
    bits = [pickb(b) for b in (b1, b2, b3, b4, b5, b6)[:ll * rr]]
    return untraced(_bip, ll, rr, bits, pick(fi, 0, 3))


def h_e_rt_bip33(b1: bool, b2: bool, b3: bool, b4: bool, b5: bool, b6: bool, b7: bool, b8: bool, b9: bool, fi: int) -> bool:
    """
    pre: 0 <= fi <= 3
    post: _
    """
    bits = [pickb(b) for b in (b1, b2, b3, b4, b5, b6, b7, b8, b9)]
    return untraced(_bip, 3, 3, bits, pick(fi, 0, 3))


def h_e_rt_big_simple(n: int, b1: bool, b2: bool, b3: bool, b4: bool, b5: bool, b6: bool, b7: bool, b8: bool, fi: int) -> bool:
    """
    pre: 12 <= n <= 13 and 0 <= fi <= 3
    post: _
    """
    bits = [pickb(b) for b in (b1, b2, b3, b4, b5, b6, b7, b8)]
    nn = pick(n, 12, 13)
    f = pick(fi, 0, 3)
    return untraced(_simple, nn, bits, f, SK_SIMPLE)


def h_e_rt_big_dag(n: int, b1: bool, b2: bool, b3: bool, b4: bool, b5: bool, b6: bool, b7: bool, b8: bool, fi: int) -> bool:
    """
    pre: 12 <= n <= 13 and 0 <= fi <= 3
    post: _
    """
    bits = [pickb(b) for b in (b1, b2, b3, b4, b5, b6, b7, b8)]
    nn = pick(n, 12, 13)
    f = pick(fi, 0, 3)
    return untraced(_directed, nn, bits, f, True, SK_DAG)


def h_e_rt_big_digraph(n: int, b1: bool, b2: bool, b3: bool, b4: bool, b5: bool, b6: bool, b7: bool, b8: bool, fi: int) -> bool:
    """
    pre: 12 <= n <= 13 and 0 <= fi <= 3
    post: _
    """
    bits = [pickb(b) for b in (b1, b2, b3, b4, b5, b6, b7, b8)]
    nn = pick(n, 12, 13)
    f = pick(fi, 0, 3)
    return untraced(_directed, nn, bits + [True], f, False, SK_DAG + [(12, 3)])


def h_e_rt_big_bip(n: int, b1: bool, b2: bool, b3: bool, b4: bool, b5: bool, b6: bool, b7: bool, b8: bool, fi: int) -> bool:
    """
    pre: 12 <= n <= 13 and 0 <= fi <= 3
    post: _
    """
    bits = [pickb(b) for b in (b1, b2, b3, b4, b5, b6, b7, b8)]
    nn = pick(n, 12, 13)
    f = pick(fi, 0, 3)
    return untraced(_bip, 3, nn, bits, f, SK_BIP)


# ---------------------------------------------------------------- reference readers
def _ints(toks):
    out = []
    for t in toks:
        body = t[1:] if t[:1] == '-' else t
        if not (body.isdigit() and body.isascii()):
            return None
        out.append(int(t))
    return out


def ref_kthlist(text, typ):
    """(n, edges) for simple/digraph/dag, (L, R, edges) for bipartite; None = malformed"""
    size = None
    rows = []
    for raw in text.split('\n'):
        if raw[:1] == 'c':
            continue
        line = raw.strip()
        if line == '':
            continue
        if ':' not in line:
            v = _ints([line]) if len(line.split()) == 1 else None
            if v is None or v[0] < 0 or size is not None:
                return None
            size = v[0]
            continue
        if line.count(':') != 1 or size is None:
            return None
        left, right = line.split(':')
        lv = _ints(left.split())
        rv = _ints(right.split())
        if lv is None or rv is None or len(lv) != 1 or not rv or rv[-1] != 0:
            return None
        rv = rv[:-1]
        if not (1 <= lv[0] <= size) or any(not (1 <= x <= size) for x in rv):
            return None
        rows.append((lv[0], rv))
    if size is None:
        return None
    prev = 0
    for v, _ in rows:
        if v <= prev:
            return None
        prev = v
    if typ == 'bipartite':
        lefts = [v for v, _ in rows]
        rights = [x for _, rv in rows for x in rv]
        L = max(lefts) if lefts else 0
        if rights and min(rights) <= L:
            return None
        return (L, size - L, sorted({(v, x - L) for v, rv in rows for x in rv}))
    edges = set()
    for v, rv in rows:
        for p in rv:
            if typ == 'simple':
                if p == v:
                    return None
                edges.add((min(p, v), max(p, v)))
            else:
                if typ == 'dag' and p >= v:
                    return None
                edges.add((p, v))
    return (size, sorted(edges))


def ref_dimacs(text, typ):
    n = m = None
    edges = set()
    cnt = 0
    for raw in text.split('\n'):
        line = raw.strip()
        if line == '' or line[0] == 'c':
            continue
        t = line.split()
        if t[0] == 'p':
            if n is not None or len(t) != 4 or t[1] != 'edge':
                return None
            v = _ints(t[2:])
            if v is None or v[0] < 0:
                return None
            n, m = v
            continue
        if t[0] == 'e':
            if n is None or len(t) != 3:
                return None
            v = _ints(t[1:])
            if v is None or not (1 <= v[0] <= n and 1 <= v[1] <= n):
                return None
            cnt += 1
            if typ == 'simple':
                if v[0] == v[1]:
                    return None
                edges.add((min(v), max(v)))
            else:
                if typ == 'dag' and v[0] >= v[1]:
                    return None
                edges.add((v[0], v[1]))
            continue
        return 'unspecified'        # other line types: behaviour not specified, anything but a crash is accepted
    if n is None or m != cnt:
        return None
    return (n, sorted(edges))


def ref_matrix(text):
    nums = []
    for raw in text.split('\n'):
        t = raw.split()
        if not t or t[0][0] == '#':
            continue
        v = _ints(t)
        if v is None:
            return None
        nums.extend(v)
    if len(nums) < 2 or nums[0] < 0 or nums[1] < 0:
        return None
    L, R = nums[0], nums[1]
    body = nums[2:]
    if len(body) != L * R or any(x not in (0, 1) for x in body):
        return None
    return (L, R, sorted((i + 1, j + 1) for i in range(L) for j in range(R) if body[i * R + j] == 1))


KTH_MENU = ['', 'c a comment', '3', '2', '0', '1 : 0', '2 : 1 0', '3 : 1 2 0', '1 : 2 3 0', '2 : 3 0', '3 : 0', '2 : 2 0', '4 : 1 0',
            '2 : 5 0', '2 : 1', '2 : x 0', 'x', '3 : 2 0', '-1', '2 :']
DIM_MENU = ['', 'c a comment', 'p edge 3 2', 'p edge 3 1', 'p edge 0 0', 'e 1 2', 'e 2 3', 'e 3 1', 'e 2 2', 'e 1 4', 'e 1', 'e 1 x',
            'p edge 2', 'p cnf 3 1', 'p edge -1 0', 'e 2 1', 'p edge 3 0', 'e 1 2 3']
MAT_MENU = ['', '# comment', '2 2', '1 0', '0 1', '1 1', '2', '1 0 1 1', '0 2', 'x', '1 -1', '2 3', '0 0 1', '0 0', '1']


def _read_menu(fmt, typ, menu, idx, tn):
    text = '\n'.join(menu[i] for i in idx) + ('\n' if tn else '')
    if fmt == 'kthlist':
        want = ref_kthlist(text, typ)
    elif fmt == 'dimacs':
        want = ref_dimacs(text, typ)
    else:
        want = ref_matrix(text)
    try:
        G = readGraph(io.StringIO(text), typ, fmt)
    except ValueError:
        return want is None or want == 'unspecified'
    if want == 'unspecified':
        return True
    if want is None:
        return False
    return _views(G, typ) == want


TYPES = ['simple', 'digraph', 'dag', 'bipartite']


def _kth3(ti, a, b, c, ln, tn):
    return _read_menu('kthlist', TYPES[ti], KTH_MENU, [a, b, c][:ln], tn)


def _kth4(ti, a, b, c, d, tn):
    return _read_menu('kthlist', TYPES[ti], KTH_MENU, [a, b, c, d], tn)


def _dim3(ti, a, b, c, ln, tn):
    return _read_menu('dimacs', TYPES[ti], DIM_MENU, [a, b, c][:ln], tn)


def _dim4(ti, a, b, c, d, tn):
    return _read_menu('dimacs', TYPES[ti], DIM_MENU, [a, b, c, d], tn)


def _mat(a, b, c, d, ln, tn):
    return _read_menu('matrix', 'bipartite', MAT_MENU, [a, b, c, d][:ln], tn)


def h_e_kth3_0_0(a: int, b: int, c: int, tn: bool) -> bool:
    """
    pre: 0 <= a <= 4 and 0 <= b <= 19 and 0 <= c <= 19
    post: _
    """
    return untraced(_kth3, 0, 0 + pick(a, 0, 4), pick(b, 0, 19), pick(c, 0, 19), 3, pickb(tn))


def h_e_kth3_0_1(a: int, b: int, c: int, tn: bool) -> bool:
    """
    pre: 0 <= a <= 4 and 0 <= b <= 19 and 0 <= c <= 19
    post: _
    """
    return untraced(_kth3, 0, 5 + pick(a, 0, 4), pick(b, 0, 19), pick(c, 0, 19), 3, pickb(tn))


def h_e_kth3_0_2(a: int, b: int, c: int, tn: bool) -> bool:
    """
    pre: 0 <= a <= 4 and 0 <= b <= 19 and 0 <= c <= 19
    post: _
    """
    return untraced(_kth3, 0, 10 + pick(a, 0, 4), pick(b, 0, 19), pick(c, 0, 19), 3, pickb(tn))


def h_e_kth3_0_3(a: int, b: int, c: int, tn: bool) -> bool:
    """
    pre: 0 <= a <= 4 and 0 <= b <= 19 and 0 <= c <= 19
    post: _
    """
    return untraced(_kth3, 0, 15 + pick(a, 0, 4), pick(b, 0, 19), pick(c, 0, 19), 3, pickb(tn))


def h_e_kth4_0_0(b: int, c: int, d: int, tn: bool) -> bool:
    """
    pre: 0 <= b <= 19 and 0 <= c <= 19 and 0 <= d <= 19
    post: _
    """
    return untraced(_kth4, 0, 0, pick(b, 0, 19), pick(c, 0, 19), pick(d, 0, 19), pickb(tn))


def h_e_kth4_0_1(b: int, c: int, d: int, tn: bool) -> bool:
    """
    pre: 0 <= b <= 19 and 0 <= c <= 19 and 0 <= d <= 19
    post: _
    """
    return untraced(_kth4, 0, 1, pick(b, 0, 19), pick(c, 0, 19), pick(d, 0, 19), pickb(tn))


def h_e_kth4_0_2(b: int, c: int, d: int, tn: bool) -> bool:
    """
    pre: 0 <= b <= 19 and 0 <= c <= 19 and 0 <= d <= 19
    post: _
    """
    return untraced(_kth4, 0, 2, pick(b, 0, 19), pick(c, 0, 19), pick(d, 0, 19), pickb(tn))


def h_e_kth4_0_3(b: int, c: int, d: int, tn: bool) -> bool:
    """
    pre: 0 <= b <= 19 and 0 <= c <= 19 and 0 <= d <= 19
    post: _
    """
    return untraced(_kth4, 0, 3, pick(b, 0, 19), pick(c, 0, 19), pick(d, 0, 19), pickb(tn))


def h_e_kth4_0_4(b: int, c: int, d: int, tn: bool) -> bool:
    """
    pre: 0 <= b <= 19 and 0 <= c <= 19 and 0 <= d <= 19
    post: _
    """
    return untraced(_kth4, 0, 4, pick(b, 0, 19), pick(c, 0, 19), pick(d, 0, 19), pickb(tn))


def h_e_kth4_0_5(b: int, c: int, d: int, tn: bool) -> bool:
    """
    pre: 0 <= b <= 19 and 0 <= c <= 19 and 0 <= d <= 19
    post: _
    """
    return untraced(_kth4, 0, 5, pick(b, 0, 19), pick(c, 0, 19), pick(d, 0, 19), pickb(tn))


def h_e_kth4_0_6(b: int, c: int, d: int, tn: bool) -> bool:
    """
    pre: 0 <= b <= 19 and 0 <= c <= 19 and 0 <= d <= 19
    post: _
    """
    return untraced(_kth4, 0, 6, pick(b, 0, 19), pick(c, 0, 19), pick(d, 0, 19), pickb(tn))


def h_e_kth4_0_7(b: int, c: int, d: int, tn: bool) -> bool:
    """
    pre: 0 <= b <= 19 and 0 <= c <= 19 and 0 <= d <= 19
    post: _
    """
    return untraced(_kth4, 0, 7, pick(b, 0, 19), pick(c, 0, 19), pick(d, 0, 19), pickb(tn))


def h_e_kth4_0_8(b: int, c: int, d: int, tn: bool) -> bool:
    """
    pre: 0 <= b <= 19 and 0 <= c <= 19 and 0 <= d <= 19
    post: _
    """
    return untraced(_kth4, 0, 8, pick(b, 0, 19), pick(c, 0, 19), pick(d, 0, 19), pickb(tn))


def h_e_kth4_0_9(b: int, c: int, d: int, tn: bool) -> bool:
    """
    pre: 0 <= b <= 19 and 0 <= c <= 19 and 0 <= d <= 19
    post: _
    """
    return untraced(_kth4, 0, 9, pick(b, 0, 19), pick(c, 0, 19), pick(d, 0, 19), pickb(tn))


def h_e_kth4_0_10(b: int, c: int, d: int, tn: bool) -> bool:
    """
    pre: 0 <= b <= 19 and 0 <= c <= 19 and 0 <= d <= 19
    post: _
    """
    return untraced(_kth4, 0, 10, pick(b, 0, 19), pick(c, 0, 19), pick(d, 0, 19), pickb(tn))


def h_e_kth4_0_11(b: int, c: int, d: int, tn: bool) -> bool:
    """
    pre: 0 <= b <= 19 and 0 <= c <= 19 and 0 <= d <= 19
    post: _
    """
    return untraced(_kth4, 0, 11, pick(b, 0, 19), pick(c, 0, 19), pick(d, 0, 19), pickb(tn))


def h_e_kth4_0_12(b: int, c: int, d: int, tn: bool) -> bool:
    """
    pre: 0 <= b <= 19 and 0 <= c <= 19 and 0 <= d <= 19
    post: _
    """
    return untraced(_kth4, 0, 12, pick(b, 0, 19), pick(c, 0, 19), pick(d, 0, 19), pickb(tn))


def h_e_kth4_0_13(b: int, c: int, d: int, tn: bool) -> bool:
    """
    pre: 0 <= b <= 19 and 0 <= c <= 19 and 0 <= d <= 19
    post: _
    """
    return untraced(_kth4, 0, 13, pick(b, 0, 19), pick(c, 0, 19), pick(d, 0, 19), pickb(tn))


def h_e_kth4_0_14(b: int, c: int, d: int, tn: bool) -> bool:
    """
    pre: 0 <= b <= 19 and 0 <= c <= 19 and 0 <= d <= 19
    post: _
    """
    return untraced(_kth4, 0, 14, pick(b, 0, 19), pick(c, 0, 19), pick(d, 0, 19), pickb(tn))


def h_e_kth4_0_15(b: int, c: int, d: int, tn: bool) -> bool:
    """
    pre: 0 <= b <= 19 and 0 <= c <= 19 and 0 <= d <= 19
    post: _
    """
    return untraced(_kth4, 0, 15, pick(b, 0, 19), pick(c, 0, 19), pick(d, 0, 19), pickb(tn))


def h_e_kth4_0_16(b: int, c: int, d: int, tn: bool) -> bool:
    """
    pre: 0 <= b <= 19 and 0 <= c <= 19 and 0 <= d <= 19
    post: _
    """
    return untraced(_kth4, 0, 16, pick(b, 0, 19), pick(c, 0, 19), pick(d, 0, 19), pickb(tn))


def h_e_kth4_0_17(b: int, c: int, d: int, tn: bool) -> bool:
    """
    pre: 0 <= b <= 19 and 0 <= c <= 19 and 0 <= d <= 19
    post: _
    """
    return untraced(_kth4, 0, 17, pick(b, 0, 19), pick(c, 0, 19), pick(d, 0, 19), pickb(tn))


def h_e_kth4_0_18(b: int, c: int, d: int, tn: bool) -> bool:
    """
    pre: 0 <= b <= 19 and 0 <= c <= 19 and 0 <= d <= 19
    post: _
    """
    return untraced(_kth4, 0, 18, pick(b, 0, 19), pick(c, 0, 19), pick(d, 0, 19), pickb(tn))


def h_e_kth4_0_19(b: int, c: int, d: int, tn: bool) -> bool:
    """
    pre: 0 <= b <= 19 and 0 <= c <= 19 and 0 <= d <= 19
    post: _
    """
    return untraced(_kth4, 0, 19, pick(b, 0, 19), pick(c, 0, 19), pick(d, 0, 19), pickb(tn))


def h_e_kth3_1_0(a: int, b: int, c: int, tn: bool) -> bool:
    """
    pre: 0 <= a <= 4 and 0 <= b <= 19 and 0 <= c <= 19
    post: _
    """
    return untraced(_kth3, 1, 0 + pick(a, 0, 4), pick(b, 0, 19), pick(c, 0, 19), 3, pickb(tn))


def h_e_kth3_1_1(a: int, b: int, c: int, tn: bool) -> bool:
    """
    pre: 0 <= a <= 4 and 0 <= b <= 19 and 0 <= c <= 19
    post: _
    """
    return untraced(_kth3, 1, 5 + pick(a, 0, 4), pick(b, 0, 19), pick(c, 0, 19), 3, pickb(tn))


def h_e_kth3_1_2(a: int, b: int, c: int, tn: bool) -> bool:
    """
    pre: 0 <= a <= 4 and 0 <= b <= 19 and 0 <= c <= 19
    post: _
    """
    return untraced(_kth3, 1, 10 + pick(a, 0, 4), pick(b, 0, 19), pick(c, 0, 19), 3, pickb(tn))


def h_e_kth3_1_3(a: int, b: int, c: int, tn: bool) -> bool:
    """
    pre: 0 <= a <= 4 and 0 <= b <= 19 and 0 <= c <= 19
    post: _
    """
    return untraced(_kth3, 1, 15 + pick(a, 0, 4), pick(b, 0, 19), pick(c, 0, 19), 3, pickb(tn))


def h_e_kth4_1_0(b: int, c: int, d: int, tn: bool) -> bool:
    """
    pre: 0 <= b <= 19 and 0 <= c <= 19 and 0 <= d <= 19
    post: _
    """
    return untraced(_kth4, 1, 0, pick(b, 0, 19), pick(c, 0, 19), pick(d, 0, 19), pickb(tn))


def h_e_kth4_1_1(b: int, c: int, d: int, tn: bool) -> bool:
    """
    pre: 0 <= b <= 19 and 0 <= c <= 19 and 0 <= d <= 19
    post: _
    """
    return untraced(_kth4, 1, 1, pick(b, 0, 19), pick(c, 0, 19), pick(d, 0, 19), pickb(tn))


def h_e_kth4_1_2(b: int, c: int, d: int, tn: bool) -> bool:
    """
    pre: 0 <= b <= 19 and 0 <= c <= 19 and 0 <= d <= 19
    post: _
    """
    return untraced(_kth4, 1, 2, pick(b, 0, 19), pick(c, 0, 19), pick(d, 0, 19), pickb(tn))


def h_e_kth4_1_3(b: int, c: int, d: int, tn: bool) -> bool:
    """
    pre: 0 <= b <= 19 and 0 <= c <= 19 and 0 <= d <= 19
    post: _
    """
    return untraced(_kth4, 1, 3, pick(b, 0, 19), pick(c, 0, 19), pick(d, 0, 19), pickb(tn))


def h_e_kth4_1_4(b: int, c: int, d: int, tn: bool) -> bool:
    """
    pre: 0 <= b <= 19 and 0 <= c <= 19 and 0 <= d <= 19
    post: _
    """
    return untraced(_kth4, 1, 4, pick(b, 0, 19), pick(c, 0, 19), pick(d, 0, 19), pickb(tn))


def h_e_kth4_1_5(b: int, c: int, d: int, tn: bool) -> bool:
    """
    pre: 0 <= b <= 19 and 0 <= c <= 19 and 0 <= d <= 19
    post: _
    """
    return untraced(_kth4, 1, 5, pick(b, 0, 19), pick(c, 0, 19), pick(d, 0, 19), pickb(tn))


def h_e_kth4_1_6(b: int, c: int, d: int, tn: bool) -> bool:
    """
    pre: 0 <= b <= 19 and 0 <= c <= 19 and 0 <= d <= 19
    post: _
    """
    return untraced(_kth4, 1, 6, pick(b, 0, 19), pick(c, 0, 19), pick(d, 0, 19), pickb(tn))


def h_e_kth4_1_7(b: int, c: int, d: int, tn: bool) -> bool:
    """
    pre: 0 <= b <= 19 and 0 <= c <= 19 and 0 <= d <= 19
    post: _
    """
    return untraced(_kth4, 1, 7, pick(b, 0, 19), pick(c, 0, 19), pick(d, 0, 19), pickb(tn))


def h_e_kth4_1_8(b: int, c: int, d: int, tn: bool) -> bool:
    """
    pre: 0 <= b <= 19 and 0 <= c <= 19 and 0 <= d <= 19
    post: _
    """
    return untraced(_kth4, 1, 8, pick(b, 0, 19), pick(c, 0, 19), pick(d, 0, 19), pickb(tn))


def h_e_kth4_1_9(b: int, c: int, d: int, tn: bool) -> bool:
    """
    pre: 0 <= b <= 19 and 0 <= c <= 19 and 0 <= d <= 19
    post: _
    """
    return untraced(_kth4, 1, 9, pick(b, 0, 19), pick(c, 0, 19), pick(d, 0, 19), pickb(tn))


def h_e_kth4_1_10(b: int, c: int, d: int, tn: bool) -> bool:
    """
    pre: 0 <= b <= 19 and 0 <= c <= 19 and 0 <= d <= 19
    post: _
    """
    return untraced(_kth4, 1, 10, pick(b, 0, 19), pick(c, 0, 19), pick(d, 0, 19), pickb(tn))


def h_e_kth4_1_11(b: int, c: int, d: int, tn: bool) -> bool:
    """
    pre: 0 <= b <= 19 and 0 <= c <= 19 and 0 <= d <= 19
    post: _
    """
    return untraced(_kth4, 1, 11, pick(b, 0, 19), pick(c, 0, 19), pick(d, 0, 19), pickb(tn))


def h_e_kth4_1_12(b: int, c: int, d: int, tn: bool) -> bool:
    """
    pre: 0 <= b <= 19 and 0 <= c <= 19 and 0 <= d <= 19
    post: _
    """
    return untraced(_kth4, 1, 12, pick(b, 0, 19), pick(c, 0, 19), pick(d, 0, 19), pickb(tn))


def h_e_kth4_1_13(b: int, c: int, d: int, tn: bool) -> bool:
    """
    pre: 0 <= b <= 19 and 0 <= c <= 19 and 0 <= d <= 19
    post: _
    """
    return untraced(_kth4, 1, 13, pick(b, 0, 19), pick(c, 0, 19), pick(d, 0, 19), pickb(tn))


def h_e_kth4_1_14(b: int, c: int, d: int, tn: bool) -> bool:
    """
    pre: 0 <= b <= 19 and 0 <= c <= 19 and 0 <= d <= 19
    post: _
    """
    return untraced(_kth4, 1, 14, pick(b, 0, 19), pick(c, 0, 19), pick(d, 0, 19), pickb(tn))


def h_e_kth4_1_15(b: int, c: int, d: int, tn: bool) -> bool:
    """
    pre: 0 <= b <= 19 and 0 <= c <= 19 and 0 <= d <= 19
    post: _
    """
    return untraced(_kth4, 1, 15, pick(b, 0, 19), pick(c, 0, 19), pick(d, 0, 19), pickb(tn))


def h_e_kth4_1_16(b: int, c: int, d: int, tn: bool) -> bool:
    """
    pre: 0 <= b <= 19 and 0 <= c <= 19 and 0 <= d <= 19
    post: _
    """
    return untraced(_kth4, 1, 16, pick(b, 0, 19), pick(c, 0, 19), pick(d, 0, 19), pickb(tn))


def h_e_kth4_1_17(b: int, c: int, d: int, tn: bool) -> bool:
    """
    pre: 0 <= b <= 19 and 0 <= c <= 19 and 0 <= d <= 19
    post: _
    """
    return untraced(_kth4, 1, 17, pick(b, 0, 19), pick(c, 0, 19), pick(d, 0, 19), pickb(tn))


def h_e_kth4_1_18(b: int, c: int, d: int, tn: bool) -> bool:
    """
    pre: 0 <= b <= 19 and 0 <= c <= 19 and 0 <= d <= 19
    post: _
    """
    return untraced(_kth4, 1, 18, pick(b, 0, 19), pick(c, 0, 19), pick(d, 0, 19), pickb(tn))


def h_e_kth4_1_19(b: int, c: int, d: int, tn: bool) -> bool:
    """
    pre: 0 <= b <= 19 and 0 <= c <= 19 and 0 <= d <= 19
    post: _
    """
    return untraced(_kth4, 1, 19, pick(b, 0, 19), pick(c, 0, 19), pick(d, 0, 19), pickb(tn))


def h_e_kth3_2_0(a: int, b: int, c: int, tn: bool) -> bool:
    """
    pre: 0 <= a <= 4 and 0 <= b <= 19 and 0 <= c <= 19
    post: _
    """
    return untraced(_kth3, 2, 0 + pick(a, 0, 4), pick(b, 0, 19), pick(c, 0, 19), 3, pickb(tn))


def h_e_kth3_2_1(a: int, b: int, c: int, tn: bool) -> bool:
    """
    pre: 0 <= a <= 4 and 0 <= b <= 19 and 0 <= c <= 19
    post: _
    """
    return untraced(_kth3, 2, 5 + pick(a, 0, 4), pick(b, 0, 19), pick(c, 0, 19), 3, pickb(tn))


def h_e_kth3_2_2(a: int, b: int, c: int, tn: bool) -> bool:
    """
    pre: 0 <= a <= 4 and 0 <= b <= 19 and 0 <= c <= 19
    post: _
    """
    return untraced(_kth3, 2, 10 + pick(a, 0, 4), pick(b, 0, 19), pick(c, 0, 19), 3, pickb(tn))


def h_e_kth3_2_3(a: int, b: int, c: int, tn: bool) -> bool:
    """
    pre: 0 <= a <= 4 and 0 <= b <= 19 and 0 <= c <= 19
    post: _
    """
    return untraced(_kth3, 2, 15 + pick(a, 0, 4), pick(b, 0, 19), pick(c, 0, 19), 3, pickb(tn))


def h_e_kth4_2_0(b: int, c: int, d: int, tn: bool) -> bool:
    """
    pre: 0 <= b <= 19 and 0 <= c <= 19 and 0 <= d <= 19
    post: _
    """
    return untraced(_kth4, 2, 0, pick(b, 0, 19), pick(c, 0, 19), pick(d, 0, 19), pickb(tn))


def h_e_kth4_2_1(b: int, c: int, d: int, tn: bool) -> bool:
    """
    pre: 0 <= b <= 19 and 0 <= c <= 19 and 0 <= d <= 19
    post: _
    """
    return untraced(_kth4, 2, 1, pick(b, 0, 19), pick(c, 0, 19), pick(d, 0, 19), pickb(tn))


def h_e_kth4_2_2(b: int, c: int, d: int, tn: bool) -> bool:
    """
    pre: 0 <= b <= 19 and 0 <= c <= 19 and 0 <= d <= 19
    post: _
    """
    return untraced(_kth4, 2, 2, pick(b, 0, 19), pick(c, 0, 19), pick(d, 0, 19), pickb(tn))


def h_e_kth4_2_3(b: int, c: int, d: int, tn: bool) -> bool:
    """
    pre: 0 <= b <= 19 and 0 <= c <= 19 and 0 <= d <= 19
    post: _
    """
    return untraced(_kth4, 2, 3, pick(b, 0, 19), pick(c, 0, 19), pick(d, 0, 19), pickb(tn))


def h_e_kth4_2_4(b: int, c: int, d: int, tn: bool) -> bool:
    """
    pre: 0 <= b <= 19 and 0 <= c <= 19 and 0 <= d <= 19
    post: _
    """
    return untraced(_kth4, 2, 4, pick(b, 0, 19), pick(c, 0, 19), pick(d, 0, 19), pickb(tn))


def h_e_kth4_2_5(b: int, c: int, d: int, tn: bool) -> bool:
    """
    pre: 0 <= b <= 19 and 0 <= c <= 19 and 0 <= d <= 19
    post: _
    """
    return untraced(_kth4, 2, 5, pick(b, 0, 19), pick(c, 0, 19), pick(d, 0, 19), pickb(tn))


def h_e_kth4_2_6(b: int, c: int, d: int, tn: bool) -> bool:
    """
    pre: 0 <= b <= 19 and 0 <= c <= 19 and 0 <= d <= 19
    post: _
    """
    return untraced(_kth4, 2, 6, pick(b, 0, 19), pick(c, 0, 19), pick(d, 0, 19), pickb(tn))


def h_e_kth4_2_7(b: int, c: int, d: int, tn: bool) -> bool:
    """
    pre: 0 <= b <= 19 and 0 <= c <= 19 and 0 <= d <= 19
    post: _
    """
    return untraced(_kth4, 2, 7, pick(b, 0, 19), pick(c, 0, 19), pick(d, 0, 19), pickb(tn))


def h_e_kth4_2_8(b: int, c: int, d: int, tn: bool) -> bool:
    """
    pre: 0 <= b <= 19 and 0 <= c <= 19 and 0 <= d <= 19
    post: _
    """
    return untraced(_kth4, 2, 8, pick(b, 0, 19), pick(c, 0, 19), pick(d, 0, 19), pickb(tn))


def h_e_kth4_2_9(b: int, c: int, d: int, tn: bool) -> bool:
    """
    pre: 0 <= b <= 19 and 0 <= c <= 19 and 0 <= d <= 19
    post: _
    """
    return untraced(_kth4, 2, 9, pick(b, 0, 19), pick(c, 0, 19), pick(d, 0, 19), pickb(tn))


def h_e_kth4_2_10(b: int, c: int, d: int, tn: bool) -> bool:
    """
    pre: 0 <= b <= 19 and 0 <= c <= 19 and 0 <= d <= 19
    post: _
    """
    return untraced(_kth4, 2, 10, pick(b, 0, 19), pick(c, 0, 19), pick(d, 0, 19), pickb(tn))


def h_e_kth4_2_11(b: int, c: int, d: int, tn: bool) -> bool:
    """
    pre: 0 <= b <= 19 and 0 <= c <= 19 and 0 <= d <= 19
    post: _
    """
    return untraced(_kth4, 2, 11, pick(b, 0, 19), pick(c, 0, 19), pick(d, 0, 19), pickb(tn))


def h_e_kth4_2_12(b: int, c: int, d: int, tn: bool) -> bool:
    """
    pre: 0 <= b <= 19 and 0 <= c <= 19 and 0 <= d <= 19
    post: _
    """
    return untraced(_kth4, 2, 12, pick(b, 0, 19), pick(c, 0, 19), pick(d, 0, 19), pickb(tn))


def h_e_kth4_2_13(b: int, c: int, d: int, tn: bool) -> bool:
    """
    pre: 0 <= b <= 19 and 0 <= c <= 19 and 0 <= d <= 19
    post: _
    """
    return untraced(_kth4, 2, 13, pick(b, 0, 19), pick(c, 0, 19), pick(d, 0, 19), pickb(tn))


def h_e_kth4_2_14(b: int, c: int, d: int, tn: bool) -> bool:
    """
    pre: 0 <= b <= 19 and 0 <= c <= 19 and 0 <= d <= 19
    post: _
    """
    return untraced(_kth4, 2, 14, pick(b, 0, 19), pick(c, 0, 19), pick(d, 0, 19), pickb(tn))


def h_e_kth4_2_15(b: int, c: int, d: int, tn: bool) -> bool:
    """
    pre: 0 <= b <= 19 and 0 <= c <= 19 and 0 <= d <= 19
    post: _
    """
    return untraced(_kth4, 2, 15, pick(b, 0, 19), pick(c, 0, 19), pick(d, 0, 19), pickb(tn))


def h_e_kth4_2_16(b: int, c: int, d: int, tn: bool) -> bool:
    """
    pre: 0 <= b <= 19 and 0 <= c <= 19 and 0 <= d <= 19
    post: _
    """
    return untraced(_kth4, 2, 16, pick(b, 0, 19), pick(c, 0, 19), pick(d, 0, 19), pickb(tn))


def h_e_kth4_2_17(b: int, c: int, d: int, tn: bool) -> bool:
    """
    pre: 0 <= b <= 19 and 0 <= c <= 19 and 0 <= d <= 19
    post: _
    """
    return untraced(_kth4, 2, 17, pick(b, 0, 19), pick(c, 0, 19), pick(d, 0, 19), pickb(tn))


def h_e_kth4_2_18(b: int, c: int, d: int, tn: bool) -> bool:
    """
    pre: 0 <= b <= 19 and 0 <= c <= 19 and 0 <= d <= 19
    post: _
    """
    return untraced(_kth4, 2, 18, pick(b, 0, 19), pick(c, 0, 19), pick(d, 0, 19), pickb(tn))


def h_e_kth4_2_19(b: int, c: int, d: int, tn: bool) -> bool:
    """
    pre: 0 <= b <= 19 and 0 <= c <= 19 and 0 <= d <= 19
    post: _
    """
    return untraced(_kth4, 2, 19, pick(b, 0, 19), pick(c, 0, 19), pick(d, 0, 19), pickb(tn))


def h_e_kth3_3_0(a: int, b: int, c: int, tn: bool) -> bool:
    """
    pre: 0 <= a <= 4 and 0 <= b <= 19 and 0 <= c <= 19
    post: _
    """
    return untraced(_kth3, 3, 0 + pick(a, 0, 4), pick(b, 0, 19), pick(c, 0, 19), 3, pickb(tn))


def h_e_kth3_3_1(a: int, b: int, c: int, tn: bool) -> bool:
    """
    pre: 0 <= a <= 4 and 0 <= b <= 19 and 0 <= c <= 19
    post: _
    """
    return untraced(_kth3, 3, 5 + pick(a, 0, 4), pick(b, 0, 19), pick(c, 0, 19), 3, pickb(tn))


def h_e_kth3_3_2(a: int, b: int, c: int, tn: bool) -> bool:
    """
    pre: 0 <= a <= 4 and 0 <= b <= 19 and 0 <= c <= 19
    post: _
    """
    return untraced(_kth3, 3, 10 + pick(a, 0, 4), pick(b, 0, 19), pick(c, 0, 19), 3, pickb(tn))


def h_e_kth3_3_3(a: int, b: int, c: int, tn: bool) -> bool:
    """
    pre: 0 <= a <= 4 and 0 <= b <= 19 and 0 <= c <= 19
    post: _
    """
    return untraced(_kth3, 3, 15 + pick(a, 0, 4), pick(b, 0, 19), pick(c, 0, 19), 3, pickb(tn))


def h_e_kth4_3_0(b: int, c: int, d: int, tn: bool) -> bool:
    """
    pre: 0 <= b <= 19 and 0 <= c <= 19 and 0 <= d <= 19
    post: _
    """
    return untraced(_kth4, 3, 0, pick(b, 0, 19), pick(c, 0, 19), pick(d, 0, 19), pickb(tn))


def h_e_kth4_3_1(b: int, c: int, d: int, tn: bool) -> bool:
    """
    pre: 0 <= b <= 19 and 0 <= c <= 19 and 0 <= d <= 19
    post: _
    """
    return untraced(_kth4, 3, 1, pick(b, 0, 19), pick(c, 0, 19), pick(d, 0, 19), pickb(tn))


def h_e_kth4_3_2(b: int, c: int, d: int, tn: bool) -> bool:
    """
    pre: 0 <= b <= 19 and 0 <= c <= 19 and 0 <= d <= 19
    post: _
    """
    return untraced(_kth4, 3, 2, pick(b, 0, 19), pick(c, 0, 19), pick(d, 0, 19), pickb(tn))


def h_e_kth4_3_3(b: int, c: int, d: int, tn: bool) -> bool:
    """
    pre: 0 <= b <= 19 and 0 <= c <= 19 and 0 <= d <= 19
    post: _
    """
    return untraced(_kth4, 3, 3, pick(b, 0, 19), pick(c, 0, 19), pick(d, 0, 19), pickb(tn))


def h_e_kth4_3_4(b: int, c: int, d: int, tn: bool) -> bool:
    """
    pre: 0 <= b <= 19 and 0 <= c <= 19 and 0 <= d <= 19
    post: _
    """
    return untraced(_kth4, 3, 4, pick(b, 0, 19), pick(c, 0, 19), pick(d, 0, 19), pickb(tn))


def h_e_kth4_3_5(b: int, c: int, d: int, tn: bool) -> bool:
    """
    pre: 0 <= b <= 19 and 0 <= c <= 19 and 0 <= d <= 19
    post: _
    """
    return untraced(_kth4, 3, 5, pick(b, 0, 19), pick(c, 0, 19), pick(d, 0, 19), pickb(tn))


def h_e_kth4_3_6(b: int, c: int, d: int, tn: bool) -> bool:
    """
    pre: 0 <= b <= 19 and 0 <= c <= 19 and 0 <= d <= 19
    post: _
    """
    return untraced(_kth4, 3, 6, pick(b, 0, 19), pick(c, 0, 19), pick(d, 0, 19), pickb(tn))


def h_e_kth4_3_7(b: int, c: int, d: int, tn: bool) -> bool:
    """
    pre: 0 <= b <= 19 and 0 <= c <= 19 and 0 <= d <= 19
    post: _
    """
    return untraced(_kth4, 3, 7, pick(b, 0, 19), pick(c, 0, 19), pick(d, 0, 19), pickb(tn))


def h_e_kth4_3_8(b: int, c: int, d: int, tn: bool) -> bool:
    """
    pre: 0 <= b <= 19 and 0 <= c <= 19 and 0 <= d <= 19
    post: _
    """
    return untraced(_kth4, 3, 8, pick(b, 0, 19), pick(c, 0, 19), pick(d, 0, 19), pickb(tn))


def h_e_kth4_3_9(b: int, c: int, d: int, tn: bool) -> bool:
    """
    pre: 0 <= b <= 19 and 0 <= c <= 19 and 0 <= d <= 19
    post: _
    """
    return untraced(_kth4, 3, 9, pick(b, 0, 19), pick(c, 0, 19), pick(d, 0, 19), pickb(tn))


def h_e_kth4_3_10(b: int, c: int, d: int, tn: bool) -> bool:
    """
    pre: 0 <= b <= 19 and 0 <= c <= 19 and 0 <= d <= 19
    post: _
    """
    return untraced(_kth4, 3, 10, pick(b, 0, 19), pick(c, 0, 19), pick(d, 0, 19), pickb(tn))


def h_e_kth4_3_11(b: int, c: int, d: int, tn: bool) -> bool:
    """
    pre: 0 <= b <= 19 and 0 <= c <= 19 and 0 <= d <= 19
    post: _
    """
    return untraced(_kth4, 3, 11, pick(b, 0, 19), pick(c, 0, 19), pick(d, 0, 19), pickb(tn))


def h_e_kth4_3_12(b: int, c: int, d: int, tn: bool) -> bool:
    """
    pre: 0 <= b <= 19 and 0 <= c <= 19 and 0 <= d <= 19
    post: _
    """
    return untraced(_kth4, 3, 12, pick(b, 0, 19), pick(c, 0, 19), pick(d, 0, 19), pickb(tn))


def h_e_kth4_3_13(b: int, c: int, d: int, tn: bool) -> bool:
    """
    pre: 0 <= b <= 19 and 0 <= c <= 19 and 0 <= d <= 19
    post: _
    """
    return untraced(_kth4, 3, 13, pick(b, 0, 19), pick(c, 0, 19), pick(d, 0, 19), pickb(tn))


def h_e_kth4_3_14(b: int, c: int, d: int, tn: bool) -> bool:
    """
    pre: 0 <= b <= 19 and 0 <= c <= 19 and 0 <= d <= 19
    post: _
    """
    return untraced(_kth4, 3, 14, pick(b, 0, 19), pick(c, 0, 19), pick(d, 0, 19), pickb(tn))


def h_e_kth4_3_15(b: int, c: int, d: int, tn: bool) -> bool:
    """
    pre: 0 <= b <= 19 and 0 <= c <= 19 and 0 <= d <= 19
    post: _
    """
    return untraced(_kth4, 3, 15, pick(b, 0, 19), pick(c, 0, 19), pick(d, 0, 19), pickb(tn))


def h_e_kth4_3_16(b: int, c: int, d: int, tn: bool) -> bool:
    """
    pre: 0 <= b <= 19 and 0 <= c <= 19 and 0 <= d <= 19
    post: _
    """
    return untraced(_kth4, 3, 16, pick(b, 0, 19), pick(c, 0, 19), pick(d, 0, 19), pickb(tn))


def h_e_kth4_3_17(b: int, c: int, d: int, tn: bool) -> bool:
    """
    pre: 0 <= b <= 19 and 0 <= c <= 19 and 0 <= d <= 19
    post: _
    """
    return untraced(_kth4, 3, 17, pick(b, 0, 19), pick(c, 0, 19), pick(d, 0, 19), pickb(tn))


def h_e_kth4_3_18(b: int, c: int, d: int, tn: bool) -> bool:
    """
    pre: 0 <= b <= 19 and 0 <= c <= 19 and 0 <= d <= 19
    post: _
    """
    return untraced(_kth4, 3, 18, pick(b, 0, 19), pick(c, 0, 19), pick(d, 0, 19), pickb(tn))


def h_e_kth4_3_19(b: int, c: int, d: int, tn: bool) -> bool:
    """
    pre: 0 <= b <= 19 and 0 <= c <= 19 and 0 <= d <= 19
    post: _
    """
    return untraced(_kth4, 3, 19, pick(b, 0, 19), pick(c, 0, 19), pick(d, 0, 19), pickb(tn))


def h_e_dim3_0_0(a: int, b: int, c: int, tn: bool) -> bool:
    """
    pre: 0 <= a <= 5 and 0 <= b <= 17 and 0 <= c <= 17
    post: _
    """
    return untraced(_dim3, 0, 0 + pick(a, 0, 5), pick(b, 0, 17), pick(c, 0, 17), 3, pickb(tn))


def h_e_dim3_0_1(a: int, b: int, c: int, tn: bool) -> bool:
    """
    pre: 0 <= a <= 5 and 0 <= b <= 17 and 0 <= c <= 17
    post: _
    """
    return untraced(_dim3, 0, 6 + pick(a, 0, 5), pick(b, 0, 17), pick(c, 0, 17), 3, pickb(tn))


def h_e_dim3_0_2(a: int, b: int, c: int, tn: bool) -> bool:
    """
    pre: 0 <= a <= 5 and 0 <= b <= 17 and 0 <= c <= 17
    post: _
    """
    return untraced(_dim3, 0, 12 + pick(a, 0, 5), pick(b, 0, 17), pick(c, 0, 17), 3, pickb(tn))


def h_e_dim4_0_0(b: int, c: int, d: int, tn: bool) -> bool:
    """
    pre: 0 <= b <= 17 and 0 <= c <= 17 and 0 <= d <= 17
    post: _
    """
    return untraced(_dim4, 0, 0, pick(b, 0, 17), pick(c, 0, 17), pick(d, 0, 17), pickb(tn))


def h_e_dim4_0_1(b: int, c: int, d: int, tn: bool) -> bool:
    """
    pre: 0 <= b <= 17 and 0 <= c <= 17 and 0 <= d <= 17
    post: _
    """
    return untraced(_dim4, 0, 1, pick(b, 0, 17), pick(c, 0, 17), pick(d, 0, 17), pickb(tn))


def h_e_dim4_0_2(b: int, c: int, d: int, tn: bool) -> bool:
    """
    pre: 0 <= b <= 17 and 0 <= c <= 17 and 0 <= d <= 17
    post: _
    """
    return untraced(_dim4, 0, 2, pick(b, 0, 17), pick(c, 0, 17), pick(d, 0, 17), pickb(tn))


def h_e_dim4_0_3(b: int, c: int, d: int, tn: bool) -> bool:
    """
    pre: 0 <= b <= 17 and 0 <= c <= 17 and 0 <= d <= 17
    post: _
    """
    return untraced(_dim4, 0, 3, pick(b, 0, 17), pick(c, 0, 17), pick(d, 0, 17), pickb(tn))


def h_e_dim4_0_4(b: int, c: int, d: int, tn: bool) -> bool:
    """
    pre: 0 <= b <= 17 and 0 <= c <= 17 and 0 <= d <= 17
    post: _
    """
    return untraced(_dim4, 0, 4, pick(b, 0, 17), pick(c, 0, 17), pick(d, 0, 17), pickb(tn))


def h_e_dim4_0_5(b: int, c: int, d: int, tn: bool) -> bool:
    """
    pre: 0 <= b <= 17 and 0 <= c <= 17 and 0 <= d <= 17
    post: _
    """
    return untraced(_dim4, 0, 5, pick(b, 0, 17), pick(c, 0, 17), pick(d, 0, 17), pickb(tn))


def h_e_dim4_0_6(b: int, c: int, d: int, tn: bool) -> bool:
    """
    pre: 0 <= b <= 17 and 0 <= c <= 17 and 0 <= d <= 17
    post: _
    """
    return untraced(_dim4, 0, 6, pick(b, 0, 17), pick(c, 0, 17), pick(d, 0, 17), pickb(tn))


def h_e_dim4_0_7(b: int, c: int, d: int, tn: bool) -> bool:
    """
    pre: 0 <= b <= 17 and 0 <= c <= 17 and 0 <= d <= 17
    post: _
    """
    return untraced(_dim4, 0, 7, pick(b, 0, 17), pick(c, 0, 17), pick(d, 0, 17), pickb(tn))


def h_e_dim4_0_8(b: int, c: int, d: int, tn: bool) -> bool:
    """
    pre: 0 <= b <= 17 and 0 <= c <= 17 and 0 <= d <= 17
    post: _
    """
    return untraced(_dim4, 0, 8, pick(b, 0, 17), pick(c, 0, 17), pick(d, 0, 17), pickb(tn))


def h_e_dim4_0_9(b: int, c: int, d: int, tn: bool) -> bool:
    """
    pre: 0 <= b <= 17 and 0 <= c <= 17 and 0 <= d <= 17
    post: _
    """
    return untraced(_dim4, 0, 9, pick(b, 0, 17), pick(c, 0, 17), pick(d, 0, 17), pickb(tn))


def h_e_dim4_0_10(b: int, c: int, d: int, tn: bool) -> bool:
    """
    pre: 0 <= b <= 17 and 0 <= c <= 17 and 0 <= d <= 17
    post: _
    """
    return untraced(_dim4, 0, 10, pick(b, 0, 17), pick(c, 0, 17), pick(d, 0, 17), pickb(tn))


def h_e_dim4_0_11(b: int, c: int, d: int, tn: bool) -> bool:
    """
    pre: 0 <= b <= 17 and 0 <= c <= 17 and 0 <= d <= 17
    post: _
    """
    return untraced(_dim4, 0, 11, pick(b, 0, 17), pick(c, 0, 17), pick(d, 0, 17), pickb(tn))


def h_e_dim4_0_12(b: int, c: int, d: int, tn: bool) -> bool:
    """
    pre: 0 <= b <= 17 and 0 <= c <= 17 and 0 <= d <= 17
    post: _
    """
    return untraced(_dim4, 0, 12, pick(b, 0, 17), pick(c, 0, 17), pick(d, 0, 17), pickb(tn))


def h_e_dim4_0_13(b: int, c: int, d: int, tn: bool) -> bool:
    """
    pre: 0 <= b <= 17 and 0 <= c <= 17 and 0 <= d <= 17
    post: _
    """
    return untraced(_dim4, 0, 13, pick(b, 0, 17), pick(c, 0, 17), pick(d, 0, 17), pickb(tn))


def h_e_dim4_0_14(b: int, c: int, d: int, tn: bool) -> bool:
    """
    pre: 0 <= b <= 17 and 0 <= c <= 17 and 0 <= d <= 17
    post: _
    """
    return untraced(_dim4, 0, 14, pick(b, 0, 17), pick(c, 0, 17), pick(d, 0, 17), pickb(tn))


def h_e_dim4_0_15(b: int, c: int, d: int, tn: bool) -> bool:
    """
    pre: 0 <= b <= 17 and 0 <= c <= 17 and 0 <= d <= 17
    post: _
    """
    return untraced(_dim4, 0, 15, pick(b, 0, 17), pick(c, 0, 17), pick(d, 0, 17), pickb(tn))


def h_e_dim4_0_16(b: int, c: int, d: int, tn: bool) -> bool:
    """
    pre: 0 <= b <= 17 and 0 <= c <= 17 and 0 <= d <= 17
    post: _
    """
    return untraced(_dim4, 0, 16, pick(b, 0, 17), pick(c, 0, 17), pick(d, 0, 17), pickb(tn))


def h_e_dim4_0_17(b: int, c: int, d: int, tn: bool) -> bool:
    """
    pre: 0 <= b <= 17 and 0 <= c <= 17 and 0 <= d <= 17
    post: _
    """
    return untraced(_dim4, 0, 17, pick(b, 0, 17), pick(c, 0, 17), pick(d, 0, 17), pickb(tn))


def h_e_dim3_1_0(a: int, b: int, c: int, tn: bool) -> bool:
    """
    pre: 0 <= a <= 5 and 0 <= b <= 17 and 0 <= c <= 17
    post: _
    """
    return untraced(_dim3, 1, 0 + pick(a, 0, 5), pick(b, 0, 17), pick(c, 0, 17), 3, pickb(tn))


def h_e_dim3_1_1(a: int, b: int, c: int, tn: bool) -> bool:
    """
    pre: 0 <= a <= 5 and 0 <= b <= 17 and 0 <= c <= 17
    post: _
    """
    return untraced(_dim3, 1, 6 + pick(a, 0, 5), pick(b, 0, 17), pick(c, 0, 17), 3, pickb(tn))


def h_e_dim3_1_2(a: int, b: int, c: int, tn: bool) -> bool:
    """
    pre: 0 <= a <= 5 and 0 <= b <= 17 and 0 <= c <= 17
    post: _
    """
    return untraced(_dim3, 1, 12 + pick(a, 0, 5), pick(b, 0, 17), pick(c, 0, 17), 3, pickb(tn))


def h_e_dim4_1_0(b: int, c: int, d: int, tn: bool) -> bool:
    """
    pre: 0 <= b <= 17 and 0 <= c <= 17 and 0 <= d <= 17
    post: _
    """
    return untraced(_dim4, 1, 0, pick(b, 0, 17), pick(c, 0, 17), pick(d, 0, 17), pickb(tn))


def h_e_dim4_1_1(b: int, c: int, d: int, tn: bool) -> bool:
    """
    pre: 0 <= b <= 17 and 0 <= c <= 17 and 0 <= d <= 17
    post: _
    """
    return untraced(_dim4, 1, 1, pick(b, 0, 17), pick(c, 0, 17), pick(d, 0, 17), pickb(tn))


def h_e_dim4_1_2(b: int, c: int, d: int, tn: bool) -> bool:
    """
    pre: 0 <= b <= 17 and 0 <= c <= 17 and 0 <= d <= 17
    post: _
    """
    return untraced(_dim4, 1, 2, pick(b, 0, 17), pick(c, 0, 17), pick(d, 0, 17), pickb(tn))


def h_e_dim4_1_3(b: int, c: int, d: int, tn: bool) -> bool:
    """
    pre: 0 <= b <= 17 and 0 <= c <= 17 and 0 <= d <= 17
    post: _
    """
    return untraced(_dim4, 1, 3, pick(b, 0, 17), pick(c, 0, 17), pick(d, 0, 17), pickb(tn))


def h_e_dim4_1_4(b: int, c: int, d: int, tn: bool) -> bool:
    """
    pre: 0 <= b <= 17 and 0 <= c <= 17 and 0 <= d <= 17
    post: _
    """
    return untraced(_dim4, 1, 4, pick(b, 0, 17), pick(c, 0, 17), pick(d, 0, 17), pickb(tn))


def h_e_dim4_1_5(b: int, c: int, d: int, tn: bool) -> bool:
    """
    pre: 0 <= b <= 17 and 0 <= c <= 17 and 0 <= d <= 17
    post: _
    """
    return untraced(_dim4, 1, 5, pick(b, 0, 17), pick(c, 0, 17), pick(d, 0, 17), pickb(tn))


def h_e_dim4_1_6(b: int, c: int, d: int, tn: bool) -> bool:
    """
    pre: 0 <= b <= 17 and 0 <= c <= 17 and 0 <= d <= 17
    post: _
    """
    return untraced(_dim4, 1, 6, pick(b, 0, 17), pick(c, 0, 17), pick(d, 0, 17), pickb(tn))


def h_e_dim4_1_7(b: int, c: int, d: int, tn: bool) -> bool:
    """
    pre: 0 <= b <= 17 and 0 <= c <= 17 and 0 <= d <= 17
    post: _
    """
    return untraced(_dim4, 1, 7, pick(b, 0, 17), pick(c, 0, 17), pick(d, 0, 17), pickb(tn))


def h_e_dim4_1_8(b: int, c: int, d: int, tn: bool) -> bool:
    """
    pre: 0 <= b <= 17 and 0 <= c <= 17 and 0 <= d <= 17
    post: _
    """
    return untraced(_dim4, 1, 8, pick(b, 0, 17), pick(c, 0, 17), pick(d, 0, 17), pickb(tn))


def h_e_dim4_1_9(b: int, c: int, d: int, tn: bool) -> bool:
    """
    pre: 0 <= b <= 17 and 0 <= c <= 17 and 0 <= d <= 17
    post: _
    """
    return untraced(_dim4, 1, 9, pick(b, 0, 17), pick(c, 0, 17), pick(d, 0, 17), pickb(tn))


def h_e_dim4_1_10(b: int, c: int, d: int, tn: bool) -> bool:
    """
    pre: 0 <= b <= 17 and 0 <= c <= 17 and 0 <= d <= 17
    post: _
    """
    return untraced(_dim4, 1, 10, pick(b, 0, 17), pick(c, 0, 17), pick(d, 0, 17), pickb(tn))


def h_e_dim4_1_11(b: int, c: int, d: int, tn: bool) -> bool:
    """
    pre: 0 <= b <= 17 and 0 <= c <= 17 and 0 <= d <= 17
    post: _
    """
    return untraced(_dim4, 1, 11, pick(b, 0, 17), pick(c, 0, 17), pick(d, 0, 17), pickb(tn))


def h_e_dim4_1_12(b: int, c: int, d: int, tn: bool) -> bool:
    """
    pre: 0 <= b <= 17 and 0 <= c <= 17 and 0 <= d <= 17
    post: _
    """
    return untraced(_dim4, 1, 12, pick(b, 0, 17), pick(c, 0, 17), pick(d, 0, 17), pickb(tn))


def h_e_dim4_1_13(b: int, c: int, d: int, tn: bool) -> bool:
    """
    pre: 0 <= b <= 17 and 0 <= c <= 17 and 0 <= d <= 17
    post: _
    """
    return untraced(_dim4, 1, 13, pick(b, 0, 17), pick(c, 0, 17), pick(d, 0, 17), pickb(tn))


def h_e_dim4_1_14(b: int, c: int, d: int, tn: bool) -> bool:
    """
    pre: 0 <= b <= 17 and 0 <= c <= 17 and 0 <= d <= 17
    post: _
    """
    return untraced(_dim4, 1, 14, pick(b, 0, 17), pick(c, 0, 17), pick(d, 0, 17), pickb(tn))


def h_e_dim4_1_15(b: int, c: int, d: int, tn: bool) -> bool:
    """
    pre: 0 <= b <= 17 and 0 <= c <= 17 and 0 <= d <= 17
    post: _
    """
    return untraced(_dim4, 1, 15, pick(b, 0, 17), pick(c, 0, 17), pick(d, 0, 17), pickb(tn))


def h_e_dim4_1_16(b: int, c: int, d: int, tn: bool) -> bool:
    """
    pre: 0 <= b <= 17 and 0 <= c <= 17 and 0 <= d <= 17
    post: _
    """
    return untraced(_dim4, 1, 16, pick(b, 0, 17), pick(c, 0, 17), pick(d, 0, 17), pickb(tn))


def h_e_dim4_1_17(b: int, c: int, d: int, tn: bool) -> bool:
    """
    pre: 0 <= b <= 17 and 0 <= c <= 17 and 0 <= d <= 17
    post: _
    """
    return untraced(_dim4, 1, 17, pick(b, 0, 17), pick(c, 0, 17), pick(d, 0, 17), pickb(tn))


def h_e_dim3_2_0(a: int, b: int, c: int, tn: bool) -> bool:
    """
    pre: 0 <= a <= 5 and 0 <= b <= 17 and 0 <= c <= 17
    post: _
    """
    return untraced(_dim3, 2, 0 + pick(a, 0, 5), pick(b, 0, 17), pick(c, 0, 17), 3, pickb(tn))


def h_e_dim3_2_1(a: int, b: int, c: int, tn: bool) -> bool:
    """
    pre: 0 <= a <= 5 and 0 <= b <= 17 and 0 <= c <= 17
    post: _
    """
    return untraced(_dim3, 2, 6 + pick(a, 0, 5), pick(b, 0, 17), pick(c, 0, 17), 3, pickb(tn))


def h_e_dim3_2_2(a: int, b: int, c: int, tn: bool) -> bool:
    """
    pre: 0 <= a <= 5 and 0 <= b <= 17 and 0 <= c <= 17
    post: _
    """
    return untraced(_dim3, 2, 12 + pick(a, 0, 5), pick(b, 0, 17), pick(c, 0, 17), 3, pickb(tn))


def h_e_dim4_2_0(b: int, c: int, d: int, tn: bool) -> bool:
    """
    pre: 0 <= b <= 17 and 0 <= c <= 17 and 0 <= d <= 17
    post: _
    """
    return untraced(_dim4, 2, 0, pick(b, 0, 17), pick(c, 0, 17), pick(d, 0, 17), pickb(tn))


def h_e_dim4_2_1(b: int, c: int, d: int, tn: bool) -> bool:
    """
    pre: 0 <= b <= 17 and 0 <= c <= 17 and 0 <= d <= 17
    post: _
    """
    return untraced(_dim4, 2, 1, pick(b, 0, 17), pick(c, 0, 17), pick(d, 0, 17), pickb(tn))


def h_e_dim4_2_2(b: int, c: int, d: int, tn: bool) -> bool:
    """
    pre: 0 <= b <= 17 and 0 <= c <= 17 and 0 <= d <= 17
    post: _
    """
    return untraced(_dim4, 2, 2, pick(b, 0, 17), pick(c, 0, 17), pick(d, 0, 17), pickb(tn))


def h_e_dim4_2_3(b: int, c: int, d: int, tn: bool) -> bool:
    """
    pre: 0 <= b <= 17 and 0 <= c <= 17 and 0 <= d <= 17
    post: _
    """
    return untraced(_dim4, 2, 3, pick(b, 0, 17), pick(c, 0, 17), pick(d, 0, 17), pickb(tn))


def h_e_dim4_2_4(b: int, c: int, d: int, tn: bool) -> bool:
    """
    pre: 0 <= b <= 17 and 0 <= c <= 17 and 0 <= d <= 17
    post: _
    """
    return untraced(_dim4, 2, 4, pick(b, 0, 17), pick(c, 0, 17), pick(d, 0, 17), pickb(tn))


def h_e_dim4_2_5(b: int, c: int, d: int, tn: bool) -> bool:
    """
    pre: 0 <= b <= 17 and 0 <= c <= 17 and 0 <= d <= 17
    post: _
    """
    return untraced(_dim4, 2, 5, pick(b, 0, 17), pick(c, 0, 17), pick(d, 0, 17), pickb(tn))


def h_e_dim4_2_6(b: int, c: int, d: int, tn: bool) -> bool:
    """
    pre: 0 <= b <= 17 and 0 <= c <= 17 and 0 <= d <= 17
    post: _
    """
    return untraced(_dim4, 2, 6, pick(b, 0, 17), pick(c, 0, 17), pick(d, 0, 17), pickb(tn))


def h_e_dim4_2_7(b: int, c: int, d: int, tn: bool) -> bool:
    """
    pre: 0 <= b <= 17 and 0 <= c <= 17 and 0 <= d <= 17
    post: _
    """
    return untraced(_dim4, 2, 7, pick(b, 0, 17), pick(c, 0, 17), pick(d, 0, 17), pickb(tn))


def h_e_dim4_2_8(b: int, c: int, d: int, tn: bool) -> bool:
    """
    pre: 0 <= b <= 17 and 0 <= c <= 17 and 0 <= d <= 17
    post: _
    """
    return untraced(_dim4, 2, 8, pick(b, 0, 17), pick(c, 0, 17), pick(d, 0, 17), pickb(tn))


def h_e_dim4_2_9(b: int, c: int, d: int, tn: bool) -> bool:
    """
    pre: 0 <= b <= 17 and 0 <= c <= 17 and 0 <= d <= 17
    post: _
    """
    return untraced(_dim4, 2, 9, pick(b, 0, 17), pick(c, 0, 17), pick(d, 0, 17), pickb(tn))


def h_e_dim4_2_10(b: int, c: int, d: int, tn: bool) -> bool:
    """
    pre: 0 <= b <= 17 and 0 <= c <= 17 and 0 <= d <= 17
    post: _
    """
    return untraced(_dim4, 2, 10, pick(b, 0, 17), pick(c, 0, 17), pick(d, 0, 17), pickb(tn))


def h_e_dim4_2_11(b: int, c: int, d: int, tn: bool) -> bool:
    """
    pre: 0 <= b <= 17 and 0 <= c <= 17 and 0 <= d <= 17
    post: _
    """
    return untraced(_dim4, 2, 11, pick(b, 0, 17), pick(c, 0, 17), pick(d, 0, 17), pickb(tn))


def h_e_dim4_2_12(b: int, c: int, d: int, tn: bool) -> bool:
    """
    pre: 0 <= b <= 17 and 0 <= c <= 17 and 0 <= d <= 17
    post: _
    """
    return untraced(_dim4, 2, 12, pick(b, 0, 17), pick(c, 0, 17), pick(d, 0, 17), pickb(tn))


def h_e_dim4_2_13(b: int, c: int, d: int, tn: bool) -> bool:
    """
    pre: 0 <= b <= 17 and 0 <= c <= 17 and 0 <= d <= 17
    post: _
    """
    return untraced(_dim4, 2, 13, pick(b, 0, 17), pick(c, 0, 17), pick(d, 0, 17), pickb(tn))


def h_e_dim4_2_14(b: int, c: int, d: int, tn: bool) -> bool:
    """
    pre: 0 <= b <= 17 and 0 <= c <= 17 and 0 <= d <= 17
    post: _
    """
    return untraced(_dim4, 2, 14, pick(b, 0, 17), pick(c, 0, 17), pick(d, 0, 17), pickb(tn))


def h_e_dim4_2_15(b: int, c: int, d: int, tn: bool) -> bool:
    """
    pre: 0 <= b <= 17 and 0 <= c <= 17 and 0 <= d <= 17
    post: _
    """
    return untraced(_dim4, 2, 15, pick(b, 0, 17), pick(c, 0, 17), pick(d, 0, 17), pickb(tn))


def h_e_dim4_2_16(b: int, c: int, d: int, tn: bool) -> bool:
    """
    pre: 0 <= b <= 17 and 0 <= c <= 17 and 0 <= d <= 17
    post: _
    """
    return untraced(_dim4, 2, 16, pick(b, 0, 17), pick(c, 0, 17), pick(d, 0, 17), pickb(tn))


def h_e_dim4_2_17(b: int, c: int, d: int, tn: bool) -> bool:
    """
    pre: 0 <= b <= 17 and 0 <= c <= 17 and 0 <= d <= 17
    post: _
    """
    return untraced(_dim4, 2, 17, pick(b, 0, 17), pick(c, 0, 17), pick(d, 0, 17), pickb(tn))


def h_e_mat3(a: int, b: int, c: int, tn: bool) -> bool:
    """
    pre: 0 <= a <= 14 and 0 <= b <= 14 and 0 <= c <= 14
    post: _
    """
    return untraced(_mat, pick(a, 0, 14), pick(b, 0, 14), pick(c, 0, 14), 0, 3, pickb(tn))


def h_e_kth2(ti: int, a: int, b: int, tn: bool) -> bool:
    """
    pre: 0 <= ti <= 3 and 0 <= a <= 19 and 0 <= b <= 19
    post: _
    """
    return untraced(_kth3, pick(ti, 0, 3), pick(a, 0, 19), pick(b, 0, 19), 0, 2, pickb(tn))


def h_e_dim2(ti: int, a: int, b: int, tn: bool) -> bool:
    """
    pre: 0 <= ti <= 2 and 0 <= a <= 17 and 0 <= b <= 17
    post: _
    """
    return untraced(_dim3, pick(ti, 0, 2), pick(a, 0, 17), pick(b, 0, 17), 0, 2, pickb(tn))


def h_e_mat2(a: int, b: int, tn: bool) -> bool:
    """
    pre: 0 <= a <= 14 and 0 <= b <= 14
    post: _
    """
    return untraced(_mat, pick(a, 0, 14), pick(b, 0, 14), 0, 0, 2, pickb(tn))


def _len01(f, t, x, n, tn):
    if f == 0:
        return _kth3(t, x, 0, 0, n, tn)
    if f == 1:
        return _dim3(min(t, 2), min(x, 17), 0, 0, n, tn)
    return _mat(min(x, 14), 0, 0, 0, n, tn)


def h_e_len01(fmt: int, ti: int, a: int, ln: int, tn: bool) -> bool:
    """
    pre: 0 <= fmt <= 2 and 0 <= ti <= 3 and 0 <= a <= 19 and 0 <= ln <= 1
    post: _
    """
    return untraced(_len01, pick(fmt, 0, 2), pick(ti, 0, 3), pick(a, 0, 19), pick(ln, 0, 1), pickb(tn))


def h_e_mat4_0(b: int, c: int, d: int, tn: bool) -> bool:
    """
    pre: 0 <= b <= 14 and 0 <= c <= 14 and 0 <= d <= 14
    post: _
    """
    return untraced(_mat, 0, pick(b, 0, 14), pick(c, 0, 14), pick(d, 0, 14), 4, pickb(tn))


def h_e_mat4_1(b: int, c: int, d: int, tn: bool) -> bool:
    """
    pre: 0 <= b <= 14 and 0 <= c <= 14 and 0 <= d <= 14
    post: _
    """
    return untraced(_mat, 1, pick(b, 0, 14), pick(c, 0, 14), pick(d, 0, 14), 4, pickb(tn))


def h_e_mat4_2(b: int, c: int, d: int, tn: bool) -> bool:
    """
    pre: 0 <= b <= 14 and 0 <= c <= 14 and 0 <= d <= 14
    post: _
    """
    return untraced(_mat, 2, pick(b, 0, 14), pick(c, 0, 14), pick(d, 0, 14), 4, pickb(tn))


def h_e_mat4_3(b: int, c: int, d: int, tn: bool) -> bool:
    """
    pre: 0 <= b <= 14 and 0 <= c <= 14 and 0 <= d <= 14
    post: _
    """
    return untraced(_mat, 3, pick(b, 0, 14), pick(c, 0, 14), pick(d, 0, 14), 4, pickb(tn))


def h_e_mat4_4(b: int, c: int, d: int, tn: bool) -> bool:
    """
    pre: 0 <= b <= 14 and 0 <= c <= 14 and 0 <= d <= 14
    post: _
    """
    return untraced(_mat, 4, pick(b, 0, 14), pick(c, 0, 14), pick(d, 0, 14), 4, pickb(tn))


def h_e_mat4_5(b: int, c: int, d: int, tn: bool) -> bool:
    """
    pre: 0 <= b <= 14 and 0 <= c <= 14 and 0 <= d <= 14
    post: _
    """
    return untraced(_mat, 5, pick(b, 0, 14), pick(c, 0, 14), pick(d, 0, 14), 4, pickb(tn))


def h_e_mat4_6(b: int, c: int, d: int, tn: bool) -> bool:
    """
    pre: 0 <= b <= 14 and 0 <= c <= 14 and 0 <= d <= 14
    post: _
    """
    return untraced(_mat, 6, pick(b, 0, 14), pick(c, 0, 14), pick(d, 0, 14), 4, pickb(tn))


def h_e_mat4_7(b: int, c: int, d: int, tn: bool) -> bool:
    """
    pre: 0 <= b <= 14 and 0 <= c <= 14 and 0 <= d <= 14
    post: _
    """
    return untraced(_mat, 7, pick(b, 0, 14), pick(c, 0, 14), pick(d, 0, 14), 4, pickb(tn))


def h_e_mat4_8(b: int, c: int, d: int, tn: bool) -> bool:
    """
    pre: 0 <= b <= 14 and 0 <= c <= 14 and 0 <= d <= 14
    post: _
    """
    return untraced(_mat, 8, pick(b, 0, 14), pick(c, 0, 14), pick(d, 0, 14), 4, pickb(tn))


def h_e_mat4_9(b: int, c: int, d: int, tn: bool) -> bool:
    """
    pre: 0 <= b <= 14 and 0 <= c <= 14 and 0 <= d <= 14
    post: _
    """
    return untraced(_mat, 9, pick(b, 0, 14), pick(c, 0, 14), pick(d, 0, 14), 4, pickb(tn))


def h_e_mat4_10(b: int, c: int, d: int, tn: bool) -> bool:
    """
    pre: 0 <= b <= 14 and 0 <= c <= 14 and 0 <= d <= 14
    post: _
    """
    return untraced(_mat, 10, pick(b, 0, 14), pick(c, 0, 14), pick(d, 0, 14), 4, pickb(tn))


def h_e_mat4_11(b: int, c: int, d: int, tn: bool) -> bool:
    """
    pre: 0 <= b <= 14 and 0 <= c <= 14 and 0 <= d <= 14
    post: _
    """
    return untraced(_mat, 11, pick(b, 0, 14), pick(c, 0, 14), pick(d, 0, 14), 4, pickb(tn))


def h_e_mat4_12(b: int, c: int, d: int, tn: bool) -> bool:
    """
    pre: 0 <= b <= 14 and 0 <= c <= 14 and 0 <= d <= 14
    post: _
    """
    return untraced(_mat, 12, pick(b, 0, 14), pick(c, 0, 14), pick(d, 0, 14), 4, pickb(tn))


def h_e_mat4_13(b: int, c: int, d: int, tn: bool) -> bool:
    """
    pre: 0 <= b <= 14 and 0 <= c <= 14 and 0 <= d <= 14
    post: _
    """
    return untraced(_mat, 13, pick(b, 0, 14), pick(c, 0, 14), pick(d, 0, 14), 4, pickb(tn))


def h_e_mat4_14(b: int, c: int, d: int, tn: bool) -> bool:
    """
    pre: 0 <= b <= 14 and 0 <= c <= 14 and 0 <= d <= 14
    post: _
    """
    return untraced(_mat, 14, pick(b, 0, 14), pick(c, 0, 14), pick(d, 0, 14), 4, pickb(tn))


# ------------------------------------------------ hand-written bipartite GML / dot (not produced by the writer)
def _bip_text(fmt, l, r, bits, order, flips):
    """nodes in one of three declaration orders, every edge written in either orientation"""
    P = [(u, v) for u in range(1, l + 1) for v in range(1, r + 1)]
    E = [P[i] for i in range(len(P)) if bits >> i & 1]
    left = [('L%d' % u, 0) for u in range(1, l + 1)]
    right = [('R%d' % v, 1) for v in range(1, r + 1)]
    if order == 0:
        nodes = left + right
    elif order == 1:
        nodes = right + left
    else:
        nodes = [x for pair in zip(left, right) for x in pair] + left[len(right):] + right[len(left):]
    ids = {name: i + 1 for i, (name, _) in enumerate(nodes)}
    if fmt == 'gml':
        out = ['graph [']
        for name, side in nodes:
            out.append('  node [ id %d label "%s" bipartite %d ]' % (ids[name], name, side))
        for k, (u, v) in enumerate(E):
            a, b = ('L%d' % u, 'R%d' % v) if not (flips >> k & 1) else ('R%d' % v, 'L%d' % u)
            out.append('  edge [ source %d target %d ]' % (ids[a], ids[b]))
        out.append(']')
    else:
        out = ['graph G {']
        for name, side in nodes:
            out.append('  %s [bipartite=%d];' % (name, side))
        for k, (u, v) in enumerate(E):
            a, b = ('L%d' % u, 'R%d' % v) if not (flips >> k & 1) else ('R%d' % v, 'L%d' % u)
            out.append('  %s -- %s;' % (a, b))
        out.append('}')
    return '\n'.join(out) + '\n', E


ORDERS4 = [[1, 2, 3, 4], [3, 1, 4, 2], [4, 3, 2, 1], [2, 4, 1, 3]]
IDSETS = [[1, 2, 3, 4], [20, 5, 11, 7], [0, 1, 2, 3], [10, 9, 100, 8]]


def _simple_handwritten(fi, oi, ii, bits, directed, edges_first):
    """hand-written GML / dot with integer node ids declared in any order (or, in dot, introduced by the edge statements):
    vertices are numbered by increasing id, as documented; edges follow the ids"""
    fmt = ['gml', 'dot'][fi]
    ids = IDSETS[ii]
    rank = {v: i + 1 for i, v in enumerate(sorted(ids))}
    decl = [ids[k - 1] for k in ORDERS4[oi]]
    P = [(a, b) for a in range(4) for b in range(a + 1, 4)]
    E = [(ids[a], ids[b]) for k, (a, b) in enumerate(P) if bits >> k & 1]
    if directed:
        E = [(a, b) if rank[a] < rank[b] else (b, a) for (a, b) in E]
    else:
        E = [(a, b) if k % 2 else (b, a) for k, (a, b) in enumerate(E)]
    if fmt == 'gml':
        out = ['graph [', '  directed %d' % (1 if directed else 0)]
        for v in decl:
            out.append('  node [ id %d label "%d" ]' % (v, v))
        for a, b in E:
            out.append('  edge [ source %d target %d ]' % (a, b))
        out.append(']')
    else:
        out = ['digraph G {' if directed else 'graph G {']
        arrow = ' -> ' if directed else ' -- '
        if edges_first:
            for a, b in E:
                out.append('  %d%s%d;' % (a, arrow, b))
            for v in decl:
                out.append('  %d;' % v)
        else:
            for v in decl:
                out.append('  %d;' % v)
            for a, b in E:
                out.append('  %d%s%d;' % (a, arrow, b))
        out.append('}')
    text = '\n'.join(out) + '\n'
    typ = 'dag' if directed else 'simple'
    G = readGraph(io.StringIO(text), typ, fmt)
    want = sorted((rank[a], rank[b]) for a, b in E) if directed else sorted((min(rank[a], rank[b]), max(rank[a], rank[b])) for a, b in E)
    return _views(G, typ) == (4, want)


def h_e_simple_handwritten(fi: int, oi: int, ii: int, bits: int, directed: bool, edges_first: bool) -> bool:
    """
    pre: 0 <= fi <= 1 and 0 <= oi <= 3 and 0 <= ii <= 3 and 0 <= bits <= 7
    post: _
    """
    return untraced(_simple_handwritten, pick(fi, 0, 1), pick(oi, 0, 3), pick(ii, 0, 3), [0, 5, 21, 63, 38, 9, 50, 12][pick(bits, 0, 7)], pickb(directed), pickb(edges_first))


def _from_file_named(typ_i, fmt_i, name_i, explicit):
    """Graph.from_file / DirectedGraph.from_file / BipartiteGraph.from_file given a file NAME: an explicit format wins over the
    extension, without one the extension decides"""
    import cnfgen.graphs as GG
    typ = ['simple', 'digraph', 'bipartite'][typ_i]
    fmt = FORMATS[typ][fmt_i]
    if typ == 'simple':
        G = Graph(3)
        G.add_edge(1, 3)
        cls = Graph
    elif typ == 'digraph':
        G = DirectedGraph(3)
        G.add_edge(1, 3)
        G.add_edge(2, 3)
        cls = DirectedGraph
    else:
        G = BipartiteGraph(2, 3)
        G.add_edge(1, 3)
        G.add_edge(2, 1)
        cls = BipartiteGraph
    buf = io.StringIO()
    writeGraph(G, buf, typ, fmt)
    other = [f for f in FORMATS[typ] if f != fmt][0]
    name = ['graph.' + fmt, 'graph.txt', 'graph', 'graph.' + other][name_i]
    files = {name: buf.getvalue()}

    def fake_open(nm, mode='r', *a, **k):
        if nm not in files:
            raise FileNotFoundError(2, 'No such file or directory', nm)
        f = io.StringIO(files[nm])
        f.name = nm
        return f
    GG.open = fake_open
    try:
        if explicit:
            H = cls.from_file(name, fmt)
        elif name_i == 0:
            H = cls.from_file(name)
        else:
            return True                      # nothing names the format: outside the claim
    finally:
        del GG.open
    return _views(H, typ) == _views(G, typ)


def h_e_from_file_named(typ_i: int, fmt_i: int, name_i: int, explicit: bool) -> bool:
    """
    pre: 0 <= typ_i <= 2 and 0 <= fmt_i <= 3 and 0 <= name_i <= 3
    post: _
    """
    return untraced(_from_file_named, pick(typ_i, 0, 2), pick(fmt_i, 0, 3), pick(name_i, 0, 3), pickb(explicit))


def _bip_handwritten(fi, l, r, bits, order, flips):
    fmt = ['gml', 'dot'][fi]
    text, E = _bip_text(fmt, l, r, bits, order, flips)
    G = readGraph(io.StringIO(text), 'bipartite', fmt)
    return (G.left_order(), G.right_order(), sorted(G.edges())) == (l, r, sorted(E))


def h_e_bip_handwritten(fi: int, l: int, r: int, bits: int, order: int, flips: int) -> bool:
    """
    pre: 0 <= fi <= 1 and 1 <= l <= 3 and 1 <= r <= 2 and 0 <= bits <= 15 and 0 <= order <= 2 and 0 <= flips <= 3
    post: _
    """
    ll, rr = pick(l, 1, 3), pick(r, 1, 2)
    b = pick(bits, 0, 15)
    if ll == 3:
        b = b * 5 % 64          # a spread of edge sets on the 3x2 sides
    return untraced(_bip_handwritten, pick(fi, 0, 1), ll, rr, b % (1 << (ll * rr)), pick(order, 0, 2), pick(flips, 0, 3))


# ------------------------------------------------- two reads in one process: a rejected text must leave nothing behind
GOOD = {'matrix': ['1 1\n1\n', '2 2\n1 0\n0 1\n', '2 3\n0 0 1\n1 0 1', '0 0\n'],
        'kthlist': ['3\n1 : 0\n2 : 1 0\n3 : 1 2 0\n', '2\n1 : 0\n2 : 1 0', '0\n'],
        'dimacs': ['p edge 3 2\ne 1 2\ne 2 3\n', 'p edge 3 0\n', 'p edge 2 1\ne 1 2']}


def _two_reads(fi, a, b, c, tn, gi):
    """read a text made of three menu lines (valid or not), then a valid text of the same format: the second read must
    return exactly its graph - the reader keeps nothing between calls"""
    fmt = ['matrix', 'kthlist', 'dimacs'][fi]
    menu = {'matrix': MAT_MENU, 'kthlist': KTH_MENU, 'dimacs': DIM_MENU}[fmt]
    typ = 'bipartite' if fmt == 'matrix' else ['simple', 'digraph', 'dag'][gi % 3]
    if not _read_menu(fmt, typ, menu, [a % len(menu), b % len(menu), c % len(menu)], tn):
        return False
    good = GOOD[fmt][gi % len(GOOD[fmt])]
    want = ref_matrix(good) if fmt == 'matrix' else (ref_kthlist(good, typ) if fmt == 'kthlist' else ref_dimacs(good, typ))
    try:
        G = readGraph(io.StringIO(good), typ, fmt)
    except ValueError:
        return False
    return _views(G, typ) == want


def h_e_two_reads_mat(a: int, b: int, c: int) -> bool:
    """
    pre: 2 <= a <= 11 and 0 <= b <= 14 and 0 <= c <= 14
    post: _
    """
    a, b, c = pick(a, 2, 11), pick(b, 0, 14), pick(c, 0, 14)
    return untraced(_two_reads, 0, a, b, c, bool((a + b) % 2), (b + c) % 4)


def h_e_two_reads_kth(a: int, b: int, c: int) -> bool:
    """
    pre: 2 <= a <= 4 and 0 <= b <= 19 and 0 <= c <= 19
    post: _
    """
    a, b, c = pick(a, 2, 4), pick(b, 0, 19), pick(c, 0, 19)
    return untraced(_two_reads, 1, a, b, c, bool((a + b) % 2), (b + c) % 3)


def h_e_two_reads_dim(a: int, b: int, c: int) -> bool:
    """
    pre: 2 <= a <= 4 and 0 <= b <= 17 and 0 <= c <= 17
    post: _
    """
    a, b, c = pick(a, 2, 4), pick(b, 0, 17), pick(c, 0, 17)
    return untraced(_two_reads, 2, a, b, c, bool((a + b) % 2), (b + c) % 3)
