"""Exhaustive small-graph boxes and constructors of cnfgen graph objects (JSON-able specs)."""
import itertools


def pairs(n):
    return [(u, v) for u in range(1, n + 1) for v in range(u + 1, n + 1)]


def all_graphs(n):
    """G(n): every labelled simple graph on exactly n vertices, as sorted edge lists."""
    P = pairs(n)
    for bits in range(1 << len(P)):
        yield [list(P[i]) for i in range(len(P)) if bits >> i & 1]


def all_bipartite(l, r):
    """B(l,r): every bipartite graph with sides l, r."""
    P = [(u, v) for u in range(1, l + 1) for v in range(1, r + 1)]
    for bits in range(1 << len(P)):
        yield [list(P[i]) for i in range(len(P)) if bits >> i & 1]


def all_dags(n):
    """D(n): every DAG on n vertices whose edges go low -> high."""
    return all_graphs(n)


def all_digraphs(n, loops=True):
    P = [(u, v) for u in range(1, n + 1) for v in range(1, n + 1) if loops or u != v]
    for bits in range(1 << len(P)):
        yield [list(P[i]) for i in range(len(P)) if bits >> i & 1]


def graph_box(maxn, minn=0):
    for n in range(minn, maxn + 1):
        for E in all_graphs(n):
            yield {'n': n, 'edges': E}


def bip_box(sizes):
    for (l, r) in sizes:
        for E in all_bipartite(l, r):
            yield {'l': l, 'r': r, 'edges': E}


BIP_QUICK = [(l, r) for l in range(0, 3) for r in range(0, 4)] + [(3, 2)]
BIP_THOROUGH = [(l, r) for l in range(0, 4) for r in range(0, 4)] + [(2, 4), (4, 2), (3, 4), (4, 3)]


def mk_graph(g):
    from cnfgen.graphs import Graph
    if g.get('nx') == 3:
        return _nx_with_a_past(g['n'], [tuple(e) for e in g['edges']], pairs(g['n']), 'simple')
    if g.get('nx'):
        # the same graph as a networkx object: nodes inserted in reverse order, edges in reverse order and orientation
        import networkx
        N = networkx.Graph()
        # node names: 1..n, or (nx=2) integers starting below zero - the documented conversion keeps their sorted order
        shift = 0 if g['nx'] == 1 else -(g['n'] // 2 + 1)
        N.add_nodes_from(range(g['n'] + shift, shift, -1))
        N.add_edges_from((v + shift, u + shift) for u, v in reversed(g['edges']))
        N.name = 'a networkx graph'
        return N
    if g.get('grown') and g['n'] >= 2:
        # the same graph reached by growing: start smaller (by 2, by 3, or from nothing), raise the vertex count in one call,
        # then add the edges
        G = Graph(max(0, g['n'] - [2, 3, g['n']][g['grown'] - 1]))
        G.update_vertex_number(g['n'])
        for u, v in reversed(g['edges']):
            G.add_edge(v, u)
        return G
    n, E = g['n'], [tuple(e) for e in g['edges']]
    hist = g.get('hist')
    if hist == 2 and E:
        # the same OBJECT used before with other content: one edge elsewhere (same numbers of vertices and edges), every
        # family and view run on it, then the edge is moved to where it belongs
        missing = [(u, v) for u in range(1, n + 1) for v in range(u + 1, n + 1) if (u, v) not in E and (v, u) not in E]
        if missing:
            G = Graph(n)
            for u, v in E[1:]:
                G.add_edge(u, v)
            G.add_edge(*missing[len(E) % len(missing)])
            _observe_simple(G)
            a, b = missing[len(E) % len(missing)]
            if len(E) % 2:
                a, b = b, a                         # either orientation names the same edge
            G.remove_edge(a, b)
            G.add_edge(*E[0])
            return G
    G = Graph(n)
    if hist == 3:
        # bulk insertion refused at its last pair (the pairs before it are inserted, as by repeated add_edge)
        try:
            G.add_edges_from(list(reversed(E)) + [(n + 1, 1)])
        except ValueError:
            pass
        try:
            G.add_edges_from([(1, 1)])
        except ValueError:
            pass
        return G
    for u, v in E:
        G.add_edge(u, v)
    if hist == 1:
        # insertions the graph refuses: they must leave no trace
        for (u, v) in ((0, 1), (n, n + 1), (n + 1, 1), (1, 1), (n, n), (-1, 2), (1, n + 2)):
            try:
                G.add_edge(u, v)
            except ValueError:
                pass
        try:
            G.remove_edge(n + 1, 1)
        except ValueError:
            pass
    return G


def _nx_with_a_past(n, E, candidates, kind):
    """A networkx OBJECT that the caller has used before with other content: first one edge sits elsewhere (same numbers
    of nodes and edges), the object is converted by every normaliser and given to the families of its kind, then the
    caller moves the edge and hands the same object over.  A family is a function of the graph it is given NOW."""
    import networkx
    if kind == 'bipartite':
        l, r = n
        N = networkx.Graph()
        N.add_nodes_from(range(1, l + 1), bipartite=0)
        N.add_nodes_from(range(l + 1, l + r + 1), bipartite=1)
        enc = lambda e: (e[0], l + e[1])
    else:
        N = networkx.DiGraph() if kind == 'digraph' else networkx.Graph()
        N.add_nodes_from(range(1, n + 1))
        enc = lambda e: e
    N.name = 'a networkx object with a past'
    Es = set(E) | (set((v, u) for u, v in E) if kind == 'simple' else set())
    missing = [e for e in candidates if e not in Es]
    if not E or not missing:
        N.add_edges_from(enc(e) for e in E)
        _observe_nx(N, kind)
        return N
    wrong = missing[len(E) % len(missing)]
    N.add_edges_from(enc(e) for e in E[1:])
    N.add_edge(*enc(wrong))
    _observe_nx(N, kind)
    N.remove_edge(*enc(wrong))
    N.add_edge(*enc(E[0]))
    return N


def _observe_nx(N, kind):
    from cnfgen.graphs import Graph, BipartiteGraph, DirectedGraph
    fs = []
    if kind == 'simple':
        from cnfgen.families.coloring import GraphColoringFormula, EvenColoringFormula
        from cnfgen.families.dominatingset import DominatingSet, Tiling
        from cnfgen.families.subgraph import CliqueFormula, BinaryCliqueFormula, RamseyWitnessFormula, SubgraphFormula
        from cnfgen.families.ordering import GraphOrderingPrinciple
        from cnfgen.families.counting import PerfectMatchingPrinciple
        from cnfgen.families.tseitin import TseitinFormula
        from cnfgen.families.graphisomorphism import GraphIsomorphism, GraphAutomorphism
        fs = [lambda: Graph.normalize(N), lambda: Graph.from_networkx(N), lambda: GraphColoringFormula(N, 2), lambda: EvenColoringFormula(N),
              lambda: DominatingSet(N, 1), lambda: Tiling(N), lambda: CliqueFormula(N, 2), lambda: BinaryCliqueFormula(N, 2),
              lambda: RamseyWitnessFormula(N, 2, 2), lambda: SubgraphFormula(N, N), lambda: GraphOrderingPrinciple(N),
              lambda: PerfectMatchingPrinciple(N), lambda: TseitinFormula(N), lambda: GraphIsomorphism(N, N), lambda: GraphAutomorphism(N)]
    elif kind == 'bipartite':
        from cnfgen.families.pigeonhole import GraphPigeonholePrinciple
        from cnfgen.families.subsetcardinality import SubsetCardinalityFormula
        fs = [lambda: BipartiteGraph.normalize(N), lambda: BipartiteGraph.from_networkx(N), lambda: GraphPigeonholePrinciple(N),
              lambda: GraphPigeonholePrinciple(N, functional=True, onto=True), lambda: SubsetCardinalityFormula(N)]
    else:
        from cnfgen.families.pebbling import PebblingFormula, StoneFormula
        fs = [lambda: DirectedGraph.normalize(N), lambda: DirectedGraph.from_networkx(N), lambda: PebblingFormula(N), lambda: StoneFormula(N, 2)]
    for f in fs:
        try:
            f()
        except Exception:  # noqa: results are discarded; what matters is the call having happened
            pass


def _observe_simple(G):
    """read every view of G and build every family that takes one simple graph (results discarded)"""
    n = G.number_of_vertices()
    list(G.edges()), G.number_of_edges(), [list(G.neighbors(v)) for v in range(1, n + 1)], G.to_networkx()
    from cnfgen.families.coloring import GraphColoringFormula, EvenColoringFormula
    from cnfgen.families.dominatingset import DominatingSet, Tiling
    from cnfgen.families.subgraph import CliqueFormula, BinaryCliqueFormula, RamseyWitnessFormula, SubgraphFormula
    from cnfgen.families.ordering import GraphOrderingPrinciple
    from cnfgen.families.counting import PerfectMatchingPrinciple
    from cnfgen.families.tseitin import TseitinFormula
    from cnfgen.families.graphisomorphism import GraphIsomorphism, GraphAutomorphism
    for f in (lambda: GraphColoringFormula(G, 2), lambda: EvenColoringFormula(G), lambda: DominatingSet(G, 1), lambda: Tiling(G),
              lambda: CliqueFormula(G, 2), lambda: CliqueFormula(G, 3), lambda: BinaryCliqueFormula(G, 2), lambda: RamseyWitnessFormula(G, 2, 2),
              lambda: SubgraphFormula(G, G), lambda: GraphOrderingPrinciple(G), lambda: PerfectMatchingPrinciple(G),
              lambda: TseitinFormula(G), lambda: GraphIsomorphism(G, G), lambda: GraphAutomorphism(G)):
        try:
            f()
        except ValueError:
            pass


def mk_bip(g):
    from cnfgen.graphs import BipartiteGraph
    if g.get('nx') == 3:
        return _nx_with_a_past((g['l'], g['r']), [tuple(e) for e in g['edges']],
                               [(u, v) for u in range(1, g['l'] + 1) for v in range(1, g['r'] + 1)], 'bipartite')
    if g.get('nx'):
        # networkx object: the two sides interleaved, 'bipartite' attribute as int (nx=1) or string (nx=2),
        # edges listed from the right side
        import networkx
        N = networkx.Graph()
        L = [('l', u) for u in range(1, g['l'] + 1)]
        R = [('r', v) for v in range(1, g['r'] + 1)]
        order = [x for pr in zip(R, L) for x in pr] + R[len(L):] + L[len(R):]
        for nd in order:
            side = 0 if nd[0] == 'l' else 1
            N.add_node(nd, bipartite=side if g['nx'] == 1 else str(side))
        N.add_edges_from((('r', v), ('l', u)) for u, v in reversed(g['edges']))
        N.name = 'a networkx bipartite graph'
        return N
    B = BipartiteGraph(g['l'], g['r'])
    for u, v in g['edges']:
        B.add_edge(u, v)
    if g.get('hist'):
        for (u, v) in ((0, 1), (g['l'] + 1, 1), (1, g['r'] + 1), (1, 0), (-1, 1), (g['l'] + 1, g['r'] + 1)):
            try:
                B.add_edge(u, v)
            except ValueError:
                pass
        for u, v in g['edges'][:2]:
            B.add_edge(u, v)                 # duplicates change nothing
    return B


def mk_digraph(g):
    from cnfgen.graphs import DirectedGraph
    if g.get('nx') == 3:
        n = g['n']
        E = [tuple(e) for e in g['edges']]
        dag = all(u < v for u, v in E)
        return _nx_with_a_past(n, E, [(u, v) for u in range(1, n + 1) for v in range(1, n + 1) if (u < v if dag else True)], 'digraph')
    if g.get('nx'):
        import networkx
        N = networkx.DiGraph()
        N.add_nodes_from(range(g['n'], 0, -1))
        N.add_edges_from(reversed([tuple(e) for e in g['edges']]))
        N.name = 'a networkx digraph'
        return N
    D = DirectedGraph(g['n'])
    for u, v in g['edges']:
        D.add_edge(u, v)
    if g.get('hist'):
        n = g['n']
        for (u, v) in [(0, 1), (n + 1, 1), (-1, 2)] + [(w, n + 1) for w in range(1, n + 1)] + [(w, 0) for w in range(1, n + 1)]:
            try:
                D.add_edge(u, v)
            except ValueError:
                pass
        for u, v in g['edges'][:2]:
            D.add_edge(u, v)
    return D


def formula_class(name):
    if name == 'OPB':
        from cnfgen.formula.opb import OPB
        return OPB
    from cnfgen.formula.cnf import CNF
    return CNF


def label_map(F):
    """label -> variable id, from the formula's own report of its variable names."""
    m = {}
    for i, lab in enumerate(F.all_variable_labels(), start=1):
        if lab in m:
            raise KeyError('label %r names two variables (%d and %d)' % (lab, m[lab], i))
        m[lab] = i
    return m


class Vars:
    """Variables addressed through their documented names."""
    def __init__(self, alg, F):
        self.alg = alg
        self.m = label_map(F)

    def __call__(self, fmt, *idx):
        lab = fmt.format(*idx)
        try:
            return self.alg.var(self.m[lab])
        except KeyError:
            raise KeyError('the formula reports no variable named %r (documented name)' % lab)

    def has(self, fmt, *idx):
        return fmt.format(*idx) in self.m


def components(n, edges):
    """Connected components by union-find (independent of cnfgen/networkx)."""
    parent = list(range(n + 1))

    def find(x):
        while parent[x] != x:
            parent[x] = parent[parent[x]]
            x = parent[x]
        return x
    for u, v in edges:
        parent[find(u)] = find(v)
    comps = {}
    for v in range(1, n + 1):
        comps.setdefault(find(v), []).append(v)
    return list(comps.values())


def has_perfect_matching(n, edges):
    adj = {v: set() for v in range(1, n + 1)}
    for u, v in edges:
        adj[u].add(v)
        adj[v].add(u)

    def rec(free):
        if not free:
            return True
        u = min(free)
        for v in adj[u]:
            if v in free and v != u:
                if rec(free - {u, v}):
                    return True
        return False
    return rec(frozenset(range(1, n + 1)))


def max_bip_matching(l, r, edges):
    adj = {u: [v for (a, v) in edges if a == u] for u in range(1, l + 1)}
    match = {}

    def aug(u, seen):
        for v in adj[u]:
            if v in seen:
                continue
            seen.add(v)
            if v not in match or aug(match[v], seen):
                match[v] = u
                return True
        return False
    return sum(1 for u in range(1, l + 1) if aug(u, set()))


def with_networkx_inputs(name_points, every=5):
    """extra points: the graph argument given as a networkx object (documented as accepted by every family), grown from a
    smaller graph, or as an object with a past (refused insertions, earlier use with other content)"""
    out = []
    for i, (name, p) in enumerate(name_points):
        if 'edges' in p and i % every == 2:
            q = dict(p, nx=1 + (i // every) % 3)
            out.append((name, q))
        if 'edges' in p and 'n' in p and 'l' not in p and i % every == 4:
            out.append((name, dict(p, grown=1 + (i // every) % 3)))
        if 'edges' in p and i % every == 0:
            # the graph object has a past: refused insertions, a refused bulk insertion, earlier use with other content
            out.append((name, dict(p, hist=1 + (i // every) % 3)))
    return out


def edit_library_graphs(maxn=6):
    """A caller obtains graphs from every public constructor (class methods, shift/pyramid/tree/path helpers and the graph
    specifications of the command line) and edits the objects it was given in place - removes an edge, adds one, adds two
    vertices.  Those objects belong to the caller: nothing the library builds afterwards may depend on the edits."""
    from cnfgen.graphs import (Graph, DirectedGraph, BipartiteGraph, CompleteBipartiteGraph, bipartite_shift, dag_pyramid,
                               dag_complete_binary_tree, dag_path)
    got = []

    def take(f):
        try:
            got.append(f())
        except Exception:  # noqa: a constructor that refuses these arguments hands out nothing to edit
            pass
    for n in range(0, maxn + 1):
        for f in (Graph.complete_graph, Graph.empty_graph, Graph.star_graph, Graph, DirectedGraph, dag_path, dag_pyramid,
                  dag_complete_binary_tree):
            take(lambda f=f, n=n: f(n))
        for m in range(0, 4):
            take(lambda n=n, m=m: BipartiteGraph(n, m))
            take(lambda n=n, m=m: CompleteBipartiteGraph(n, m))
            take(lambda n=n, m=m: bipartite_shift(n, m, [0, 1][:m]))
    take(Graph.null_graph)
    for G in got:
        _edit_in_place(G)
    return len(got)


def edit_cli_graphs():
    """The same for the graphs named on the command line: grid/torus/complete/empty/path/tree/pyramid/shift specifications
    are built through the command line's own constructor and the objects handed out are edited in place."""
    n = 0
    try:
        from cnfgen.clitools.graph_args import make_graph_from_spec
    except Exception:  # noqa
        return 0
    Graph, DirectedGraph, BipartiteGraph = 'simple', 'dag', 'bipartite'
    specs = [(Graph, ['complete', str(k)]) for k in range(1, 7)] + [(Graph, ['empty', str(k)]) for k in range(1, 7)] + \
            [(Graph, ['grid', a, b]) for a in '123' for b in '123'] + [(Graph, ['torus', a, b]) for a in '34' for b in '34'] + \
            [(Graph, ['grid', '2', '2', '2'])] + \
            [(DirectedGraph, [k, str(h)]) for k in ('path', 'tree', 'pyramid') for h in range(0, 4)] + \
            [(BipartiteGraph, ['complete', a, b]) for a in '123' for b in '123'] + \
            [(BipartiteGraph, ['empty', a, b]) for a in '123' for b in '123'] + \
            [(BipartiteGraph, ['shift', a, b, '1']) for a in '23' for b in '23']
    for cls, spec in specs:
        try:
            G = make_graph_from_spec(cls, list(spec))
        except BaseException:  # noqa: SystemExit / CLIError from a specification this version refuses
            continue
        _edit_in_place(G)
        n += 1
    return n


def _edit_in_place(G):
    from cnfgen.graphs import Graph, DirectedGraph, BipartiteGraph, CompleteBipartiteGraph
    try:
        if isinstance(G, CompleteBipartiteGraph):
            return
        if isinstance(G, BipartiteGraph):
            l, r = G.left_order(), G.right_order()
            for u in range(1, l + 1):
                for v in range(1, r + 1):
                    if not G.has_edge(u, v):
                        G.add_edge(u, v)
                        return
            return
        n = G.number_of_vertices()
        E = list(G.edges())
        if isinstance(G, Graph):
            if E:
                G.remove_edge(*E[0])
                if len(E) > 1:
                    G.remove_edge(E[-1][1], E[-1][0])
            else:
                if n >= 2:
                    G.add_edge(1, n)
            G.update_vertex_number(n + 2)
            G.add_edge(1 if n else 1, n + 2)
        elif isinstance(G, DirectedGraph):
            for u in range(1, n + 1):
                for v in range(u + 1, n + 1):
                    if not G.has_edge(u, v):
                        G.add_edge(u, v)
                        return
            if n >= 2:
                G.add_edge(n, 1)
    except ValueError:
        pass
