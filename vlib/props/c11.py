"""C11 - variable groups map indices to identifiers bijectively, with names aligned (engine X)."""
from ..core import Run
from .. import xengine

SYM_QUICK = ['h_s_block1', 'h_s_block2_1', 'h_s_block2_3', 'h_s_block_inv2', 'h_s_block_inv3', 'h_s_binmap'] + \
    ['h_s_forbid_%d' % m for m in (1, 2, 3, 4, 5, 7, 8)]
SYM_THOROUGH = ['h_s_block1'] + ['h_s_block2_%d' % r for r in range(5)] + ['h_s_block_inv2', 'h_s_block_inv3', 'h_s_binmap'] + \
    ['h_s_forbid_%d' % m for m in (1, 2, 3, 4, 5, 7, 8, 9)] + ['h_s_block3_%d%d' % (a, b) for a in (1, 2, 3) for b in (0, 1, 2, 3)]
ENUM = ['h_e_block2', 'h_e_block3', 'h_e_block4', 'h_e_words', 'h_e_words0', 'h_e_bip22', 'h_e_bip23', 'h_e_bip32', 'h_e_graph3', 'h_e_graph4',
        'h_e_digraph2', 'h_e_digraph3', 'h_e_mapping', 'h_e_mapping_empty', 'h_e_hist2', 'h_e_arity']
ENUM_THOROUGH = ENUM + ['h_e_hist3']


def replay(case):
    if case['harness'].endswith('.t'):
        from .. import tkernels
        return tkernels.replay_case(case)
    return xengine.replay(case)


def run(tier):
    run = Run('C11', tier)
    run.explanation = (
        'Engine T (AST -> z3): BlockOfVariables.__init__/_unsafe_index_to_lit/to_index and the BinaryMappingVariables kernels are re-parsed from the '
        'current source, evaluated symbolically and proved for UNBOUNDED symbolic sizes, offset and index (1-2 symbolic dimensions plus concrete '
        'trailing dimensions; 3 symbolic dimensions partly inconclusive): identifiers contiguous, index->identifier->index on +/- literals, '
        'identifier->index->identifier, lexicographic = identifier order. Engine X. Symbolic harnesses: BlockOfVariables (1-3 dimensions) and BinaryMappingVariables are created on a formula that '
        'already has an UNBOUNDED symbolic number of variables; the index and the sign of the literal are symbolic; z3 confirms '
        'index -> identifier -> index, identifier -> index -> identifier for any symbolic literal (ValueError outside the group), '
        'contiguity, lexicographic = identifier order (closed mixed-radix form), rejection of indices outside the ranges, and that '
        'forbid(i,j) is falsified exactly by the assignments whose bits of i spell j. Enumerative harnesses (inputs concretised '
        'by solver decisions, body untraced): every group type - blocks up to 4 dimensions incl. empty ranges, the four word groups, '
        'bipartite / simple / directed edge groups (both sort orders) and sparse/unary/binary mappings over all graphs of the box - '
        'checked for contiguity, enumeration order, call/to_index/label round trips on +/- literals, every wildcard pattern, refusal of '
        'every out-of-domain index; histories of 2 and 3 group creations / clause insertions / raises of the variable count: '
        'the i-th reported name (also through the "c varname" lines) is the name of variable i.')
    run.bounds = ['symbolic: ranges <=6 (1-dim), <=4 (2-dim), <=3 (3-dim, thorough); binary mappings n<=4, m<=9; offset unbounded',
                  'enumerative: blocks <=4x4 / 3x3x3 / 2x2x3x2, words n<=4,k<=3, graphs B(2,2),B(2,3),B(3,2),G(3),G(4),DG(2),DG(3), mappings n<=3,m<=9',
                  'histories: 2 operations (7 kinds, sizes<=2) and 3 operations']
    run.bounds += ['wrong number of index coordinates: 9 group types x dropped/appended/None coordinate x wildcard', 'lists returned by to_index are edited before the next query']
    run.outside = ['bit width ceil(log2 m) for m>9 (floating point log)', 'blocks with more than 4 dimensions', 'longer histories', 'word groups with k=0 (a call without arguments is ambiguous there by API design)']
    run.assumptions = ['CrossHair models of int arithmetic, range membership and list indexing', 'default label formats as documented in the new_* signatures']
    T = 300 if tier == 'quick' else 1500
    names = (SYM_QUICK if tier == 'quick' else SYM_THOROUGH)
    conds = [xengine.Cond('c11', n, T, symbolic=True) for n in names] + [xengine.Cond('c11', n, T, symbolic=False) for n in (ENUM if tier == 'quick' else ENUM_THOROUGH)]
    part = xengine.run_conditions('c11.x', conds)
    from cnfgen.formula import variables as V
    xengine.encoded(part, V.BlockOfVariables._unsafe_index_to_lit, V.BlockOfVariables.to_index, V.BlockOfVariables.indices,
                    V.BinaryMappingVariables._unsafe_index_to_lit, V.BinaryMappingVariables.to_index, V.BinaryMappingVariables.forbid,
                    V.WordOfIndicesVariables.__init__, V.BipartiteEdgesVariables.to_index, V.BipartiteEdgesVariables.indices,
                    V.GraphEdgesVariables.indices, V.DiGraphEdgesVariables.indices, V.VariablesManager.all_variable_labels,
                    V.VariablesManager._add_variable_group, V.BaseVariableGroup.__call__)
    run.add(part, {'harness': 'c11.x', 'engine': 'X', 'conditions': len(conds)})
    from ..core import Part
    from .. import tkernels
    pt = Part()
    tkernels.run_all(pt, tier, ('block', 'binmap'), 'c11.t')
    run.add(pt, {'harness': 'c11.t', 'engine': 'T (AST -> z3, unbounded integers)'})
    return run.finish()
