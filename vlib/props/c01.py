"""C01 - pigeonhole, matching, counting families encode exactly their principle (engine S)."""
import itertools
from math import factorial

from ..sengine import SHarness, register, shard_fn
from .. import bigpoints
from ..core import Run, run_shards
from .. import gen
from ..gen import Vars, mk_bip, mk_graph, formula_class

CLASSES = ('CNF', 'OPB')


def _cls(p):
    return formula_class(p.get('cls', 'CNF'))


# ------------------------------------------------------------------ PHP
class PHP(SHarness):
    name = 'c01.php'

    def points(self, tier):
        top = 4 if tier == 'quick' else 8
        for m in range(0, top + 1):
            for n in range(0, top + 1):
                if tier != 'quick' and m * n > 42:
                    continue
                for fn in (False, True):
                    for on in (False, True):
                        for c in CLASSES:
                            yield {'m': m, 'n': n, 'functional': fn, 'onto': on, 'cls': c}

    def build(self, p):
        from cnfgen.families.pigeonhole import PigeonholePrinciple
        return PigeonholePrinciple(p['m'], p['n'], functional=p['functional'], onto=p['onto'], formula_class=_cls(p))

    @property
    def funcs(self):
        from cnfgen.families import pigeonhole
        from cnfgen.formula.variables import VariablesManager
        return (pigeonhole.PigeonholePrinciple, VariablesManager.force_complete_mapping,
                VariablesManager.force_injective_mapping, VariablesManager.force_functional_mapping,
                VariablesManager.force_surjective_mapping)

    def nvars(self, p):
        return p['m'] * p['n']

    def spec(self, alg, p, F):
        V = Vars(alg, F)
        m, n = p['m'], p['n']
        P = lambda i, j: V('p_{{{},{}}}', i, j)
        cs = []
        for i in range(1, m + 1):
            cs.append(alg.AtLeast([P(i, j) for j in range(1, n + 1)], 1))
            if p['functional']:
                cs.append(alg.AtMost([P(i, j) for j in range(1, n + 1)], 1))
        for j in range(1, n + 1):
            cs.append(alg.AtMost([P(i, j) for i in range(1, m + 1)], 1))
            if p['onto']:
                cs.append(alg.AtLeast([P(i, j) for i in range(1, m + 1)], 1))
        return alg.And(cs)

    def sat_expected(self, p):
        m, n = p['m'], p['n']
        if p['functional'] and p['onto']:
            return m == n
        if p['onto']:
            return m <= n and (m >= 1 or n == 0)
        return m <= n

    def count_expected(self, p):
        m, n = p['m'], p['n']
        if p['functional'] and not p['onto']:
            return factorial(n) // factorial(n - m) if m <= n else 0
        if p['functional'] and p['onto']:
            return factorial(n) if m == n else 0
        return None


# ------------------------------------------------------------- graph PHP
def _gphp_objects(l, r, E, functional, onto):
    """Independent count of the objects (edge subsets) by plain enumeration."""
    cnt = 0
    for bits in range(1 << len(E)):
        S = [E[i] for i in range(len(E)) if bits >> i & 1]
        ld = [0] * (l + 1)
        rd = [0] * (r + 1)
        for u, v in S:
            ld[u] += 1
            rd[v] += 1
        ok = all(ld[u] >= 1 for u in range(1, l + 1)) and all(rd[v] <= 1 for v in range(1, r + 1))
        if functional:
            ok = ok and all(ld[u] <= 1 for u in range(1, l + 1))
        if onto:
            ok = ok and all(rd[v] >= 1 for v in range(1, r + 1))
        cnt += ok
    return cnt


class GPHP(SHarness):
    name = 'c01.gphp'

    def points(self, tier):
        sizes = gen.BIP_QUICK if tier == 'quick' else gen.BIP_THOROUGH
        for g in gen.bip_box(sizes):
            for fn in (False, True):
                for on in (False, True):
                    for c in CLASSES:
                        if c == 'OPB' and len(g['edges']) % 2:   # thin the OPB half of the box
                            continue
                        yield dict(g, functional=fn, onto=on, cls=c)

    def build(self, p):
        from cnfgen.families.pigeonhole import GraphPigeonholePrinciple
        return GraphPigeonholePrinciple(mk_bip(p), functional=p['functional'], onto=p['onto'], formula_class=_cls(p))

    @property
    def funcs(self):
        from cnfgen.families import pigeonhole
        return (pigeonhole.GraphPigeonholePrinciple,)

    def nvars(self, p):
        return len(p['edges'])

    def spec(self, alg, p, F):
        V = Vars(alg, F)
        E = [tuple(e) for e in p['edges']]
        P = lambda u, v: V('p_{{{},{}}}', u, v)
        cs = []
        for u in range(1, p['l'] + 1):
            inc = [P(a, b) for (a, b) in E if a == u]
            cs.append(alg.AtLeast(inc, 1))
            if p['functional']:
                cs.append(alg.AtMost(inc, 1))
        for v in range(1, p['r'] + 1):
            inc = [P(a, b) for (a, b) in E if b == v]
            cs.append(alg.AtMost(inc, 1))
            if p['onto']:
                cs.append(alg.AtLeast(inc, 1))
        return alg.And(cs)

    def sat_expected(self, p):
        E = [tuple(e) for e in p['edges']]
        if not p['onto']:
            # "satisfiable iff the graph has a matching of size |L|" (docstring)
            return gen.max_bip_matching(p['l'], p['r'], E) == p['l']
        return _gphp_objects(p['l'], p['r'], E, p['functional'], p['onto']) > 0

    def count_expected(self, p):
        return _gphp_objects(p['l'], p['r'], [tuple(e) for e in p['edges']], p['functional'], p['onto'])


# ------------------------------------------------------------ binary PHP
def _bits(n):
    b = 0
    while (1 << b) < n:
        b += 1
    return b


class BPHP(SHarness):
    name = 'c01.bphp'

    def points(self, tier):
        mm, nn = (4, 6) if tier == 'quick' else (6, 12)
        for m in range(0, mm + 1):
            for n in range(0, nn + 1):
                for c in CLASSES:
                    yield {'m': m, 'n': n, 'cls': c}

    def build(self, p):
        from cnfgen.families.pigeonhole import BinaryPigeonholePrinciple
        return BinaryPigeonholePrinciple(p['m'], p['n'], formula_class=_cls(p))

    @property
    def funcs(self):
        from cnfgen.families import pigeonhole
        from cnfgen.formula.variables import BinaryMappingVariables
        return (pigeonhole.BinaryPigeonholePrinciple, BinaryMappingVariables.forbid, BinaryMappingVariables.__init__)

    def refusal_ok(self, p):
        # the binary mapping group documents "n and m must be positive"
        return p['m'] < 1 or p['n'] < 1

    def nvars(self, p):
        return p['m'] * _bits(p['n'])

    def spec(self, alg, p, F):
        V = Vars(alg, F)
        m, n = p['m'], p['n']
        b = _bits(n)
        val = [alg.WSum([(1 << k, V('v({},{})', i, k)) for k in range(b)]) for i in range(1, m + 1)]
        cs = [alg.Lt(v, n) for v in val]
        for i, j in itertools.combinations(range(m), 2):
            cs.append(alg.Ne(val[i], val[j]))
        return alg.And(cs)

    def sat_expected(self, p):
        return p['m'] <= p['n']

    def count_expected(self, p):
        m, n = p['m'], p['n']
        return factorial(n) // factorial(n - m) if m <= n else 0


# ------------------------------------------------------- relativized PHP
class RPHP(SHarness):
    name = 'c01.rphp'

    def points(self, tier):
        top = 3 if tier == 'quick' else 4
        for m in range(0, top + 1):
            for t in range(0, top + 1):
                for n in range(0, top + 1):
                    for c in CLASSES:
                        yield {'m': m, 't': t, 'n': n, 'cls': c}

    def build(self, p):
        from cnfgen.families.pigeonhole import RelativizedPigeonholePrinciple
        return RelativizedPigeonholePrinciple(p['m'], p['t'], p['n'], formula_class=_cls(p))

    @property
    def funcs(self):
        from cnfgen.families import pigeonhole
        return (pigeonhole.RelativizedPigeonholePrinciple,)

    def nvars(self, p):
        return p['m'] * p['t'] + p['t'] * p['n'] + p['t']

    def spec(self, alg, p, F):
        V = Vars(alg, F)
        m, t, n = p['m'], p['t'], p['n']
        P = lambda u, v: V('p_{{{},{}}}', u, v)
        Q = lambda v, w: V('q_{{{},{}}}', v, w)
        R = lambda v: V('r_{{{}}}', v)
        cs = []
        for u in range(1, m + 1):                                   # 3.1a
            cs.append(alg.Or([P(u, v) for v in range(1, t + 1)]))
        for v in range(1, t + 1):                                   # 3.1b
            cs.append(alg.AtMost([P(u, v) for u in range(1, m + 1)], 1))
        for u in range(1, m + 1):                                   # 3.1c
            for v in range(1, t + 1):
                cs.append(alg.Implies(P(u, v), R(v)))
        for v in range(1, t + 1):                                   # 3.1d
            cs.append(alg.Implies(R(v), alg.Or([Q(v, w) for w in range(1, n + 1)])))
        for w in range(1, n + 1):                                   # 3.1e
            for v1, v2 in itertools.combinations(range(1, t + 1), 2):
                cs.append(alg.Not(alg.And(R(v1), R(v2), Q(v1, w), Q(v2, w))))
        return alg.And(cs)

    def sat_expected(self, p):
        return p['m'] <= p['t'] and p['m'] <= p['n']


# -------------------------------------------------------------- counting
class Counting(SHarness):
    name = 'c01.count'

    def points(self, tier):
        top = 7 if tier == 'quick' else 10
        for M in range(0, top + 1):
            for q in range(1, 5):
                for c in CLASSES:
                    yield {'M': M, 'p': q, 'cls': c}

    def build(self, p):
        from cnfgen.families.counting import CountingPrinciple
        return CountingPrinciple(p['M'], p['p'], formula_class=_cls(p))

    @property
    def funcs(self):
        from cnfgen.families import counting
        from cnfgen.formula.linear import CNFLinear
        return (counting.CountingPrinciple, CNFLinear.add_linear)

    def nvars(self, p):
        return len(list(itertools.combinations(range(p['M']), p['p'])))

    def spec(self, alg, p, F):
        V = Vars(alg, F)
        M, q = p['M'], p['p']
        subsets = list(itertools.combinations(range(1, M + 1), q))
        X = {S: V('p_{{{}}}', ','.join(str(x) for x in S)) for S in subsets}
        return alg.And([alg.Exactly([X[S] for S in subsets if i in S], 1) for i in range(1, M + 1)])

    def sat_expected(self, p):
        return p['M'] % p['p'] == 0

    def count_expected(self, p):
        M, q = p['M'], p['p']
        if M % q:
            return 0
        b = M // q
        return factorial(M) // (factorial(q) ** b * factorial(b))


class Matching(SHarness):
    name = 'c01.matching'

    def points(self, tier):
        for g in gen.graph_box(4 if tier == 'quick' else 5):
            for c in CLASSES:
                if c == 'OPB' and len(g['edges']) % 2 == 0 and g['n'] >= 4:
                    continue
                yield dict(g, cls=c)
        if tier != 'quick':
            for i, g in enumerate(gen.graph_box(6, 6)):
                if i % 16 == 5:
                    yield dict(g, cls='CNF')

    def build(self, p):
        from cnfgen.families.counting import PerfectMatchingPrinciple
        return PerfectMatchingPrinciple(mk_graph(p), formula_class=_cls(p))

    @property
    def funcs(self):
        from cnfgen.families import counting
        return (counting.PerfectMatchingPrinciple,)

    def nvars(self, p):
        return len(p['edges'])

    def spec(self, alg, p, F):
        V = Vars(alg, F)
        E = [tuple(e) for e in p['edges']]
        return alg.And([alg.Exactly([V('e_{{{},{}}}', u, v) for (u, v) in E if w in (u, v)], 1)
                        for w in range(1, p['n'] + 1)])

    def sat_expected(self, p):
        return gen.has_perfect_matching(p['n'], [tuple(e) for e in p['edges']])


class SubsetCard(SHarness):
    name = 'c01.subsetcard'

    def points(self, tier):
        sizes = gen.BIP_QUICK if tier == 'quick' else gen.BIP_THOROUGH
        for g in gen.bip_box(sizes):
            for eq in (False, True):
                for c in CLASSES:
                    if c == 'OPB' and len(g['edges']) % 2:
                        continue
                    yield dict(g, eq=eq, cls=c)

    def build(self, p):
        from cnfgen.families.subsetcardinality import SubsetCardinalityFormula
        return SubsetCardinalityFormula(mk_bip(p), equalities=p['eq'], formula_class=_cls(p))

    @property
    def funcs(self):
        from cnfgen.families import subsetcardinality
        from cnfgen.formula.linear import CNFLinear
        return (subsetcardinality.SubsetCardinalityFormula, CNFLinear.add_loose_majority, CNFLinear.add_loose_minority)

    def nvars(self, p):
        return len(p['edges'])

    def spec(self, alg, p, F):
        V = Vars(alg, F)
        E = [tuple(e) for e in p['edges']]
        cs = []
        for u in range(1, p['l'] + 1):
            inc = [V('x_{{{},{}}}', a, b) for (a, b) in E if a == u]
            h = (len(inc) + 1) // 2
            cs.append(alg.Exactly(inc, h) if p['eq'] else alg.AtLeast(inc, h))
        for v in range(1, p['r'] + 1):
            inc = [V('x_{{{},{}}}', a, b) for (a, b) in E if b == v]
            h = len(inc) // 2
            cs.append(alg.Exactly(inc, h) if p['eq'] else alg.AtMost(inc, h))
        return alg.And(cs)


class CliqueColoring(SHarness):
    name = 'c01.cliquecoloring'

    def points(self, tier):
        top = 4 if tier == 'quick' else 5
        for n in range(0, top + 1):
            for k in range(0, 4):
                for c_ in range(0, 4):
                    if tier != 'quick' and n == 5 and (k > 3 or c_ > 2):
                        continue
                    for c in CLASSES:
                        if c == 'OPB' and n >= 4:
                            continue
                        yield {'n': n, 'k': k, 'c': c_, 'cls': c}

    def build(self, p):
        from cnfgen.families.cliquecoloring import CliqueColoring
        return CliqueColoring(p['n'], p['k'], p['c'], formula_class=_cls(p))

    @property
    def funcs(self):
        from cnfgen.families import cliquecoloring
        return (cliquecoloring.CliqueColoring,)

    def nvars(self, p):
        n, k, c = p['n'], p['k'], p['c']
        return n * (n - 1) // 2 + k * n + n * c

    def spec(self, alg, p, F):
        V = Vars(alg, F)
        n, k, c = p['n'], p['k'], p['c']
        E = lambda u, v: V('e_{{{}}}', '%d,%d' % (min(u, v), max(u, v)))
        Q = lambda i, v: V('q_{{{},{}}}', i, v)
        R = lambda v, l: V('r_{{{},{}}}', v, l)
        cs = []
        for i in range(1, k + 1):       # q is a total function [k] -> [n]
            cs.append(alg.Exactly([Q(i, v) for v in range(1, n + 1)], 1))
        for v in range(1, n + 1):       # injective
            cs.append(alg.AtMost([Q(i, v) for i in range(1, k + 1)], 1))
        for i, j in itertools.permutations(range(1, k + 1), 2):   # image is a clique
            for u in range(1, n + 1):
                for v in range(1, n + 1):
                    if u != v and i < j:
                        cs.append(alg.Implies(alg.And(Q(i, u), Q(j, v)), E(u, v)))
        for v in range(1, n + 1):       # r is a total function [n] -> [c]
            cs.append(alg.Exactly([R(v, l) for l in range(1, c + 1)], 1))
        for u, v in gen.pairs(n):       # proper colouring of e
            for l in range(1, c + 1):
                cs.append(alg.Not(alg.And(E(u, v), R(u, l), R(v, l))))
        return alg.And(cs)

    def sat_expected(self, p):
        n, k, c = p['n'], p['k'], p['c']
        return k <= n and (n == 0 or c >= max(k, 1))


HARNESSES = [register(h()) for h in (PHP, GPHP, BPHP, RPHP, Counting, Matching, SubsetCard, CliqueColoring)]


def run(tier):
    run = Run('C01', tier)
    run.explanation = (
        'Engine S (SMT equivalence). For every point of the parameter box the real generator in /repo is '
        'called, its clause/constraint list is encoded in z3 (one Bool per variable) and z3 decides '
        'unsat(Enc(F) xor Spec) where Spec is the documented combinatorial principle written over the '
        'documented variable names; unsat = the formula and the principle agree on all 2^n assignments. '
        'Satisfiability is compared with an independently computed criterion (closed form / matching '
        'algorithm / object enumeration) and, where a closed form exists, the number of models with the '
        'number of objects (z3 model enumeration with blocking clauses). Oracle self-test: one-literal and '
        'one-row mutants of the encoding must be told apart from Spec.')
    run.bounds = ['php: pigeons,holes<=%d x functional x onto x {CNF,OPB}' % (4 if tier == 'quick' else 6),
                  'gphp/subsetcard: all bipartite graphs B(l,r) for sizes %s' % (gen.BIP_QUICK if tier == 'quick' else gen.BIP_THOROUGH),
                  'bphp: pigeons<=%d, holes<=%d' % ((4, 6) if tier == 'quick' else (5, 9)),
                  'rphp: m,t,n<=%d' % (3 if tier == 'quick' else 4),
                  'count: M<=%d, p<=4' % (7 if tier == 'quick' else 9),
                  'matching: all simple graphs on <=%d vertices' % (4 if tier == 'quick' else 5),
                  'cliquecoloring: n<=%d, k,c<=3' % (4 if tier == 'quick' else 5)]
    run.bounds += ["every fifth graph point is repeated with the graph given as a networkx object (reversed node/edge order, int and str 'bipartite' attributes), as a graph grown by update_vertex_number (by 2, by 3, from empty) and as a graph object with a past (refused insertions, refused bulk insertion, earlier use with one edge elsewhere)", 'size-threshold points of vlib/bigpoints.py (parameters around 10/11, 16/17, 32/33; satisfiable instances; equivalence only, 15 s solver budget, undecided ones counted as big_inconclusive)', 'one third of the points is built a second time, one third again after three calls with other arguments: all builds must agree']
    run.outside = ['parameters and graphs beyond the boxes and the threshold points']
    run.assumptions = ['variable meaning is taken from the names reported by all_variable_labels() (alignment is C11)',
                       'z3 4.x/5.x Pb constraints and Int arithmetic are sound',
                       'OPB rows are read as [(coeff,lit)..., op, degree] as documented in BaseOPB']
    for h in HARNESSES:
        items = [(h.name, p) for p in h.points(tier)]
        items += [(h.name, p) for p in bigpoints.big_points(h.name, tier)]
        items += gen.with_networkx_inputs(items)
        part = run_shards(shard_fn, items)
        if part.counts.get('selftest_mutants', 0) and not part.counts.get('selftest_distinguished', 0):
            part.errors.append('%s: oracle self-test distinguished none of the mutants' % h.name)
        run.add(part, {'harness': h.name, 'points': len(items)})
    return run.finish()
