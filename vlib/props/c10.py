"""C10 - every formula mentions only variables it owns, and allocates them freshly.

Engine X (enumerative): histories of 2 and 3 variable-group creations / clause insertions / count raises.
Monitor sweep (concrete runs, not solver-decided, reported separately): every instance of the boxes of C01-C05 and
C13 plus one documented example size per family is rebuilt with wrappers around clause insertion and group
creation that record the largest variable mentioned so far and fire if a group is handed an identifier at or below
it; literals must lie in 1..n and n must equal the documented closed form.
"""
import os

from ..core import Run, Part, run_shards
from .. import xengine
from ..alg import literals_of, rows_of


def replay(case):
    if case['harness'].startswith('c10.x'):
        return xengine.replay(case)
    name, p = case['input']['harness'], case['input']['params']
    msg = shuffle_point(p) if name == 'c10.shuffle' else monitor_point(name, p)
    return (msg is not None), (msg or 'no violation')


class Monitor:
    """Installed around one generator run (no change to /repo: wrappers are set and removed by the harness)."""
    def __init__(self):
        self.fired = []

    def __enter__(self):
        from cnfgen.formula.basecnf import BaseCNF
        from cnfgen.formula.baseopb import BaseOPB
        from cnfgen.formula.variables import VariablesManager
        self.saved = (BaseCNF.add_clause, BaseOPB.add_clause, BaseOPB.add_constraint, VariablesManager._add_variable_group)
        mon = self
        seen = {}

        def note(F, lits):
            m = seen.get(id(F), 0)
            for l in lits:
                if isinstance(l, int) and abs(l) > m:
                    m = abs(l)
            seen[id(F)] = m

        def cnf_add(F, clause, check=True, _o=self.saved[0]):
            clause = list(clause)
            note(F, clause)
            return _o(F, clause, check=check)

        def opb_add(F, clause, check=True, _o=self.saved[1]):
            clause = list(clause)
            note(F, clause)
            return _o(F, clause, check=check)

        def opb_con(F, constraint, check=True, _o=self.saved[2]):
            note(F, [l for (_, l) in constraint[:-2]])
            return _o(F, constraint, check=check)

        def add_group(VM, vg, _o=self.saved[3]):
            F = VM._formula
            if len(vg) > 0 and vg[0] <= seen.get(id(F), 0):
                mon.fired.append('group starting at %d created although variable %d was already mentioned' % (vg[0], seen[id(F)]))
            return _o(VM, vg)
        BaseCNF.add_clause, BaseOPB.add_clause, BaseOPB.add_constraint, VariablesManager._add_variable_group = cnf_add, opb_add, opb_con, add_group
        return self

    def __exit__(self, *a):
        from cnfgen.formula.basecnf import BaseCNF
        from cnfgen.formula.baseopb import BaseOPB
        from cnfgen.formula.variables import VariablesManager
        BaseCNF.add_clause, BaseOPB.add_clause, BaseOPB.add_constraint, VariablesManager._add_variable_group = self.saved
        return False


def harnesses():
    from . import c01, c02, c03, c04, c05
    out = {}
    for mod in (c01, c02, c03, c04, c05):
        for h in mod.HARNESSES:
            out[h.name] = h
    return out


REALISTIC = [('c01.php', {'m': 60, 'n': 40, 'functional': True, 'onto': True, 'cls': 'CNF'}), ('c01.php', {'m': 100, 'n': 40, 'functional': False, 'onto': False, 'cls': 'OPB'}),
             ('c01.bphp', {'m': 40, 'n': 37, 'cls': 'CNF'}), ('c01.rphp', {'m': 12, 't': 10, 'n': 9, 'cls': 'CNF'}), ('c01.count', {'M': 12, 'p': 3, 'cls': 'CNF'}),
             ('c01.cliquecoloring', {'n': 10, 'k': 4, 'c': 3, 'cls': 'CNF'}), ('c03.op', {'n': 14, 'plant': False, 'total': False, 'smart': False, 'knuth': 0}),
             ('c03.op', {'n': 14, 'plant': False, 'total': False, 'smart': True, 'knuth': 0}), ('c03.ram', {'s': 3, 'k': 4, 'N': 9, 'cls': 'CNF'}),
             ('c03.vdw', {'N': 30, 'ks': [3, 4, 3], 'cls': 'CNF'}), ('c03.ptn', {'N': 400}), ('c03.cpls', {'a': 4, 'b': 4, 'c': 4})]


def monitor_point(name, p):
    h = harnesses()[name]
    try:
        with Monitor() as mon:
            F = h.build(p)
    except ValueError:
        return None
    n = F.number_of_variables()
    bad = [l for l in literals_of(F) if not isinstance(l, int) or isinstance(l, bool) or l == 0 or abs(l) > n]
    if bad:
        return 'literals %s outside 1..%d' % (bad[:5], n)
    if h.nvars is not None:
        exp = h.nvars(p)
        if exp is not None and exp != n:
            return 'number_of_variables()=%d, documented %d' % (n, exp)
    if len(list(F.all_variable_labels())) != n:
        return 'number of variable names differs from the number of variables'
    if mon.fired:
        return mon.fired[0]
    return None


def shuffle_point(p):
    """Shuffle (library, fixed and seeded) keeps the documented number of variables and the literal range"""
    import random
    from cnfgen.transformations.shuffle import Shuffle
    from cnfgen.transformations.substitutions import XorSubstitution
    from . import c05
    F = c05.mk_input(p['f'])
    n = F.number_of_variables()
    if p['mode'] == 'fixed':
        G = Shuffle(F, 'fixed', 'fixed', 'fixed')
    else:
        random.seed(p['mode'])
        G = Shuffle(F)
    for H, want in ((G, n), (XorSubstitution(G, 2), 2 * n)):
        if H.number_of_variables() != want:
            return 'number_of_variables()=%d after shuffling a formula with %d variables (expected %d)' % (H.number_of_variables(), n, want)
        if any(l == 0 or abs(l) > want for l in literals_of(H)):
            return 'literal out of range after shuffle'
    return None


def shard(items, part):
    for name, p in items:
        part.counts['monitored_instances'] += 1
        try:
            msg = shuffle_point(p) if name == 'c10.shuffle' else monitor_point(name, p)
        except Exception as e:  # noqa
            msg = None
            part.counts['monitor_skipped_exception'] += 1
        if msg:
            part.case('c10.mon', 'invariant', {'harness': name, 'params': p}, msg)


def run(tier):
    names = sorted(xengine._func_lines(os.path.join(xengine.XH_DIR, 'c10.py')))
    run = Run('C10', tier)
    run.explanation = (
        'Engine X (enumerative): histories of two and three operations with solver-chosen kinds (named variable, block, combinations, '
        'unary / sparse / binary mapping, graph edges, a clause mentioning a variable beyond the count, a raise of the count, add_linear / '
        'cardinality / add_parity on the last group) and sizes 0..2 on CNF and OPB with the public defaults: after every step every '
        'literal is in 1..number_of_variables(), the count never decreases, every identifier handed out by a new_* call is larger than '
        'everything mentioned or declared before, the group is contiguous and the count grows by exactly its size. Monitor sweep '
        '(concrete, NOT solver-decided, listed separately): every instance of the C01-C05 boxes and a documented example size per family '
        'is rebuilt with run-time wrappers (installed by the harness, no change to /repo) around clause insertion and group creation that '
        'fire when a group receives an identifier at or below a variable already mentioned; literal ranges and documented variable counts '
        'are checked on the result. This is the property where the solver contributes least: the index arithmetic is decided under C11.')
    run.bounds = ['histories: 2 operations (15 kinds x sizes 0..2 each) and 3 operations', 'monitor: the %s boxes of C01, C02, C03, C04, C05 (%s) and 12 larger instances' % (tier, 'every point' if tier != 'quick' else 'every third point')]
    run.bounds += ['history steps include bulk insertion (list, tuple, generator, constructor), reuse/overwriting of the lists passed in, and a lazy clause generator that creates a variable and a block on the same formula while add_clauses_from / add_constraints_from consumes it']
    run.outside = ['clauses inserted with check=False by user code (documented as trusting the caller)', 'longer histories']
    run.assumptions = ['monitor wrappers see every insertion because all builders go through add_clause / add_constraint / _add_variable_group']
    T = 300 if tier == 'quick' else 1200
    sel = [n for n in names if n.startswith('h_e_hist2_')] + ([n for n in names if n.startswith('h_e_hist3_')] if tier != 'quick' else ['h_e_hist3_1', 'h_e_hist3_5', 'h_e_hist3_11', 'h_e_hist3_14'])
    sel.append('h_e_twice')
    conds = [xengine.Cond('c10', n, T, symbolic=False) for n in sel]
    part = xengine.run_conditions('c10.x', conds)
    from cnfgen.formula import basecnf, baseopb, variables
    xengine.encoded(part, basecnf.BaseCNF.add_clause, basecnf.BaseCNF._check_and_update, basecnf.BaseCNF.update_variable_number, baseopb.BaseOPB._check_and_update,
                    variables.VariablesManager._add_variable_group, variables.BaseVariableGroup.__init__)
    run.add(part, {'harness': 'c10.x', 'engine': 'X (enumerative)', 'conditions': len(conds)})
    items = []
    for name, h in harnesses().items():
        pts = list(h.points(tier))
        step = 3 if tier == 'quick' else 1
        items += [(name, p) for p in pts[::step]]
    items += REALISTIC
    from . import c05
    items += [('c10.shuffle', {'f': f, 'mode': m}) for f in c05.small_cnfs()[::(4 if tier == 'quick' else 1)] for m in ('fixed', 0, 1)]
    p2 = run_shards(shard, items)
    run.add(p2, {'harness': 'c10.mon', 'engine': 'run-time monitor on concrete runs (not solver-decided)', 'points': len(items)})
    return run.finish()
