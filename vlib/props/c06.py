"""C06 - DIMACS output round-trips and the DIMACS reader never misreads (engine X, enumerative)."""
from ..core import Run
from .. import xengine


def replay(case):
    return xengine.replay(case)


def run(tier):
    run = Run('C06', tier)
    run.explanation = (
        'Engine X in enumerative mode (probe result recorded in DESIGN.md: symbolic text through the parsers is out of reach; '
        'even one symbolic character does not confirm). Writer->reader: every formula shape with <=2 clauses of width <=2 over '
        'literals +-1..3 (all 43 first clauses), declared extra variables, header / varnames flags, and - for five fixed shapes - '
        'every description of a menu with unusual texts (empty, non-ASCII, embedded newline followed by "1 2 0", "p cnf 9 9", '
        'carriage return, vertical tab) and unusual variable-name formats: an INDEPENDENT strict DIMACS reader written for the check '
        'must accept the text, find the true counts on the single problem line, only comments elsewhere, and return exactly the '
        'clauses; CNF.from_file must return the same. Reader: every text of <=3 (thorough: 4) lines drawn from a 20-line menu '
        '(blank, comments, good and bad problem lines, clause lines with zero / out-of-range / non-numeric / trailing tokens, a clause '
        'split over lines, two clauses on a line, a second problem line): the result equals the strict reader\'s, or ValueError exactly '
        'when the strict reader rejects; no other exception type.')
    run.bounds = ['round trip: 43 x 6 clause pairs x m<=2; 5 shapes x 11 descriptions x 5 label formats', 'reader: every placement of blank / newline separators between the 9 tokens of a 3-clause body (2^8 placements, narrow and wide); round trips of formulas with 0..4097 clauses around the 256/1024/2048/4096 boundaries', 'reader: 20-line menu, <=%d lines, with/without final newline' % (3 if tier == 'quick' else 4)]
    run.bounds += ['two texts read one after the other in one process (8 failing/valid first texts x 3-line menu texts)', 'encode - extend - encode again: 12 formulas x 12x12 ways of growing (clauses, variables, groups, constraints, and constraints that raise the variable count without a clause), label format derived from the indices, to_dimacs() and to_file(), strict parse and read back', 'files given by NAME through a byte-level in-memory open(): 4 formulas x 6 label formats (non-ASCII) x varnames x header, dimacs/opb/latex writers and the dimacs reader']
    run.outside = ['texts outside the menu (symbolic strings are bug-hunting only with this tool)', 'tokens that Python int() accepts beyond plain decimal (+1, 1_0, unicode digits)', 'file-system failures']
    run.assumptions = ['the strict reader is the meaning of "the clauses written in the text"', 'CrossHair exhaustiveness accounting over the finite menus']
    T = 300 if tier == 'quick' else 1500
    names = ['h_e_shape', 'h_e_texts', 'h_e_separators', 'h_e_big', 'h_e_two_reads', 'h_e_named_file', 'h_e_dimacs_extend'] + ['h_e_read3_%d' % i for i in range(20)]
    if tier != 'quick':
        names += ['h_e_read4_%d' % i for i in range(20)]
    conds = [xengine.Cond('c06', n, T, symbolic=False) for n in names]
    part = xengine.run_conditions('c06.x', conds)
    from cnfgen.utils import parsedimacs
    xengine.encoded(part, parsedimacs.to_dimacs_file, parsedimacs.parse_dimacs, parsedimacs.from_dimacs_file)
    run.add(part, {'harness': 'c06.x', 'engine': 'X (enumerative)', 'conditions': len(conds)})
    return run.finish()
