"""C18 - any command line ends in a usable formula or a clean, shielded error (engine X, enumerative)."""
import re
from ..core import Run
from .. import xengine


def replay(case):
    return xengine.replay(case)


def run(tier):
    import os
    names = sorted(xengine._func_lines(os.path.join(xengine.XH_DIR, 'c18.py')))
    pre = 'h_q_' if tier == 'quick' else 'h_t_'
    sel = [n for n in names if n.startswith(pre)]
    if tier == 'quick':
        # pbgen shares the helpers with cnfgen: one template in six is enough on every change
        sel = [n for n in sel if not n.endswith('_pbgen') or int(re.search(r'_t(\d+)_', n).group(1)) % 6 == 0]
    sel += ['h_e_cnfshuffle', 'h_e_kthlist2pebbling', 'h_e_graphfiles', 'h_e_stdin_tools', 'h_e_postparse', 'h_e_fallbacks', 'h_e_oserrors', 'h_e_latex_pages']
    run = Run('C18', tier)
    run.explanation = (
        'Engine X in enumerative mode over a wide argv grammar, through the real main() of the four tools (sys.argv, stdout, stderr, '
        'stdin replaced; SystemExit caught): 74 sub-command templates whose numeric slots take every value of a solver-chosen menu - '
        'numbers below, at and above the legal ranges (-2..7) and the tokens x, 1.5, nan, the empty string, -T, an unknown option, 1e1, a '
        'construction name, a missing file, a file of the wrong kind - plus (thorough) a missing last argument, an extra argument and the '
        'run without -q; cnfshuffle and kthlist2pebbling with 9 well- and ill-formed inputs (file and stdin) x option lists; cnfgen/pbgen '
        'reading 9 well- and ill-formed graph files per format. Post: exactly one of (a) exit 0 and stdout is accepted by the strict '
        'reader of the chosen format (C06/C12 readers; latex: balanced align blocks), (b) help/version text with exit 0, (c) non-zero '
        'exit, stdout empty, stderr non-empty with every line starting with a comment marker of the tool (c, *, %). Any exception '
        'escaping main() other than SystemExit is reported with the argv the solver chose.')
    run.bounds = ['74 templates x 18 tokens per slot (second/third slot: %s)' % ('6/3 tokens, no missing/extra argument' if tier == 'quick' else '18/6 tokens; missing, extra argument, verbose'),
                  'random sub-commands run under one deterministic draw stream']
    run.bounds += ['26 dense random requests x 5 deterministic draw streams that reach the fallback code (restart chains that never end under a constant stream are cut)', '22 file-naming command lines x 5 kinds of OSError raised by a stubbed open()', '12 LaTeX command lines with 0, 34, 35, 36, 45, 70 rows against a strict page reader']
    run.outside = ['argv outside the grammar (the space of all strings is not enumerable; symbolic str argv does not confirm with this tool)', 'interactive terminals (isatty), pager, signals']
    run.assumptions = ['stub: setup_SIGINT -> no-op; sys.stdin/stdout/stderr -> string buffers; builtins.open -> virtual input files for the malformed-file cases',
                       'the strict readers of C06/C12 define "a complete formula of the chosen format"']
    T = 400 if tier == 'quick' else 1500
    conds = [xengine.Cond('c18', n, T, symbolic=False) for n in sel]
    part = xengine.run_conditions('c18.x', conds)
    import sys
    import importlib
    for m in ('cnfgen', 'pbgen', 'cnfshuffle', 'kthlist2pebbling', 'cmdline', 'msg'):
        importlib.import_module('cnfgen.clitools.' + m)
    M = sys.modules
    xengine.encoded(part, M['cnfgen.clitools.cnfgen'].main, M['cnfgen.clitools.cnfgen'].cli, M['cnfgen.clitools.pbgen'].main, M['cnfgen.clitools.pbgen'].cli,
                    M['cnfgen.clitools.cnfshuffle'].main, M['cnfgen.clitools.kthlist2pebbling'].main, M['cnfgen.clitools.cmdline'].CLIParser.error,
                    M['cnfgen.clitools.cmdline'].positive_int, M['cnfgen.clitools.cmdline'].nonnegative_int, M['cnfgen.clitools.cmdline'].compose_two_parsers,
                    M['cnfgen.clitools.msg'].error_msg, M['cnfgen.clitools.msg'].msg_prefix)
    run.add(part, {'harness': 'c18.x', 'engine': 'X (enumerative)', 'conditions': len(conds)})
    return run.finish()
