"""C14 - graph files round-trip in every supported format; bad files are rejected (engine X, enumerative)."""
from ..core import Run
from .. import xengine


def replay(case):
    return xengine.replay(case)


def names(tier):
    out = ['h_e_rt_simple', 'h_e_rt_dag', 'h_e_rt_digraph', 'h_e_rt_bip', 'h_e_rt_bip33',
           'h_e_rt_big_simple', 'h_e_rt_big_dag', 'h_e_rt_big_digraph', 'h_e_rt_big_bip', 'h_e_write_mutate_write', 'h_e_rt_complete_bip', 'h_e_read_write_read',
           'h_e_kth2', 'h_e_dim2', 'h_e_mat2', 'h_e_len01', 'h_e_mat3', 'h_e_bip_handwritten', 'h_e_simple_handwritten', 'h_e_from_file_named',
           'h_e_two_reads_mat', 'h_e_two_reads_kth', 'h_e_two_reads_dim']
    out += ['h_e_kth3_%d_%d' % (t, g) for t in range(4) for g in range(4)]
    out += ['h_e_dim3_%d_%d' % (t, g) for t in range(3) for g in range(3)]
    if tier != 'quick':
        out += ['h_e_kth4_%d_%d' % (t, a) for t in range(4) for a in range(20)]
        out += ['h_e_dim4_%d_%d' % (t, a) for t in range(3) for a in range(18)]
        out += ['h_e_mat4_%d' % a for a in range(15)]
    return out


def run(tier):
    run = Run('C14', tier)
    run.explanation = (
        'Engine X in enumerative mode. Round trips: every simple graph on <=4 vertices, every DAG on <=4, every digraph (loops '
        'included) on <=3, every bipartite graph with sides <=3x3 - isolated vertices and empty sides included - given by '
        'solver-chosen edge bits, plus graphs on 12 and 13 vertices built from 8 solver-chosen edges of a skeleton that touches '
        'vertices 9..12 (label-sorting hazard), written with writeGraph in every format supported for the type (kthlist, gml, dot, '
        'dimacs / matrix) and read back with readGraph: same vertex count, same left/right split, same edges. Readers: every text of '
        '<=3 (thorough: 4) lines drawn from per-format menus (20 kthlist lines, 18 dimacs lines, 15 matrix lines: blank and comment '
        'lines, missing / second / negative / non-numeric size lines, vertex lines that are decreasing, repeated, out of range, '
        'unterminated, self-loops, edges before the preamble, wrong counts, extra tokens), for each graph type, is compared with '
        'independent strict reference readers: equal graph, or ValueError exactly when the reference rejects - any other exception '
        'type is a violation; a dag file is accepted only if every edge goes from a lower to a higher vertex. gml/dot go through '
        'networkx/pydot and are executed concretely.')
    run.bounds = ['hand-written bipartite gml/dot texts: sides <=3x2, every edge set, 3 node declaration orders, either orientation of the first 2 edges', 'round trips: G(<=4), D(<=4), DG(<=3), B(<=3,<=3), 12-13 vertex skeleton graphs x all formats', 'readers: <=%d menu lines, with and without final newline' % (3 if tier == 'quick' else 4)]
    run.bounds += ['CompleteBipartiteGraph sides <=4 in all four formats', 'write - change the graph (add/remove edge, grow) - write in any format - read back', 'dimacs/kthlist texts with 0-3 comment lines read, written in every format, read back', 'two reads in one call: any text of three menu lines (mostly rejected), then a valid text of the same format (matrix, kthlist, dimacs) that must be read exactly']
    run.outside = ['arbitrary gml/dot text (networkx/pydot parsers are outside the repository)', 'texts outside the menus', 'dimacs lines that are neither c/p/e (behaviour unspecified; only "no crash" is required)']
    run.assumptions = ['the reference readers define "a graph consistent with the text"', 'CrossHair exhaustiveness accounting']
    T = 400 if tier == 'quick' else 1500
    conds = [xengine.Cond('c14', n, T, symbolic=False) for n in names(tier)]
    part = xengine.run_conditions('c14.x', conds)
    from cnfgen import graphs as G
    xengine.encoded(part, G.readGraph, G.writeGraph, G._kthlist_parse, G._read_bipartite_kthlist, G._read_nonbipartite_kthlist,
                    G._read_graph_dimacs_format, G._read_graph_matrix_format, G._write_graph_kthlist_nonbipartite,
                    G._write_graph_kthlist_bipartite, G._write_graph_dimacs_format, G._write_graph_matrix_format, G.normalize_networkx_labels)
    run.add(part, {'harness': 'c14.x', 'engine': 'X (enumerative)', 'conditions': len(conds)})
    return run.finish()
