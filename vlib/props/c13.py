"""C13 - random k-CNF and k-XOR formulas have exactly the promised shape.

Engine X + RNG stub: all outcomes of the draws within a tape bound.  Engine S on the returned formula for real
seeds (sampled seeds, exhaustive (k,n,m) box): shape, z3-equivalence of each XOR block with a parity, and the
error boundary at exactly the number of compatible clauses / parities (which forces the dense fallback).
"""
import itertools
import time

from ..alg import Z3Alg, PyAlg, enc_rows
from ..core import Run, run_shards
from .. import xengine

XNAMES = ['h_e_kcnf_11', 'h_e_kcnf_12', 'h_e_kcnf_22', 'h_e_kcnf_13', 'h_e_kcnf_23', 'h_e_kcnf_deg',
          'h_e_kxor_11', 'h_e_kxor_12', 'h_e_kxor_22', 'h_e_kxor_23', 'h_e_kxor_deg']


def planted_sets(n, tier):
    """sets of <= 2 planted total assignments"""
    out = [[]]
    if n == 0:
        return out + [[[]]]
    full = [[(v if bits >> (v - 1) & 1 else -v) for v in range(1, n + 1)] for bits in range(1 << n)]
    pick = full if n <= 2 or tier != 'quick' else [full[0], full[-1], full[len(full) // 3]]
    out += [[a] for a in pick]
    out += [[a, b] for a, b in itertools.combinations(pick[:4], 2)]
    return out


def compatible(kind, k, n, planted):
    cnt = 0
    for dom in itertools.combinations(range(1, n + 1), k):
        if kind == 'cnf':
            for pol in itertools.product([1, -1], repeat=k):
                cl = [p * v for p, v in zip(pol, dom)]
                if all(any(l in a for l in cl) for a in planted):
                    cnt += 1
        else:
            for b in (0, 1):
                if all(sum(1 for v in dom if v in a) % 2 == b for a in planted):
                    cnt += 1
    return cnt


def points(tier):
    K = 3
    N = 4 if tier == 'quick' else 5
    seeds = (0, 1, 'zeros', 'big', 'alt', 'count', 'mix') if tier == 'quick' else (0, 1, 2, 3, 7, 11, 'zeros', 'big', 'alt', 'count', 'mix')
    for kind in ('cnf', 'xor'):
        for k in range(0, K + 1):
            for n in range(0, N + 1):
                for pl in planted_sets(n, tier):
                    if k > n:
                        yield {'kind': kind, 'k': k, 'n': n, 'm': 1, 'planted': pl, 'seed': 0}
                        yield {'kind': kind, 'k': k, 'n': n, 'm': 0, 'planted': pl, 'seed': 0}
                        continue
                    mx = compatible(kind, k, n, pl)
                    ms = sorted({0, 1, mx // 2, mx - 1, mx, mx + 1, mx + 5} - {-1})
                    if mx <= 6:
                        ms = list(range(0, mx + 2))
                    for m in ms:
                        for seed in seeds:
                            if m > mx and seed != seeds[0]:
                                continue
                            yield {'kind': kind, 'k': k, 'n': n, 'm': m, 'planted': pl, 'seed': seed}


STREAMS = {'zeros': lambda i: 0, 'big': lambda i: 10 ** 6 - 1, 'alt': lambda i: (i // 3) % 2, 'count': lambda i: i // 2,
           'mix': lambda i: (i * 7 + 3) % 5}


def build(p):
    from cnfgen.families import randomformulas, randomkxor
    mod = randomformulas if p['kind'] == 'cnf' else randomkxor
    fn = mod.RandomKCNF if p['kind'] == 'cnf' else mod.RandomKXOR
    if isinstance(p['seed'], str):
        # deterministic adversarial stream instead of the Mersenne Twister: repeated / slowly varying draws make the
        # rejection phase give up with a partial result, so the dense fallback runs on every size
        from ..xh.xutil import Tape, FakeRandom
        old = mod.random
        mod.random = FakeRandom(Tape(concrete=STREAMS[p['seed']], limit=10 ** 7))
        try:
            return fn(p['k'], p['n'], p['m'], planted_assignments=[list(a) for a in p['planted']])
        finally:
            mod.random = old
    conv = [list, tuple, set, frozenset][(p['k'] + p['n'] + p['m']) % 4]      # any collection of literals is an assignment,
    order = reversed if (p['k'] + p['n'] + p['m'] + p['seed']) % 3 else list            # in any order
    inner = [conv(order(list(a))) for a in p['planted']]
    sel = (p['k'] + 2 * p['n'] + p['m'] + p['seed']) % 4          # and the collection of assignments is any iterable that can be read again
    if sel == 1:
        outer = tuple(inner)
    elif sel == 2:
        outer = {i: a for i, a in enumerate(inner)}.values()
    elif sel == 3 and conv in (tuple, frozenset):
        outer = set(inner)
    else:
        outer = inner
    return fn(p['k'], p['n'], p['m'], seed=p['seed'], planted_assignments=outer)


def judge(p, alg=None, part=None):
    """Returns None if fine, else a message.  With alg (z3) the XOR blocks are decided semantically."""
    kind, k, n, m, planted = p['kind'], p['k'], p['n'], p['m'], p['planted']
    mx = compatible(kind, k, n, planted) if k <= n else 0
    should_fail = k > n or m > mx
    try:
        F = build(p)
    except ValueError as e:
        return None if should_fail else 'ValueError although k<=n and m=%d <= %d compatible: %s' % (m, mx, e)
    except Exception as e:  # noqa
        return '%s: %s' % (type(e).__name__, e)
    if should_fail:
        return 'a formula was returned although %s' % ('k > n' if k > n else 'm=%d exceeds the %d compatible %s' % (m, mx, 'clauses' if kind == 'cnf' else 'parities'))
    cls = [list(c) for c in F.clauses()]
    if F.number_of_variables() != n:
        return 'number of variables %d != n' % F.number_of_variables()
    if kind == 'cnf':
        if len(cls) != m:
            return '%d clauses, %d requested' % (len(cls), m)
        seen = set()
        for c in cls:
            vs = [abs(l) for l in c]
            if len(c) != k or len(set(vs)) != k or any(not (1 <= v <= n) for v in vs):
                return 'clause %s is not over k distinct variables' % c
            key = tuple(sorted(c, key=abs))
            if key in seen:
                return 'clause %s occurs twice' % c
            seen.add(key)
            for a in planted:
                if not any(l in a for l in c):
                    return 'clause %s falsified by planted assignment %s' % (c, a)
        return None
    # xor
    if k == 0:
        if any(c for c in cls) or len(cls) > m or m > 2 or (m == 2 and len(cls) != 1):
            return 'degenerate 0-xor has wrong shape'
        return None
    size = 1 << (k - 1)
    if len(cls) != m * size:
        return '%d clauses, expected %d parities x %d clauses' % (len(cls), m, size)
    pars = []
    for i in range(m):
        block = cls[i * size:(i + 1) * size]
        X = sorted({abs(l) for c in block for l in c})
        if len(X) != k or any(len(c) != k for c in block):
            return 'block %d is not over exactly k variables' % i
        b = None
        if alg is not None:
            z3 = alg.z3
            enc = enc_rows(alg, block, False)
            for cand in (0, 1):
                s = z3.Solver()
                s.add(z3.Xor(enc, alg.Iff(alg.Xor([alg.var(v) for v in X]), bool(cand))))
                t = time.time()
                r = str(s.check())
                part.solver_s += time.time() - t
                part.counts[r] += 1
                if r == 'unsat':
                    b = cand
        else:
            for cand in (0, 1):
                ok = True
                for bits in itertools.product([False, True], repeat=k):
                    a = {v: bits[j] for j, v in enumerate(X)}
                    val = all(any((a[abs(l)] if l > 0 else not a[abs(l)]) for l in c) for c in block)
                    if val != (sum(bits) % 2 == cand):
                        ok = False
                if ok:
                    b = cand
        if b is None:
            return 'block %d (%s) is not a parity constraint on %s' % (i, block, X)
        pars.append((tuple(X), b))
    if len(set(pars)) != m:
        return 'the parity constraints are not pairwise distinct: %s' % pars
    for a in planted:
        for X, b in pars:
            if sum(1 for v in X if v in a) % 2 != b:
                return 'parity %s=%d violated by planted assignment' % (X, b)
    return None


_HISTORY = []


def shard(items, part):
    alg = Z3Alg()
    from cnfgen.families import randomformulas, randomkxor
    part.encoded(randomformulas.RandomKCNF, randomformulas.sample_clauses, randomformulas.all_clauses,
                 randomkxor.RandomKXOR, randomkxor.sample_parities, randomkxor.all_good_parities)
    for p in items:
        part.counts['instances'] += 1
        msg = judge(p, alg, part)
        _HISTORY.append(p)
        if msg:
            part.case('c13.s', 'shape', p, msg)
            if len(part.cases) <= 6:
                part.cases[-1]['history'] = list(_HISTORY[:-1])   # the calls this process made before (see replay)
        else:
            part.counts['valid'] += 1
            if p['m'] > 0 and p['k'] <= p['n']:
                part.nontrivial.add(repr(sorted(p.items())))
            part.sample(p)


def replay(case):
    if case['harness'].startswith('c13.x'):
        return xengine.replay(case)
    msg = judge(case['input'])
    if msg is None and case.get('history'):
        # not in a fresh process: repeat the generator calls the shard had made before (state kept between calls)
        for q in case['history']:
            try:
                build(q)
            except Exception:  # noqa
                pass
        msg = judge(case['input'])
        if msg is not None:
            msg = 'only after the %d generator calls made earlier in the same process: %s' % (len(case['history']), msg)
    return (msg is not None), (msg or 'shape conditions hold')


def run(tier):
    run = Run('C13', tier)
    run.exhaustive = False     # contains sampled parts (seeds / draw streams / a command table), see explanation
    run.decided_keys = run.decided_keys + ('valid',)
    run.explanation = (
        'Engine X with the random module of randomformulas/randomkxor replaced by a nondeterministic stub: ALL outcomes of '
        'random.sample / choice / randint are explored (draws minted lazily as solver-chosen values) up to a bound on the number of '
        'non-trivial draws; planted total assignments are given by solver-chosen sign bits. Post: n variables, m pairwise distinct '
        'clauses (parities) over k distinct variables, all satisfied by the planted assignment; ValueError exactly when k>n or m '
        'exceeds the number of compatible clauses (computed independently). (k,n)=(1,1) with m=1 and a planted assignment reaches the '
        'dense fallback after ten rejected samples. Engine S part (SAMPLED seeds, exhaustive (k,n,m,planted) box): the returned '
        'formula is checked for shape, every XOR block is decided by z3 to be equivalent to a parity on exactly k variables, and the '
        'error boundary is probed at m = max-1, max, max+1 (m = max forces the dense path).')
    run.bounds = ['X: (k,n) in (1,1),(1,2),(2,2),(1,3),(2,3) and all degenerate k=0 / k>n with n<=2; m<=2(3); <=1 planted assignment; 5-10 non-trivial draws per run',
                  'S: k<=3, n<=%d, m in {0,1,max/2,max-1,max,max+1,max+5} (all m when max<=6), <=2 planted assignments, seeds %s plus five deterministic adversarial draw streams (zeros, big, alt, count, mix) that force the dense fallback' % ((4, '0,1') if tier == 'quick' else (5, '0,1,2,3,7,11'))]
    run.bounds += ['planted assignments given as list/tuple/set/frozenset, in variable order or reversed, collected in a list, tuple, dict-values view or set', 'S cases carry the calls their process made before; the replay repeats them when a fresh process does not show the behaviour']
    run.outside = ['runs needing more draws than the tape bound (long streaks of rejected samples) are cut', 'all seeds of the real Mersenne Twister', 'k>3']
    run.assumptions = ['RNG stub contract (sample = any k-subset in any order, choice = any element, randint = any value)']
    T = 300 if tier == 'quick' else 1200
    conds = [xengine.Cond('c13', n, T, symbolic=False) for n in XNAMES]
    part = xengine.run_conditions('c13.x', conds)
    run.add(part, {'harness': 'c13.x', 'engine': 'X (RNG stub)', 'conditions': len(conds)})
    items = list(points(tier))
    p2 = run_shards(shard, items)
    run.add(p2, {'harness': 'c13.s', 'engine': 'S on sampled seeds', 'points': len(items)})
    return run.finish()
