"""C04 - linear, parity and mapping constraint builders mean what their names say.

Engine X (CrossHair): polarity, assignment, container kind and an UNBOUNDED integer constant are symbolic.
Engine S (z3): larger literal lists with the constant swept, and the mapping builders.
"""
import itertools

from ..sengine import SHarness, register, shard_fn
from .. import bigpoints
from ..core import Run, run_shards
from .. import gen, xengine
from ..gen import Vars, formula_class

OPS = ['<=', '>=', '<', '>', '==', '!=']


class Linear(SHarness):
    name = 'c04.linear'

    def points(self, tier):
        top = 5 if tier == 'quick' else 7
        for n in range(0, top + 1):
            pats = set()
            pats.add(tuple([1] * n))
            pats.add(tuple([-1] * n))
            pats.add(tuple((1 if i % 2 else -1) for i in range(n)))
            pats.add(tuple((1 if i % 3 else -1) for i in range(n)))
            for signs in sorted(pats):
                for op in OPS:
                    for c in range(-2, n + 3):
                        for cls in ('CNF', 'OPB'):
                            if cls == 'OPB' and op in ('<', '>'):
                                continue
                            if n >= 6 and cls == 'CNF' and (c + len(op)) % 2:
                                continue
                            yield {'n': n, 'signs': list(signs), 'op': op, 'c': c, 'cls': cls}

    def build(self, p):
        F = formula_class(p['cls'])()
        lits = [s * (i + 1) for i, s in enumerate(p['signs'])]
        if p['cls'] == 'CNF':
            F.add_linear(lits, p['op'], p['c'])
        else:
            {'>=': F.cardinality_geq, '<=': F.cardinality_leq, '==': F.cardinality_eq, '!=': F.cardinality_neq}[p['op']](lits, p['c'])
        return F

    @property
    def funcs(self):
        from cnfgen.formula.linear import CNFLinear
        from cnfgen.formula.baseopb import BaseOPB, normalize_opb
        return (CNFLinear.add_linear, BaseOPB.cardinality_geq, BaseOPB.cardinality_leq, BaseOPB.cardinality_eq,
                BaseOPB.cardinality_neq, normalize_opb)

    def nvars(self, p):
        return p['n']

    def spec(self, alg, p, F):
        xs = [alg.lit(s * (i + 1)) for i, s in enumerate(p['signs'])]
        c, op = p['c'], p['op']
        if op == '>=':
            return alg.AtLeast(xs, c)
        if op == '>':
            return alg.AtLeast(xs, c + 1)
        if op == '<=':
            return alg.AtMost(xs, c)
        if op == '<':
            return alg.AtMost(xs, c - 1)
        if op == '==':
            return alg.Exactly(xs, c)
        return alg.Not(alg.Exactly(xs, c))


KINDS = ['complete', 'functional', 'injective', 'surjective', 'nondecreasing']


class Mapping(SHarness):
    name = 'c04.mapping'

    def points(self, tier):
        top = 3 if tier == 'quick' else 4
        for n in range(0, top + 1):
            for m in range(0, top + 1):
                for k in KINDS:
                    for cls in ('CNF', 'OPB'):
                        yield {'shape': 'unary', 'n': n, 'm': m, 'kind': k, 'cls': cls}
        sizes = gen.BIP_QUICK if tier == 'quick' else gen.BIP_THOROUGH
        for g in gen.bip_box(sizes):
            for k in KINDS:
                yield {'shape': 'sparse', 'l': g['l'], 'r': g['r'], 'edges': g['edges'], 'kind': k,
                       'cls': 'OPB' if len(g['edges']) % 3 == 0 else 'CNF'}
        for n in range(1, 4):
            for m in range(1, 7 if tier == 'quick' else 10):
                for k in ('complete', 'functional', 'injective', 'nondecreasing'):
                    yield {'shape': 'binary', 'n': n, 'm': m, 'kind': k, 'cls': 'OPB' if (n + m) % 3 == 0 else 'CNF'}
        # several mappings in ONE formula: another mapping (wider, narrower, of another shape) is created in the same formula
        # before the one that is constrained; its variables stay unconstrained
        for n in range(1, 3):
            for m in (2, 3, 5, 6):
                for k in ('complete', 'functional', 'injective', 'nondecreasing'):
                    for other in (['binary', 2, 8], ['binary', 1, 16], ['binary', 1, 2], ['unary', 2, 3], ['binary', 3, m]):
                        yield {'shape': 'binary', 'n': n, 'm': m, 'kind': k, 'cls': 'OPB' if (n + m + other[2]) % 3 == 0 else 'CNF',
                               'other': other}
        for n in range(1, 3):
            for m in range(1, 4):
                for k in KINDS:
                    for other in (['unary', 3, 4], ['binary', 2, 5], ['unary', n, m]):
                        yield {'shape': 'unary', 'n': n, 'm': m, 'kind': k, 'cls': 'CNF' if (n + m) % 2 else 'OPB', 'other': other}

    def build(self, p):
        F = formula_class(p['cls'])()
        if p.get('other'):
            sh, on, om = p['other']
            if sh == 'binary':
                F.new_binary_mapping(on, om, label='w({},{})')
            else:
                F.new_mapping(on, om, label='g({})={}')
        if p['shape'] == 'unary':
            f = F.new_mapping(p['n'], p['m'])
        elif p['shape'] == 'sparse':
            f = F.new_sparse_mapping(gen.mk_bip(p))
        else:
            f = F.new_binary_mapping(p['n'], p['m'])
            if (p['n'] + p['m']) % 2:
                # the caller asks for some "f(i) != j" clauses first and edits the lists it got back (they are the caller's)
                for i in range(1, p['n'] + 1):
                    for j in range(0, p['m']):
                        cl = f.forbid(i, j)
                        cl.append(1)
                        cl.reverse()
        getattr(F, 'force_%s_mapping' % p['kind'])(f)
        return F

    @property
    def funcs(self):
        from cnfgen.formula.variables import VariablesManager as VM, BinaryMappingVariables
        return (VM.force_complete_mapping, VM.force_functional_mapping, VM.force_injective_mapping,
                VM.force_surjective_mapping, VM.force_nondecreasing_mapping, BinaryMappingVariables.forbid)

    def spec(self, alg, p, F):
        V = Vars(alg, F)
        k = p['kind']
        if p['shape'] == 'binary':
            n, m = p['n'], p['m']
            b = 0
            while (1 << b) < m:
                b += 1
            val = [alg.WSum([(1 << t, V('v({},{})', i, t)) for t in range(b)]) for i in range(1, n + 1)]
            if k == 'complete':
                return alg.And([alg.Lt(v, m) for v in val])
            if k == 'functional':
                return alg.true
            if k == 'injective':
                # pairwise distinct among the values of the range 0..m-1
                return alg.And([alg.Not(alg.And(alg.Eq(val[i], y), alg.Eq(val[j], y)))
                                for i, j in itertools.combinations(range(n), 2) for y in range(m)])
            return alg.And([alg.Not(alg.And(alg.Eq(val[i], y2), alg.Eq(val[j], y1)))
                            for i, j in itertools.combinations(range(n), 2) for y1, y2 in itertools.combinations(range(m), 2)])
        if p['shape'] == 'unary':
            L, R = p['n'], p['m']
            E = [(i, j) for i in range(1, L + 1) for j in range(1, R + 1)]
        else:
            L, R = p['l'], p['r']
            E = [tuple(e) for e in p['edges']]
        X = lambda i, j: V('f({})={}', i, j)
        if k == 'complete':
            return alg.And([alg.AtLeast([X(a, b) for (a, b) in E if a == i], 1) for i in range(1, L + 1)])
        if k == 'functional':
            return alg.And([alg.AtMost([X(a, b) for (a, b) in E if a == i], 1) for i in range(1, L + 1)])
        if k == 'injective':
            return alg.And([alg.AtMost([X(a, b) for (a, b) in E if b == j], 1) for j in range(1, R + 1)])
        if k == 'surjective':
            return alg.And([alg.AtLeast([X(a, b) for (a, b) in E if b == j], 1) for j in range(1, R + 1)])
        return alg.And([alg.Not(alg.And(X(i1, j1), X(i2, j2))) for (i1, j1) in E for (i2, j2) in E if i1 < i2 and j1 > j2])


HARNESSES = [register(Linear()), register(Mapping())]


def xconds(tier):
    C = xengine.Cond
    T = 150 if tier == 'quick' else 900
    top = 3 if tier == 'quick' else 4
    out = []
    for op in ('geq', 'leq', 'gt', 'lt', 'eq', 'neq'):
        for n in range(0, top + 1):
            out.append(C('c04', 'h_cnf_%s_%d' % (op, n), T, note='CNFLinear.add_linear, %d literals, unbounded constant' % n))
    for op in ('geq', 'leq', 'eq', 'neq'):
        for n in range(0, top + 1):
            out.append(C('c04', 'h_opb_%s_%d' % (op, n), T, note='BaseOPB.cardinality_*, %d literals, unbounded constant' % n))
    for n in range(0, (3 if tier == 'quick' else 5) + 1):
        out.append(C('c04', 'h_majmin_%d' % n, T, note='loose/strict majority/minority, CNF and OPB'))
    for n in range(0, top + 1):
        out.append(C('c04', 'h_parity_%d' % n, T, note='add_parity, CNF and OPB'))
    for n in range(0, (2 if tier == 'quick' else 3) + 1):
        out.append(C('c04', 'h_normalize_%d' % n, T, note='normalize_opb, coefficients in [-3,3]\\{0}, unbounded degree'))
    return out


def replay(case):
    if case['harness'].endswith('.t'):
        from .. import tkernels
        return tkernels.replay_case(case)
    if case['harness'].startswith('c04.x.'):
        return xengine.replay(case)
    from ..sengine import replay as sreplay
    return sreplay(case)


def run(tier):
    run = Run('C04', tier)
    run.explanation = (
        'Engine X: CrossHair executes the real builders symbolically; the polarity of each literal, the truth assignment, the '
        'kind of container (list, tuple, generator, range) and the integer constant (no bound at all) are z3 variables and the '
        'postcondition "rows added are satisfied <=> arithmetic condition" must be Confirmed over all paths; only the number of '
        'literals is fixed per condition. normalize_opb: symbolic non-zero coefficients in [-3,3], polarities, operator, unbounded '
        'degree; result must have positive coefficients, >= or ==, and the same truth value. Engine S: larger literal lists with '
        'the constant swept over [-2,n+2] and every mapping builder (unary, sparse over all small bipartite graphs, binary incl. '
        'ranges that are not powers of two) decided by unsat(Enc xor Spec).')
    run.bounds = ['X: literals n<=%d per list (majority n<=%d, normalize <=%d terms); constant/degree unbounded' % ((3, 3, 2) if tier == 'quick' else (4, 5, 3)),
                  'S linear: n<=%d, 4 polarity patterns, constant in [-2,n+2], six operators, CNF and OPB' % (5 if tier == 'quick' else 7),
                  'S mapping: unary n,m<=%d; sparse over %s; binary n<=3, m<=%d' % ((3, 'B quick box', 6) if tier == 'quick' else (4, 'B thorough box', 9))]
    run.bounds += ['size-threshold points of vlib/bigpoints.py (parameters around 10/11, 16/17, 32/33; satisfiable instances; equivalence only, 15 s solver budget, undecided ones counted as big_inconclusive)', 'one third of the points is built a second time, one third again after three calls with other arguments: all builds must agree']
    run.outside = ['more literals than the bounds', 'zero coefficients in normalize_opb (not excluded by the documentation, not meaningful)',
                   'force_surjective_mapping on binary mappings (undocumented)']
    run.assumptions = ['CrossHair 0.0.110 models Python ints/bools/lists faithfully; "Confirmed over all paths" is its exhaustive verdict',
                       'z3 is sound']
    for h in HARNESSES:
        items = [(h.name, p) for p in h.points(tier)]
        items += [(h.name, p) for p in bigpoints.big_points(h.name, tier)]
        part = run_shards(shard_fn, items)
        run.add(part, {'harness': h.name, 'engine': 'S', 'points': len(items)})
    conds = xconds(tier)
    part = xengine.run_conditions('c04.x', conds)
    from cnfgen.formula.linear import CNFLinear
    from cnfgen.formula.baseopb import BaseOPB, normalize_opb
    xengine.encoded(part, CNFLinear.add_linear, CNFLinear.add_parity, BaseOPB.cardinality_neq, BaseOPB.add_parity, normalize_opb,
                    BaseOPB.add_constraint, CNFLinear.add_loose_majority, BaseOPB.add_strict_minority)
    run.add(part, {'harness': 'c04.x', 'engine': 'X', 'conditions': len(conds)})
    from ..core import Part
    from .. import tkernels
    pt = Part()
    tkernels.run_all(pt, tier, ('threshold',), 'c04.t')
    run.add(pt, {'harness': 'c04.t', 'engine': 'T: majority/minority threshold arithmetic for all list lengths'})
    return run.finish()
