"""C05 - substitution, lifting and compression compose the formula with the gadget (engine S)."""
import itertools

from ..sengine import SHarness, register, shard_fn
from .. import bigpoints
from ..core import Run, run_shards
from .. import gen


def small_cnfs():
    """Every CNF with <=2 clauses of width <=2 over variables {1,2} (clauses as sorted multisets of
    literals, formulas as multisets of clauses), with every declared variable count from the largest
    mentioned variable up to 3: includes the empty formula, the empty clause, repeated and opposite
    literals, duplicate clauses and unused variables."""
    lits = [1, -1, 2, -2]
    clauses = [[]] + [[a] for a in lits] + [list(c) for c in itertools.combinations_with_replacement(lits, 2)]
    forms = [[]] + [[c] for c in clauses] + [list(pair) for pair in itertools.combinations_with_replacement(clauses, 2)]
    out = []
    for f in forms:
        mx = max([abs(l) for c in f for l in c] or [0])
        for n in range(mx, 4):
            out.append({'clauses': f, 'n': n})
    return out


FAMILY_SAMPLE = ['php 3 2', 'op 3', 'tseitin K4', 'peb pyramid 2']


def mk_input(p):
    from cnfgen.formula.cnf import CNF
    if 'family' in p:
        fam = p['family']
        if fam == 'php 3 2':
            from cnfgen.families.pigeonhole import PigeonholePrinciple
            return PigeonholePrinciple(3, 2)
        if fam == 'op 3':
            from cnfgen.families.ordering import OrderingPrinciple
            return OrderingPrinciple(3)
        if fam == 'tseitin K4':
            from cnfgen.families.tseitin import TseitinFormula
            from cnfgen.graphs import Graph
            return TseitinFormula(Graph.complete_graph(4))
        if fam == 'peb pyramid 2':
            from cnfgen.families.pebbling import PebblingFormula
            from cnfgen.graphs import dag_pyramid
            return PebblingFormula(dag_pyramid(2))
        raise KeyError(fam)
    F = CNF([list(c) for c in p['clauses']])
    F.update_variable_number(p['n'])
    return F


def transformations(tier, n_in):
    T = []
    ks = (1, 2, 3)
    for k in ks:
        for name in ('xor', 'or', 'maj', 'eq', 'neq', 'one', 'lift'):
            T.append({'t': name, 'k': k})
    for N in ks:
        for K in range(-1, N + 2):
            for name in ('exact', 'atleast', 'atmost', 'anybut'):
                T.append({'t': name, 'k': N, 'K': K})
    T.append({'t': 'ite'})
    T.append({'t': 'flip'})
    if tier != 'quick':
        T.append({'t': 'maj', 'k': 4})
        T.append({'t': 'xor', 'k': 4})
    return T


def apply(F, t):
    from cnfgen.transformations import substitutions as S
    name = t['t']
    if name == 'xor':
        return S.XorSubstitution(F, t['k'])
    if name == 'or':
        return S.OrSubstitution(F, t['k'])
    if name == 'maj':
        return S.MajoritySubstitution(F, t['k'])
    if name == 'eq':
        return S.AllEqualSubstitution(F, t['k'])
    if name == 'neq':
        return S.NotAllEqualSubstitution(F, t['k'])
    if name == 'one':
        return S.ExactlyOneSubstitution(F, t['k'])
    if name == 'exact':
        return S.ExactlyKSubstitution(F, t['k'], t['K'])
    if name == 'atleast':
        return S.AtLeastKSubstitution(F, t['k'], t['K'])
    if name == 'atmost':
        return S.AtMostKSubstitution(F, t['k'], t['K'])
    if name == 'anybut':
        return S.AnythingButKSubstitution(F, t['k'], t['K'])
    if name == 'ite':
        return S.IfThenElseSubstitution(F)
    if name == 'lift':
        return S.FormulaLifting(F, t['k'])
    if name == 'flip':
        return S.FlipPolarity(F)
    if name in ('xorcomp', 'majcomp'):
        B = gen.mk_bip({'l': t['l'], 'r': t['r'], 'edges': t['B']})
        if len(t['B']) % 2:
            # the caller's graph object is used for other compressions first (a graph is an input, not scratch space)
            for fn in ('maj', 'xor'):
                try:
                    S.VariableCompression(F, B, fn)
                except ValueError:
                    pass
        return S.VariableCompression(F, B, 'xor' if name == 'xorcomp' else 'maj')
    raise KeyError(name)


def gadget(alg, t, v, n):
    """The documented gadget for original variable v, over the new variables (help texts / docstrings)."""
    name = t['t']
    k = t.get('k')
    if name in ('xorcomp', 'majcomp'):
        ys = [alg.var(j) for (a, j) in map(tuple, t['B']) if a == v]
        if name == 'xorcomp':
            return alg.Xor(ys)
        return alg.AtLeast(ys, (len(ys) + 1) // 2)
    if name == 'ite':
        return alg.Or(alg.And(alg.var(v), alg.var(n + v)), alg.And(alg.Not(alg.var(v)), alg.var(2 * n + v)))
    if name == 'flip':
        return alg.Not(alg.var(v))
    if name == 'lift':
        X = [alg.var((v - 1) * 2 * k + i) for i in range(1, k + 1)]
        Y = [alg.var((v - 1) * 2 * k + k + i) for i in range(1, k + 1)]
        return alg.Or([alg.And(y, x) for x, y in zip(X, Y)])
    ys = [alg.var((v - 1) * k + i) for i in range(1, k + 1)]
    if name == 'xor':
        return alg.Xor(ys)
    if name == 'or':
        return alg.Or(ys)
    if name == 'maj':
        return alg.AtLeast(ys, (k + 1) // 2)            # "loose majority": at least half
    if name == 'eq':
        return alg.Or(alg.And(ys), alg.And([alg.Not(y) for y in ys]))
    if name == 'neq':
        return alg.Not(alg.Or(alg.And(ys), alg.And([alg.Not(y) for y in ys])))
    if name == 'one':
        return alg.Exactly(ys, 1)
    if name == 'exact':
        return alg.Exactly(ys, t['K'])
    if name == 'atleast':
        return alg.AtLeast(ys, t['K'])
    if name == 'atmost':
        return alg.AtMost(ys, t['K'])
    if name == 'anybut':
        return alg.Not(alg.Exactly(ys, t['K']))
    raise KeyError(name)


def nvars_doc(t, n):
    name = t['t']
    if name in ('xorcomp', 'majcomp'):
        return t['r']
    if name == 'ite':
        return 3 * n
    if name == 'flip':
        return n
    if name == 'lift':
        return 2 * t['k'] * n
    return t['k'] * n


class Subst(SHarness):
    name = 'c05.subst'

    def points(self, tier):
        cnfs = small_cnfs()
        for idx, f in enumerate(cnfs):
            for ti, t in enumerate(transformations(tier, f['n'])):
                if tier == 'quick' and (idx + ti) % 3:
                    continue
                yield {'f': f, 't': t}
            # compression graphs: every bipartite graph B(n, r)
            n = f['n']
            rmax = 2 if tier == 'quick' else 3
            if tier == 'quick' and idx % 4:
                continue
            if tier != 'quick' and n == 3 and idx % 3:
                continue
            for r in range(0, rmax + 1):
                for bi, B in enumerate(gen.all_bipartite(n, r)):
                    if n * r >= 6 and (bi + idx) % (8 if tier == 'quick' else 4):
                        continue
                    for name in ('xorcomp', 'majcomp'):
                        yield {'f': f, 't': {'t': name, 'l': n, 'r': r, 'B': B}}
        for fam in FAMILY_SAMPLE:
            for t in transformations(tier, 0):
                if t.get('k', 1) > 2 or t['t'] in ('exact', 'atleast', 'atmost', 'anybut') and t['K'] not in (1, 2):
                    continue
                if fam == 'op 3' and t['t'] in ('xor', 'one', 'neq') and t.get('k', 1) > 1 and tier == 'quick':
                    continue
                yield {'f': {'family': fam}, 't': t}

    def build(self, p):
        return apply(mk_input(p['f']), p['t'])

    @property
    def funcs(self):
        from cnfgen.transformations import substitutions as S
        return (S.apply_substitution, S.XorSubstitution, S.OrSubstitution, S.MajoritySubstitution, S.AllEqualSubstitution,
                S.ExactlyOneSubstitution, S.LinearSubstitution, S.IfThenElseSubstitution, S.FormulaLifting, S.FlipPolarity,
                S.VariableCompression)

    def nvars(self, p):
        return nvars_doc(p['t'], mk_input(p['f']).number_of_variables())

    def spec(self, alg, p, F):
        G = mk_input(p['f'])
        n = G.number_of_variables()
        t = p['t']
        g = {v: gadget(alg, t, v, n) for v in range(1, n + 1)}
        body = alg.And([alg.Or([g[l] if l > 0 else alg.Not(g[-l]) for l in c]) for c in G.clauses()])
        if t['t'] == 'lift':
            k = t['k']
            sel = [alg.Exactly([alg.var((v - 1) * 2 * k + k + i) for i in range(1, k + 1)], 1) for v in range(1, n + 1)]
            return alg.And(sel + [body])
        return body


HARNESSES = [register(Subst())]


def run(tier):
    run = Run('C05', tier)
    run.explanation = (
        'Engine S. For every input CNF F of the box and every transformation T the real transformation is run and z3 decides '
        'unsat( Enc(T(F))(y) xor Enc(F)[x_v := gadget_v(y)] ) where gadget_v is the documented gadget on the block of new '
        'variables owned by v (XOR, OR, at-least-half, all-equal, not-all-equal, exactly-one, ==K, >=K, <=K, !=K, if-then-else, '
        'XOR/majority of the right-neighbours of v in the compression graph, negation); lifting additionally requires exactly one '
        'selector per variable. The declared number of variables must equal the documented one. One-literal / one-row mutants of '
        'the encoding must be told apart (oracle self-test).')
    run.bounds = ['inputs: every CNF with <=2 clauses of width <=2 over 2 variables, declared variables up to 3 (%d formulas), plus %s' % (len(small_cnfs()), FAMILY_SAMPLE),
                  'arity k<=3 (thorough: xor/maj also k=4), thresholds K in -1..k+1',
                  'compression: bipartite graphs B(n,r), r<=%d (thinned for n*r>=6 as coded in points())' % (2 if tier == 'quick' else 3),
                  'quick tier visits one third of the (formula, transformation) grid']
    run.bounds += ['size-threshold points of vlib/bigpoints.py (parameters around 10/11, 16/17, 32/33; satisfiable instances; equivalence only, 15 s solver budget, undecided ones counted as big_inconclusive)', 'one third of the points is built a second time, one third again after three calls with other arguments: all builds must agree']
    run.outside = ['k>4, larger input formulas', 'the AND substitution (not named by the property)']
    run.assumptions = ['block layout: original variable v owns new variables (v-1)k+1..vk (ite: v, n+v, 2n+v; lifting: X block then Y block)',
                       'z3 is sound']
    h = HARNESSES[0]
    items = [(h.name, p) for p in h.points(tier)]
    items += [(h.name, p) for p in bigpoints.big_points(h.name, tier)]
    part = run_shards(shard_fn, items)
    if part.counts.get('selftest_mutants', 0) and not part.counts.get('selftest_distinguished', 0):
        part.errors.append('oracle self-test distinguished none of the mutants')
    run.add(part, {'harness': h.name, 'points': len(items)})
    return run.finish()
