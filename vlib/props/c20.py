"""C20 - solve() / is_satisfiable() report what the SAT solver found (engine X with the process boundary stubbed)."""
from ..core import Run
from .. import xengine

ENUM = ['h_e_route', 'h_e_auto', 'h_e_two_calls', 'h_e_early_exit'] + ['h_e_parse_%d' % i for i in range(11)]
SYM = ['h_s_stdin', 'h_s_minisat']


def replay(case):
    return xengine.replay(case)


def run(tier):
    run = Run('C20', tier)
    run.explanation = (
        'Engine X. No SAT solver is installed, so the process boundary is replaced by stubs (listed under assumptions) and the real '
        'bridge code runs against a fake solver whose behaviour is assembled from solver-chosen values: solver name (the 11 supported '
        'names and an unknown one), sameas (none / minisat / lingeling / sat4j / unknown), installed or not, failing to start, verdict '
        '(SAT / UNSAT / no answer / garbage), the model as sign bits, the answer split over 1-3 "v" lines, comment lines interleaved, '
        'trailing 0 present or absent, solve() vs is_satisfiable(). The fake READS what the bridge sent (stdin or the named file) with a '
        'strict DIMACS reader. Post: (True, model sorted by variable and satisfying F) / (False, None) / the documented RuntimeError, '
        'ValueError; minisat must be driven file-in/file-out and the standard solvers through stdin; no temporary file is left. '
        'Two harnesses keep the model bits, verdict and layout symbolic through the (traced) output parser; the others are enumerative.')
    run.bounds = ['8 formulas with <=3 variables incl. zero variables, empty clause, unused variables, unsatisfiable', 'all models (<=8) per formula', '3 answer layouts x comments x trailing zero']
    run.bounds += ['3 formulas with 10, 11, 20 variables (answers mention 10 / -10 / 20 at the end of a line)', 'the list returned by supported_satsolvers() is sorted, truncated and extended by the caller before the calls']
    run.outside = ['real solver processes, timeouts, signals', 'solver output in other encodings than ASCII', 'formulas with more than 20 variables']
    run.assumptions = ['stub: cnfgen.utils.solver.subprocess.Popen -> fake solver (sound: emits only models / UNSAT only when unsatisfiable)',
                       'stub: cnfgen.utils.solver.tempfile/os/open -> in-memory file system that records live temporary files',
                       'glucose, march, sat4j: whatever convention the bridge uses is accepted (documentation is silent or contradictory)']
    T = 300 if tier == 'quick' else 1200
    conds = [xengine.Cond('c20', n, T, symbolic=False) for n in ENUM] + [xengine.Cond('c20', n, T, symbolic=True) for n in SYM]
    part = xengine.run_conditions('c20.x', conds)
    from cnfgen.utils import solver as S
    xengine.encoded(part, S.sat_solve, S.some_solver_installed, S._satsolve_stdin_stdout, S._satsolve_filein_stdout, S._satsolve_filein_fileout)
    run.add(part, {'harness': 'c20.x', 'engine': 'X', 'conditions': len(conds)})
    return run.finish()
