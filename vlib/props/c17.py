"""C17 - a command line builds the same formula as the library call it stands for (engine X, enumerative)."""
from ..core import Run
from .. import xengine

NAMES = ['h_e_php', 'h_e_bipartite', 'h_e_numeric', 'h_e_simple_graph', 'h_e_two_graphs', 'h_e_degenerate_files', 'h_e_arity', 'h_e_arity_thr', 'h_e_seeds', 'h_e_ordering', 'h_e_dags',
         'h_e_simple_formulas', 'h_e_compression', 'h_e_random_cmds', 'h_e_save', 'h_e_output', 'h_e_php3', 'h_e_lattice_pair'] + ['h_e_chain_%d' % i for i in range(6)]


def replay(case):
    return xengine.replay(case)


def run(tier):
    run = Run('C17', tier)
    run.exhaustive = False     # contains sampled parts (seeds / draw streams / a command table), see explanation
    run.explanation = (
        "Engine X in enumerative mode over an argv grammar: sub-command by sub-command, numbers are solver-chosen in small legal "
        "ranges, options are solver-chosen booleans and graph arguments come from menus (complete/grid/torus/empty/shift/path/tree/"
        "pyramid constructions, gml / matrix / kthlist files with implicit and explicit format, and a file written by `save` in the "
        "same run). cli(argv, mode='formula') of cnfgen must equal - same class, number of variables, variable names and rows in "
        "order - the documented library generator called with formula_class=CNF on the same numbers and on the graph object that "
        "make_graph_from_spec builds from the same spec; the same for pbgen with formula_class=OPB. Covered: every formula "
        "sub-command and every option the help texts list (--functional/--onto, -e, --alternative/-a, --plant, --total/--smart/"
        "--knuth2/--knuth3, --no-symmetry-breaking, --equal, charge patterns first/zero/one, --sparse), chains of one and two -T "
        "options against the transformation functions applied left to right, xorcomp/majcomp, kthlist2pebbling against peb on the same "
        "file, -q/-v/--varnames/-of variants of the output against the renderings of the library formula. Sub-commands with randomness "
        "are run under three deterministic draw streams shared by the command line and the library call.")
    run.bounds = ['numeric parameters <=4, graphs <=9 vertices', '16 transformations x (none + 6) second transformations x 6 base formulas', '3 draw streams for random sub-commands']
    run.bounds += ['substitution arities 1,2,4,5,9 (thresholds 1,2,k//2,k,k+1) on a two-unit-clause formula, alone and after -T xor 2 (arity <=3)', 'graphs with 0, 1, 2 isolated vertices read from files, alone and as second graph of iso/subgraph', 'LaTeX documents of formulas with 35, 36, 45, 70 clauses: as many rows as clauses']
    run.outside = ['larger arguments', 'interactive stdin prompts', 'random sub-commands under all draw outcomes (see C13/C15 for the generators themselves)']
    run.assumptions = ['stub: cnfgen.graphs.open / graph_fileinput.open -> in-memory file for `save` then read', 'deterministic RNG streams for the random sub-commands']
    T = 400 if tier == 'quick' else 1200
    conds = [xengine.Cond('c17', n, T, symbolic=False) for n in NAMES]
    part = xengine.run_conditions('c17.x', conds)
    import sys
    import importlib
    for _m in ('cnfgen', 'pbgen', 'kthlist2pebbling'):
        importlib.import_module('cnfgen.clitools.' + _m)
    import cnfgen.clihelpers.php_helpers as a, cnfgen.clihelpers.graph_helpers as b, cnfgen.clihelpers.counting_helpers as c
    import cnfgen.clihelpers.ordering_helpers as d, cnfgen.clihelpers.pebbling_helpers as e, cnfgen.clihelpers.simple_helpers as f
    import cnfgen.clihelpers.transformation_helpers as t
    objs = [sys.modules['cnfgen.clitools.cnfgen'].cli, sys.modules['cnfgen.clitools.cnfgen'].parse_command_line,
            sys.modules['cnfgen.clitools.pbgen'].cli, sys.modules['cnfgen.clitools.kthlist2pebbling'].cli]
    for m in (a, b, c, d, e, f, t):
        for name in dir(m):
            o = getattr(m, name)
            if isinstance(o, type) and o.__module__ == m.__name__ and hasattr(o, 'build_formula'):
                objs.append(o.build_formula)
            if isinstance(o, type) and o.__module__ == m.__name__ and hasattr(o, 'transform_cnf'):
                objs.append(o.transform_cnf)
    xengine.encoded(part, *objs)
    run.add(part, {'harness': 'c17.x', 'engine': 'X (enumerative)', 'conditions': len(conds)})
    return run.finish()
