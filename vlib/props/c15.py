"""C15 - graph constructions on the command line deliver the structure they name (engine X + RNG stub)."""
from ..core import Run
from .. import xengine

NAMES = ['h_e_gnm', 'h_e_gnd', 'h_e_gnp', 'h_e_grid', 'h_e_complete_empty', 'h_e_modifiers_0', 'h_e_modifiers_1', 'h_e_modifiers_2',
         'h_e_glrm', 'h_e_glrd', 'h_e_regular', 'h_e_glrp', 'h_e_shift', 'h_e_bip_fixed', 'h_e_bip_plant', 'h_e_bip_addedges',
         'h_e_dag', 'h_e_tokens', 'h_e_save', 'h_e_adversarial', 'h_e_regular_deadend']


def replay(case):
    return xengine.replay(case)


def run(tier):
    run = Run('C15', tier)
    run.exhaustive = False     # contains sampled parts (seeds / draw streams / a command table), see explanation
    run.explanation = (
        'Engine X with the random module replaced by the nondeterministic stub (all draws unseeded = arbitrary): '
        'make_graph_from_spec is called with solver-chosen numeric arguments from below to above the legal range and every '
        'outcome of every random draw is explored up to a tape bound. Post: ValueError exactly for requests outside the documented '
        'ranges (or infeasible), otherwise a graph with the promised structure - gnm: exactly m distinct edges; gnd: d-regular; gnp: '
        'vertex count, t-partite, empty for p=0 and complete for p=1; grid/torus/complete/complete multipartite/empty/path/tree/pyramid: '
        'isomorphic to an independently built graph, DAGs acyclic with the closed-form vertex count; glrm: exactly m edges on both sides of '
        'the m > L*R//3 switch; glrd: left-regular; regular: regular on both sides; shift: the documented edge set; plantclique / '
        'plantbiclique: a clique of the requested size, old edges kept; addedges: exactly m new edges; splitedges: k new degree-2 vertices '
        'and k more edges; save: the file read back equals the graph returned. Non-numeric tokens (nan, inf, 1e1, 1.5, -1, empty string), '
        'missing and extra arguments in every numeric position: a graph or ValueError, never another exception. Because retry loops and '
        'dense fallbacks need more draws than an exhaustive exploration affords, 20 larger requests are additionally run under six '
        'deterministic adversarial draw streams (slowly varying values that make the retry loops give up).')
    run.bounds = ['gnm n<=3,m<=4; gnd n<=4 (all shuffles for (2,1),(3,2),(4,1)); gnp n<=3; grid/torus <=3 dims with sides <=4; glrm (<=2)x(<=3); glrd/shift <=3x3(4x4); regular <=2x2 exhaustively',
                  'tape: 2-8 non-trivial draws per run (runs needing more are cut)', 'adversarial streams: 20 requests up to 6 vertices / 4x4 sides x 6 streams']
    run.bounds += ['save specs include complete bipartite graphs', "'regular' for 10 (L,R,d) incl. R not dividing L (up to 8x12, d=9) under 6 periodic draw streams whose period is one dead-ending attempt of the real sampler: whatever graph is returned is biregular (running out of draws or stack, or an error, is no verdict)", 'adversarial streams also on regular 2x4, 3x6, 4x6, 6x4, 6x9, 9x6']
    run.outside = ['regular: "regular on both sides for EVERY random outcome" beyond 2x2 - only the adversarial streams reach the fallback there', 'larger graphs', 'the internals of the networkx generators (their loops are explored only through the stub)']
    run.assumptions = ['RNG stub contract (random() in {0.0, 0.3, 0.9}; choice/sample/shuffle/randint arbitrary)', 'stub: cnfgen.graphs.open -> in-memory file for save']
    T = 400 if tier == 'quick' else 1500
    conds = [xengine.Cond('c15', n, T, symbolic=False) for n in NAMES]
    part = xengine.run_conditions('c15.x', conds)
    from cnfgen.clitools import graph_args, graph_build
    from cnfgen import graphs
    xengine.encoded(part, graph_args.parse_graph_argument, graph_args.obtain_graph, graph_build.obtain_gnd, graph_build.obtain_gnm, graph_build.obtain_gnp,
                    graph_build.multipartite_tnp, graph_build.obtain_grid_or_torus, graph_build.obtain_glrm, graph_build.obtain_bipartite_regular,
                    graph_build.modify_simple_graph_plantclique, graph_build.modify_bipartite_graph_plantbiclique,
                    graphs.bipartite_random_m_edges, graphs.bipartite_random_regular, graphs.bipartite_random_left_regular, graphs.bipartite_random,
                    graphs.bipartite_shift, graphs.add_random_missing_edges, graphs.split_random_edges, graphs.dag_pyramid,
                    graphs.dag_complete_binary_tree, graphs.dag_path)
    run.add(part, {'harness': 'c15.x', 'engine': 'X (RNG stub)', 'conditions': len(conds)})
    return run.finish()
