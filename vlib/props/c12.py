"""C12 - OPB and LaTeX renderings denote the formula held in memory (engine X, enumerative)."""
from ..core import Run
from .. import xengine


def replay(case):
    return xengine.replay(case)


def run(tier):
    run = Run('C12', tier)
    run.explanation = (
        'Engine X in enumerative mode: formulas are assembled from solver-chosen entries of a constraint menu (clauses, the empty '
        'clause, coefficients 1..3 and negative ones before normalisation, equalities, <=, <, >, negative degrees, repeated variables) '
        'or a clause menu, with 6 variable-name formats (subscripts, superscripts, braces), extra unused variables and the header / '
        'varnames / document flags; the writers run concretely. Oracles written for the check: a strict OPB reader (first line '
        'declares the true counts; every other non-constraint line starts with "*"; row i has exactly the coefficients, variables, '
        'polarities, relation and degree of constraint i; "* varname" lines aligned) and a LaTeX row reader (one row per '
        'clause/constraint in order; the multiset of (name, polarity[, coefficient]) and the bound of row i equal those of item i; '
        '\\square only for the empty clause, \\top only for the empty formula; a new align block exactly every 35 rows with a '
        '\\pagebreak between blocks, sizes 0,1,2,34,35,36,69,70,71,105,106). guess_output_format is compared with the documented '
        'table for every (request, target) pair of a menu incl. an invalid request.')
    run.bounds = ['<=%d rows per formula from a 12-entry constraint menu / 7-entry clause menu' % (2 if tier == 'quick' else 3), '6 label formats, 4 flag combinations']
    run.bounds += ['LaTeX pages: 0..106 rows; OPB/DIMACS row counts 63..2048 around every power of two', 'render - extend (12 ways, three of them raising the variable count without a clause) - render again, twice, CNF and OPB']
    run.outside = ['TeX-level validity of names containing TeX specials', 'more than 3 terms per constraint', 'the missing ";" terminator of the OPB standard (the documented output has none)']
    run.assumptions = ['the two readers written for the check define what a rendering "denotes"', 'CrossHair exhaustiveness accounting']
    T = 300 if tier == 'quick' else 1200
    names = ['h_e_pages', 'h_e_wide', 'h_e_opb_sizes', 'h_e_guess', 'h_e_render_extend'] + ['h_e_opb2_%d' % i for i in range(12)] + ['h_e_cnf2_%d' % i for i in range(7)]
    if tier != 'quick':
        names += ['h_e_opb3_%d' % i for i in range(12)] + ['h_e_cnf3_%d' % i for i in range(7)]
    conds = [xengine.Cond('c12', n, T, symbolic=False) for n in names]
    part = xengine.run_conditions('c12.x', conds)
    from cnfgen.utils import opb, latexoutput
    from cnfgen.formula import cnfio
    xengine.encoded(part, opb.to_opb_file, latexoutput._print_latex, latexoutput.to_latex_document, cnfio.guess_output_format)
    run.add(part, {'harness': 'c12.x', 'engine': 'X (enumerative)', 'conditions': len(conds)})
    return run.finish()
