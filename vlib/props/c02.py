"""C02 - graph-problem families are satisfiable exactly when the graph has the property (engine S)."""
import itertools
from math import factorial

from ..sengine import SHarness, register, shard_fn, sat_and_count, _solver, _check
from ..alg import PyAlg, enc_rows, model_to_list
from .. import bigpoints
from ..core import Run, run_shards
from .. import gen
from ..gen import Vars, mk_graph, formula_class


def _cls(p):
    return formula_class(p.get('cls', 'CNF'))


def _E(p, key='edges'):
    return [tuple(e) for e in p[key]]


def _adj(E):
    s = set()
    for u, v in E:
        s.add((u, v))
        s.add((v, u))
    return s


def _top(tier):
    return 4 if tier == 'quick' else 5


# ------------------------------------------------------------------ Tseitin
class Tseitin(SHarness):
    name = 'c02.tseitin'

    def points(self, tier):
        for g in gen.graph_box(_top(tier)):
            n = g['n']
            vecs = [None] + [list(c) for k in sorted({0, max(n - 1, 0), n, n + 1})
                             for c in itertools.product([0, 1], repeat=k)]
            seen = set()
            for ch in vecs:
                key = repr(ch)
                if key in seen:
                    continue
                seen.add(key)
                if n == 5 and ch is not None and (sum(ch) + len(ch)) % 4:
                    continue
                yield dict(g, charges=ch, cls='OPB' if (len(g['edges']) + (sum(ch) if ch else 0)) % 5 == 0 else 'CNF')

    def build(self, p):
        from cnfgen.families.tseitin import TseitinFormula
        # charges are documented to be cast with bool(): pass 0/1, other integers, bools and a tuple
        ch = p['charges']
        if ch is not None:
            ch = [(c if not c else [1, True, 3, -1, 2][(i + len(ch)) % 5]) for i, c in enumerate(ch)]
            if len(ch) % 2:
                ch = tuple(ch)
        return TseitinFormula(mk_graph(p), ch, formula_class=_cls(p))

    @property
    def funcs(self):
        from cnfgen.families import tseitin
        from cnfgen.formula.linear import CNFLinear
        return (tseitin.TseitinFormula, CNFLinear.add_parity)

    def nvars(self, p):
        return len(p['edges'])

    def _charges(self, p):
        n = p['n']
        if p['charges'] is None:
            return ([1] + [0] * (n - 1))[:n]
        ch = list(p['charges'])[:n]
        return ch + [0] * (n - len(ch))

    def spec(self, alg, p, F):
        V = Vars(alg, F)
        ch = self._charges(p)
        E = _E(p)
        return alg.And([alg.Iff(alg.Xor([V('E_{{{},{}}}', u, v) for (u, v) in E if w in (u, v)]), bool(ch[w - 1]))
                        for w in range(1, p['n'] + 1)])

    def sat_expected(self, p):
        ch = self._charges(p)
        return all(sum(ch[v - 1] for v in comp) % 2 == 0 for comp in gen.components(p['n'], _E(p)))

    def count_expected(self, p):
        if not self.sat_expected(p):
            return 0
        c = len(gen.components(p['n'], _E(p)))
        return 2 ** (len(p['edges']) - p['n'] + c)


# ----------------------------------------------------------------- colouring
def _proper_colourings(n, E, k):
    cnt = 0
    for col in itertools.product(range(k), repeat=n):
        if all(col[u - 1] != col[v - 1] for u, v in E):
            cnt += 1
    return cnt


class KColor(SHarness):
    name = 'c02.kcolor'

    def points(self, tier):
        for g in gen.graph_box(_top(tier)):
            for k in range(0, 5 if tier != 'quick' else 4):
                if g['n'] == 5 and k > 3:
                    continue
                for fn in (True, False):
                    yield dict(g, k=k, functional=fn, cls='OPB' if (len(g['edges']) + k) % 4 == 0 else 'CNF')

    def build(self, p):
        from cnfgen.families.coloring import GraphColoringFormula
        return GraphColoringFormula(mk_graph(p), p['k'], functional=p['functional'], formula_class=_cls(p))

    @property
    def funcs(self):
        from cnfgen.families import coloring
        return (coloring.GraphColoringFormula,)

    def nvars(self, p):
        return p['n'] * p['k']

    def spec(self, alg, p, F):
        V = Vars(alg, F)
        X = lambda v, c: V('x_{{{}{}}}', v, c)
        cs = []
        for v in range(1, p['n'] + 1):
            row = [X(v, c) for c in range(1, p['k'] + 1)]
            cs.append(alg.Exactly(row, 1) if p['functional'] else alg.AtLeast(row, 1))
        for u, v in _E(p):
            for c in range(1, p['k'] + 1):
                cs.append(alg.Not(alg.And(X(u, c), X(v, c))))
        return alg.And(cs)

    def sat_expected(self, p):
        return _proper_colourings(p['n'], _E(p), p['k']) > 0

    def count_expected(self, p):
        return _proper_colourings(p['n'], _E(p), p['k']) if p['functional'] else None


class EvenColoring(SHarness):
    name = 'c02.ec'

    def points(self, tier):
        for g in gen.graph_box(_top(tier)):
            yield dict(g, cls='OPB' if len(g['edges']) % 3 == 0 else 'CNF')

    def build(self, p):
        from cnfgen.families.coloring import EvenColoringFormula
        return EvenColoringFormula(mk_graph(p), formula_class=_cls(p))

    @property
    def funcs(self):
        from cnfgen.families import coloring
        return (coloring.EvenColoringFormula,)

    def _odd(self, p):
        deg = [0] * (p['n'] + 1)
        for u, v in _E(p):
            deg[u] += 1
            deg[v] += 1
        return any(d % 2 for d in deg)

    def refusal_ok(self, p):
        return self._odd(p)

    def must_refuse(self, p):
        return self._odd(p)

    def nvars(self, p):
        return len(p['edges'])

    def spec(self, alg, p, F):
        V = Vars(alg, F)
        cs = []
        for w in range(1, p['n'] + 1):
            inc = [V('e({},{})', u, v) for (u, v) in _E(p) if w in (u, v)]
            cs.append(alg.Exactly(inc, len(inc) // 2))
        return alg.And(cs)

    def sat_expected(self, p):
        # documented: satisfiable only (and, by Euler tours, exactly) when every component has an even number of edges
        E = _E(p)
        for comp in gen.components(p['n'], E):
            if sum(1 for u, v in E if u in comp) % 2:
                return False
        return True


# ------------------------------------------------------------ dominating set
def _closed_nbhd(n, E):
    A = _adj(E)
    return {v: [v] + [u for u in range(1, n + 1) if (u, v) in A] for v in range(1, n + 1)}


class DomSet(SHarness):
    """The documented variables x_v are the witness; the mapping variables are auxiliary, so the
    statement decided is the projection  (exists M. Enc)  <=>  "x is a dominating set of size <= d"."""
    name = 'c02.domset'
    mode = 'custom'

    def points(self, tier):
        for g in gen.graph_box(4 if tier == 'quick' else 5):
            if g['n'] == 5 and len(g['edges']) % 4:
                continue
            for d in range(1, 4 if g['n'] < 5 else 3):
                for alt in (False, True):
                    yield dict(g, d=d, alt=alt, cls='OPB' if (len(g['edges']) + d) % 5 == 0 else 'CNF')

    def build(self, p):
        from cnfgen.families.dominatingset import DominatingSet
        return DominatingSet(mk_graph(p), p['d'], alternative=p['alt'], formula_class=_cls(p))

    @property
    def funcs(self):
        from cnfgen.families import dominatingset
        return (dominatingset.DominatingSet, dominatingset.unique_neighborhoods)

    def nvars(self, p):
        return p['n'] + p['n'] * p['d']

    def _D(self, alg, p, F):
        V = Vars(alg, F)
        return [V('x_{{{}}}', v) for v in range(1, p['n'] + 1)]

    def specD(self, alg, p, F):
        D = self._D(alg, p, F)
        N = _closed_nbhd(p['n'], _E(p))
        return alg.And([alg.AtMost(D, p['d'])] + [alg.Or([D[u - 1] for u in N[v]]) for v in range(1, p['n'] + 1)])

    def sat_expected(self, p):
        n = p['n']
        N = _closed_nbhd(n, _E(p))
        for k in range(0, min(p['d'], n) + 1):
            for S in itertools.combinations(range(1, n + 1), k):
                if all(any(u in S for u in N[v]) for v in range(1, n + 1)):
                    return True
        return False

    def check(self, alg, p, F, n, rows, opb, enc, part):
        z3 = alg.z3
        spec = alg._b(self.specD(alg, p, F))
        s = _solver(alg)
        s.add(enc, z3.Not(spec))
        r = _check(s, part)
        if r == 'sat':
            part.case(self.name, 'model_not_witness', dict(p, _assignment=model_to_list(alg, s.model(), n)),
                      'a satisfying assignment whose x variables are not a dominating set of size <= d')
            return
        if r != 'unsat':
            part.errors.append('%s %s unknown' % (self.name, p))
            return
        V = Vars(alg, F)
        Dvars = set(V.m['x_{%d}' % v] for v in range(1, p['n'] + 1))
        aux = [alg.var(i) for i in range(1, n + 1) if i not in Dvars]
        s = _solver(alg)
        ex = z3.Exists(aux, enc) if aux else enc
        s.add(spec, z3.Not(ex))
        r = _check(s, part)
        if r == 'sat':
            a = model_to_list(alg, s.model(), n)
            part.case(self.name, 'witness_not_model', dict(p, _assignment=a),
                      'a dominating set of size <= d that no assignment of the auxiliary variables extends to a model')
            return
        if r != 'unsat':
            part.errors.append('%s %s unknown (exists)' % (self.name, p))
            return
        sat_and_count(self, p, alg, part, n, enc)

    def replay_custom(self, case, p, F, n, rows, opb):
        a = case['input']['_assignment']
        alg = PyAlg(a)
        if case['kind'] == 'model_not_witness':
            fv = bool(enc_rows(alg, rows, opb))
            sv = bool(self.specD(alg, p, F))
            return fv and not sv, 'formula %s, "x is a dominating set of size<=d" %s' % (fv, sv)
        if case['kind'] == 'witness_not_model':
            if not self.specD(alg, p, F):
                return False, 'x is not a dominating set'
            V = gen.label_map(F)
            Dv = {V['x_{%d}' % v] for v in range(1, p['n'] + 1)}
            aux = [i for i in range(1, n + 1) if i not in Dv]
            if len(aux) > 20:
                return False, 'too many auxiliary variables to enumerate'
            for bits in range(1 << len(aux)):
                b = list(a)
                for k, i in enumerate(aux):
                    b[i - 1] = bool(bits >> k & 1)
                if enc_rows(PyAlg(b), rows, opb):
                    return False, 'extension found'
            return True, 'x=%s is a dominating set of size <= %d but none of the 2^%d auxiliary assignments satisfies the formula' % (
                [v for v in range(1, p['n'] + 1) if a[V['x_{%d}' % v] - 1]], p['d'], len(aux))
        return False, 'unknown kind'


class Tiling(SHarness):
    name = 'c02.tiling'

    def points(self, tier):
        for g in gen.graph_box(_top(tier)):
            yield dict(g, cls='OPB' if len(g['edges']) % 3 == 0 else 'CNF')

    def build(self, p):
        from cnfgen.families.dominatingset import Tiling
        return Tiling(mk_graph(p), formula_class=_cls(p))

    @property
    def funcs(self):
        from cnfgen.families import dominatingset
        return (dominatingset.Tiling, dominatingset.unique_neighborhoods)

    def nvars(self, p):
        return p['n']

    def spec(self, alg, p, F):
        V = Vars(alg, F)
        N = _closed_nbhd(p['n'], _E(p))
        return alg.And([alg.Exactly([V('x_{{{}}}', u) for u in N[v]], 1) for v in range(1, p['n'] + 1)])

    def sat_expected(self, p):
        n = p['n']
        N = _closed_nbhd(n, _E(p))
        for bits in range(1 << n):
            if all(sum(1 for u in N[v] if bits >> (u - 1) & 1) == 1 for v in range(1, n + 1)):
                return True
        return False


# ------------------------------------------------------- iso / automorphism
def _isos(n1, E1, n2, E2):
    if n1 != n2:
        return []
    A1, A2 = _adj(E1), _adj(E2)
    out = []
    for perm in itertools.permutations(range(1, n2 + 1)):
        if all(((u, v) in A1) == ((perm[u - 1], perm[v - 1]) in A2) for u, v in gen.pairs(n1)):
            out.append(perm)
    return out


class Iso(SHarness):
    name = 'c02.iso'

    def points(self, tier):
        if tier == 'quick':
            gs = list(gen.graph_box(3))
            for g1 in gs:
                for g2 in gs:
                    yield {'n': g1['n'], 'edges': g1['edges'], 'n2': g2['n'], 'edges2': g2['edges']}
            g4 = list(gen.graph_box(4, 4))
            for i in range(0, 64, 7):
                for j in range(0, 64, 5):
                    yield {'n': 4, 'edges': g4[i]['edges'], 'n2': 4, 'edges2': g4[j]['edges']}
        else:
            gs = list(gen.graph_box(4))
            for g1 in gs:
                for g2 in gs:
                    if g1['n'] == 4 and g2['n'] == 4 and abs(len(g1['edges']) - len(g2['edges'])) > 1:
                        continue
                    yield {'n': g1['n'], 'edges': g1['edges'], 'n2': g2['n'], 'edges2': g2['edges']}

    def build(self, p):
        from cnfgen.families.graphisomorphism import GraphIsomorphism
        return GraphIsomorphism(mk_graph(p), mk_graph({'n': p['n2'], 'edges': p['edges2']}), formula_class=_cls(p))

    @property
    def funcs(self):
        from cnfgen.families import graphisomorphism
        return (graphisomorphism.GraphIsomorphism,)

    def nvars(self, p):
        return p['n'] * p['n2']

    def spec(self, alg, p, F, nontrivial=False):
        V = Vars(alg, F)
        n1, n2 = p['n'], p['n2']
        X = lambda u, v: V('x_{{{},{}}}', u, v)
        A1, A2 = _adj(_E(p)), _adj(_E(p, 'edges2'))
        cs = []
        for u in range(1, n1 + 1):
            cs.append(alg.Exactly([X(u, v) for v in range(1, n2 + 1)], 1))
        for v in range(1, n2 + 1):
            cs.append(alg.Exactly([X(u, v) for u in range(1, n1 + 1)], 1))
        for u1 in range(1, n1 + 1):
            for u2 in range(1, n1 + 1):
                for v1 in range(1, n2 + 1):
                    for v2 in range(1, n2 + 1):
                        if u1 < u2 and v1 != v2 and ((u1, u2) in A1) != ((v1, v2) in A2):
                            cs.append(alg.Not(alg.And(X(u1, v1), X(u2, v2))))
        if nontrivial:
            cs.append(alg.Not(alg.And([X(u, u) for u in range(1, n1 + 1)])))
        return alg.And(cs)

    def sat_expected(self, p):
        return len(_isos(p['n'], _E(p), p['n2'], _E(p, 'edges2'))) > 0

    def count_expected(self, p):
        return len(_isos(p['n'], _E(p), p['n2'], _E(p, 'edges2')))


class Auto(Iso):
    name = 'c02.auto'

    def points(self, tier):
        for g in gen.graph_box(_top(tier)):
            yield dict(g, n2=g['n'], edges2=g['edges'])

    def build(self, p):
        from cnfgen.families.graphisomorphism import GraphAutomorphism
        return GraphAutomorphism(mk_graph(p), formula_class=_cls(p))

    @property
    def funcs(self):
        from cnfgen.families import graphisomorphism
        return (graphisomorphism.GraphAutomorphism, graphisomorphism.GraphIsomorphism)

    def spec(self, alg, p, F):
        return Iso.spec(self, alg, p, F, nontrivial=True)

    def sat_expected(self, p):
        return self.count_expected(p) > 0

    def count_expected(self, p):
        return len(_isos(p['n'], _E(p), p['n'], _E(p))) - 1


# ----------------------------------------------------- subgraph / clique
def _embeddings(nH, EH, nG, EG, induced, increasing):
    AH, AG = _adj(EH), _adj(EG)
    cnt = 0
    it = itertools.combinations(range(1, nG + 1), nH) if increasing else itertools.permutations(range(1, nG + 1), nH)
    for img in it:
        ok = True
        for i, j in gen.pairs(nH):
            h = (i, j) in AH
            g = (img[i - 1], img[j - 1]) in AG
            if (h and not g) or (induced and g and not h):
                ok = False
                break
        cnt += ok
    return cnt


def _map_spec(alg, S, k, N, AH, AG, induced, increasing):
    """s is a total injective (increasing) function [k]->[N] whose image is an (induced) copy."""
    cs = []
    for i in range(1, k + 1):
        cs.append(alg.Exactly([S(i, j) for j in range(1, N + 1)], 1))
    for j in range(1, N + 1):
        cs.append(alg.AtMost([S(i, j) for i in range(1, k + 1)], 1))
    for i1, i2 in gen.pairs(k):
        for j1 in range(1, N + 1):
            for j2 in range(1, N + 1):
                if j1 == j2:
                    continue
                h = (i1, i2) in AH
                g = (j1, j2) in AG
                bad = (h and not g) or (induced and g and not h)
                if increasing and j1 > j2:
                    bad = True
                if bad:
                    cs.append(alg.Not(alg.And(S(i1, j1), S(i2, j2))))
    return alg.And(cs)


class Subgraph(SHarness):
    name = 'c02.subgraph'

    def points(self, tier):
        Gs = list(gen.graph_box(4))
        Hs = list(gen.graph_box(3 if tier == 'quick' else 4))
        for g in Gs:
            for h in Hs:
                if h['n'] == 4 and (len(h['edges']) + len(g['edges'])) % 3:
                    continue
                for ind in (False, True):
                    for sb in (False, True):
                        if tier == 'quick' and g['n'] == 4 and (len(g['edges']) + len(h['edges']) + ind + sb) % 2:
                            continue
                        yield {'n': g['n'], 'edges': g['edges'], 'nH': h['n'], 'edgesH': h['edges'], 'induced': ind, 'symbreak': sb}

    def build(self, p):
        from cnfgen.families.subgraph import SubgraphFormula
        return SubgraphFormula(mk_graph(p), mk_graph({'n': p['nH'], 'edges': p['edgesH']}), induced=p['induced'],
                               symbreak=p['symbreak'], formula_class=_cls(p))

    @property
    def funcs(self):
        from cnfgen.families import subgraph
        from cnfgen.formula.variables import VariablesManager
        return (subgraph.SubgraphFormula, VariablesManager.force_nondecreasing_mapping)

    def nvars(self, p):
        return p['n'] * p['nH']

    def spec(self, alg, p, F):
        V = Vars(alg, F)
        S = lambda i, j: V('s_{{{},{}}}', i, j)
        return _map_spec(alg, S, p['nH'], p['n'], _adj(_E(p, 'edgesH')), _adj(_E(p)), p['induced'], p['symbreak'])

    def count_expected(self, p):
        return _embeddings(p['nH'], _E(p, 'edgesH'), p['n'], _E(p), p['induced'], p['symbreak'])

    def sat_expected(self, p):
        return self.count_expected(p) > 0


class Clique(SHarness):
    name = 'c02.kclique'

    def points(self, tier):
        for g in gen.graph_box(_top(tier)):
            if g['n'] == 5 and len(g['edges']) % 2:
                continue
            for k in range(0, 5 if g['n'] < 5 else 4):
                for sb in (True, False):
                    yield dict(g, k=k, symbreak=sb, cls='OPB' if (len(g['edges']) + k) % 5 == 0 else 'CNF')

    def build(self, p):
        from cnfgen.families.subgraph import CliqueFormula
        return CliqueFormula(mk_graph(p), p['k'], symbreak=p['symbreak'], formula_class=_cls(p))

    @property
    def funcs(self):
        from cnfgen.families import subgraph
        return (subgraph.CliqueFormula, subgraph.non_edges)

    def nvars(self, p):
        return p['n'] * p['k']

    def spec(self, alg, p, F):
        V = Vars(alg, F)
        S = lambda i, j: V('s_{{{},{}}}', i, j)
        k = p['k']
        return _map_spec(alg, S, k, p['n'], _adj(gen.pairs(k)), _adj(_E(p)), False, p['symbreak'])

    def count_expected(self, p):
        return _embeddings(p['k'], gen.pairs(p['k']), p['n'], _E(p), False, p['symbreak'])

    def sat_expected(self, p):
        return _embeddings(p['k'], gen.pairs(p['k']), p['n'], _E(p), False, True) > 0


def _bits(n):
    b = 0
    while (1 << b) < n:
        b += 1
    return b


class BinClique(SHarness):
    name = 'c02.kcliquebin'

    def points(self, tier):
        for g in gen.graph_box(_top(tier)):
            if g['n'] == 5 and len(g['edges']) % 2:
                continue
            for k in range(0, 5 if g['n'] < 5 else 4):
                for sb in (True, False):
                    yield dict(g, k=k, symbreak=sb)

    def build(self, p):
        from cnfgen.families.subgraph import BinaryCliqueFormula
        return BinaryCliqueFormula(mk_graph(p), p['k'], symbreak=p['symbreak'], formula_class=_cls(p))

    @property
    def funcs(self):
        from cnfgen.families import subgraph
        from cnfgen.formula.variables import BinaryMappingVariables
        return (subgraph.BinaryCliqueFormula, BinaryMappingVariables.forbid)

    def refusal_ok(self, p):
        return p['k'] < 1 or p['n'] < 1     # binary mapping groups need positive sizes (documented there)

    def nvars(self, p):
        return p['k'] * _bits(p['n'])

    def spec(self, alg, p, F):
        V = Vars(alg, F)
        k, N = p['k'], p['n']
        b = _bits(N)
        A = _adj(_E(p))
        val = [alg.WSum([(1 << t, V('y_{{{},{}}}', i, t)) for t in range(b)]) for i in range(1, k + 1)]
        cs = [alg.Lt(v, N) for v in val]
        for i1, i2 in itertools.combinations(range(k), 2):
            cs.append(alg.Ne(val[i1], val[i2]))
            if p['symbreak']:
                cs.append(alg.Le(val[i1], val[i2]))
            for j1 in range(N):
                for j2 in range(N):
                    if j1 != j2 and (j1 + 1, j2 + 1) not in A:
                        cs.append(alg.Not(alg.And(alg.Eq(val[i1], j1), alg.Eq(val[i2], j2))))
        return alg.And(cs)

    def count_expected(self, p):
        return _embeddings(p['k'], gen.pairs(p['k']), p['n'], _E(p), False, p['symbreak'])

    def sat_expected(self, p):
        return self.count_expected(p) > 0


class RamseyWitness(SHarness):
    """ramlb: satisfiable iff G has a k-clique or an s-independent set.  The variable-level meaning
    (C => image of s is a clique, not C => independent set) is only documented for one common size,
    so the equivalence is decided for k == s and the satisfiability criterion for every (k, s)."""
    name = 'c02.ramlb'
    mode = 'custom'

    def points(self, tier):
        top = 3 if tier == 'quick' else 4
        for g in gen.graph_box(4):
            for k in range(0, top + 1):
                for s in range(0, top + 1):
                    for sb in (True, False):
                        yield dict(g, k=k, s=s, symbreak=sb)
        # the two structures of different size: the larger one must be checked on ALL its elements (k, s up to 5 on
        # graphs with 4 and 5 vertices; every 7th graph of G(5))
        for i, g in enumerate(gen.graph_box(5, 4)):
            if g['n'] == 5 and i % 7:
                continue
            for (k, s) in ((3, 4), (4, 3), (2, 4), (4, 2), (3, 5), (5, 3), (4, 5), (5, 4)):
                if tier == 'quick' and top >= 4:
                    continue
                if max(k, s) > g['n'] + 1 or (top >= max(k, s)):
                    continue
                yield dict(g, k=k, s=s, symbreak=bool(i % 2))

    def build(self, p):
        from cnfgen.families.subgraph import RamseyWitnessFormula
        return RamseyWitnessFormula(mk_graph(p), p['k'], p['s'], symbreak=p['symbreak'], formula_class=_cls(p))

    @property
    def funcs(self):
        from cnfgen.families import subgraph
        return (subgraph.RamseyWitnessFormula,)

    def spec(self, alg, p, F):
        V = Vars(alg, F)
        S = lambda i, j: V('s_{{{},{}}}', i, j)
        k, N = p['k'], p['n']
        A = _adj(_E(p))
        comp = _adj([e for e in gen.pairs(N) if e not in A])
        C = V('C')
        K = _adj(gen.pairs(k))
        return alg.Or(alg.And(C, _map_spec(alg, S, k, N, K, A, False, p['symbreak'])),
                      alg.And(alg.Not(C), _map_spec(alg, S, k, N, K, comp, False, p['symbreak'])))

    def sat_expected(self, p):
        N, E = p['n'], _E(p)
        comp = [e for e in gen.pairs(N) if e not in _adj(E)]
        return (_embeddings(p['k'], gen.pairs(p['k']), N, E, False, True) > 0 or
                _embeddings(p['s'], gen.pairs(p['s']), N, comp, False, True) > 0)

    def check(self, alg, p, F, n, rows, opb, enc, part):
        if p['k'] == p['s']:
            z3 = alg.z3
            s = _solver(alg)
            s.add(z3.Xor(enc, alg._b(self.spec(alg, p, F))))
            r = _check(s, part)
            if r == 'sat':
                part.case(self.name, 'spec_mismatch', dict(p, _assignment=model_to_list(alg, s.model(), n)),
                          'formula and documented meaning differ on this assignment')
                return
            if r != 'unsat':
                part.errors.append('%s %s unknown' % (self.name, p))
                return
        sat_and_count(self, p, alg, part, n, enc)


HARNESSES = [register(h()) for h in (Tseitin, KColor, EvenColoring, DomSet, Tiling, Iso, Auto, Subgraph, Clique,
                                     BinClique, RamseyWitness)]


def run(tier):
    run = Run('C02', tier)
    run.explanation = (
        'Engine S (SMT equivalence). For every graph of the box and every parameter the real generator is run, '
        'its rows are encoded in z3 and z3 decides unsat(Enc(F) xor Spec) with Spec the documented graph property '
        'over the documented variables (Tseitin parities, proper colourings, balanced edge splits, bijections / '
        'injections preserving (non-)edges, binary-coded cliques). For dominating set the auxiliary mapping variables '
        'are existentially quantified (projection on the x variables, two queries). The satisfiability verdict of '
        'each formula is compared with the graph property computed independently by plain enumeration, and the '
        'model count with the number of witnesses (2^(|E|-|V|+c) for Tseitin, #isomorphisms, #embeddings) where the '
        'variables are exactly the witness.')
    t = _top(tier)
    run.bounds = ['all labelled simple graphs on <=%d vertices (G(5) thinned as stated in points())' % t,
                  'tseitin: every charge vector of length n-1,n,n+1, the empty vector and None',
                  'kcolor k<=%d; domset d<=3 (both encodings); clique k<=4 (incl. k>|V|); ramlb k,s<=%d incl. k!=s, plus (k,s) in {(3,4),(4,3),(2,4),(4,2),(3,5),(5,3),(4,5),(5,4)} on G(4) and every 7th graph of G(5)' % (3 if tier == 'quick' else 4, 3 if tier == 'quick' else 4),
                  'iso: all pairs of graphs on <=3 vertices incl. order mismatch + a sample of G(4)^2 (quick) / all pairs on <=4 with |E| differing by <=1 (thorough)',
                  'subgraph: G on <=4 vertices, H on <=%d, induced x symbreak' % (3 if tier == 'quick' else 4)]
    run.bounds += ["every fifth graph point is repeated with the graph given as a networkx object (reversed node/edge order, int and str 'bipartite' attributes), as a graph grown by update_vertex_number (by 2, by 3, from empty) and as a graph object with a past (refused insertions, refused bulk insertion, earlier use with one edge elsewhere)", 'size-threshold points of vlib/bigpoints.py (parameters around 10/11, 16/17, 32/33; satisfiable instances; equivalence only, 15 s solver budget, undecided ones counted as big_inconclusive)', 'one third of the points is built a second time, one third again after three calls with other arguments: all builds must agree']
    run.outside = ['graphs with more vertices (except the threshold points)',
                   'ramlb variable-level meaning for k != s (only satisfiability is decided there)']
    run.assumptions = ['variable meaning is taken from the names reported by all_variable_labels()', 'z3 is sound']
    for h in HARNESSES:
        items = [(h.name, p) for p in h.points(tier)]
        items += [(h.name, p) for p in bigpoints.big_points(h.name, tier)]
        items += gen.with_networkx_inputs(items)
        part = run_shards(shard_fn, items)
        if part.counts.get('selftest_mutants', 0) and not part.counts.get('selftest_distinguished', 0):
            part.errors.append('%s: oracle self-test distinguished none of the mutants' % h.name)
        run.add(part, {'harness': h.name, 'points': len(items)})
    return run.finish()
