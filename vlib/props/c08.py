"""C08 - the OPB and the CNF rendering of a family are the same formula (engine S)."""
import io
import os
import contextlib
import time

from ..alg import Z3Alg, PyAlg, enc_formula, model_to_list, is_opb
from .. import bigpoints
from ..core import Run, run_shards
from . import c01, c02, c03

LIB = [h for mod in (c01, c02, c03) for h in mod.HARNESSES]
LIBMAP = {h.name: h for h in LIB}

# argv accepted by both tools (deterministic graph constructions only)
CLI_ARGV = []
for m in range(0, 4):
    for n in range(0, 4):
        CLI_ARGV.append(['php', m, n])
        CLI_ARGV.append(['php', m, n, '--functional'])
        CLI_ARGV.append(['php', m, n, '--onto'])
        CLI_ARGV.append(['php', m, n, '--functional', '--onto'])
        if m and n:
            CLI_ARGV.append(['bphp', m, n])
for m in range(0, 3):
    for t in range(0, 3):
        for n in range(0, 3):
            CLI_ARGV.append(['rphp', m, t, n])
for M in range(0, 7):
    CLI_ARGV.append(['parity', M])
    for q in (1, 2, 3):
        CLI_ARGV.append(['count', M, q])
GR = [['complete', 3], ['complete', 4], ['grid', 2, 2], ['grid', 2, 3], ['empty', 3], ['torus', 3, 3], ['complete', 2, 2], ['empty', 1]]
for g in GR:
    CLI_ARGV.append(['matching'] + g)
    CLI_ARGV.append(['tiling'] + g)
    CLI_ARGV.append(['iso'] + g)
    CLI_ARGV.append(['op'] + g)
    CLI_ARGV.append(['op', '--total'] + g)
    CLI_ARGV.append(['op', '--smart'] + g)
    CLI_ARGV.append(['op', '--plant'] + g)
    CLI_ARGV.append(['op', '--knuth2'] + g)
    for ch in ('first', 'zero', 'one'):
        CLI_ARGV.append(['tseitin', ch] + g)
    if g not in (['complete', 4], ['grid', 2, 3], ['complete', 2, 2]):
        CLI_ARGV.append(['ec'] + g)
    for k in (1, 2, 3):
        CLI_ARGV.append(['kcolor', k] + g)
        CLI_ARGV.append(['domset', k] + g)
        CLI_ARGV.append(['domset', '--alternative', k] + g)
        CLI_ARGV.append(['kclique', k] + g)
        if True:
            CLI_ARGV.append(['kcliquebin', k] + g)
        CLI_ARGV.append(['ramlb', k, k] + g)
for g1 in GR[:4]:
    for g2 in GR[:4]:
        CLI_ARGV.append(['iso'] + g1 + ['-e'] + g2)
        CLI_ARGV.append(['subgraph', '-G'] + g1 + ['-H'] + g2)
BG = [['complete', 2, 2], ['complete', 3, 2], ['empty', 2, 3], ['shift', 3, 3, 0, 1], ['shift', 4, 4, 0, 1, 2], ['shift', 3, 4, 1, 3]]
for g in BG:
    CLI_ARGV.append(['php'] + g)
    CLI_ARGV.append(['php', '--functional'] + g)
    CLI_ARGV.append(['php', '--onto'] + g)
    CLI_ARGV.append(['subsetcard'] + g)
    CLI_ARGV.append(['subsetcard', '--equal'] + g)
for n in range(0, 5):
    for k in (1, 2, 3):
        for c in (1, 2, 3):
            if n * k * c <= 18:
                CLI_ARGV.append(['cliquecoloring', n, k, c])
for N in range(0, 6):
    for f in ([], ['--total'], ['--smart'], ['--plant'], ['--knuth2'], ['--knuth3']):
        CLI_ARGV.append(['op'] + f + [N])
    CLI_ARGV.append(['ptn', N + 10])
    for s in (1, 2, 3):
        for k in (1, 2, 3):
            CLI_ARGV.append(['ram', s, k, N])
    for ks in ([2, 2], [3, 2], [2, 3], [3, 3], [2, 2, 2], [1, 2], [3, 2, 2]):
        CLI_ARGV.append(['vdw', N + 3] + ks)
DG = [['path', 3], ['tree', 1], ['tree', 2], ['pyramid', 1], ['pyramid', 2], ['path', 0]]
for g in DG:
    CLI_ARGV.append(['peb'] + g)
    for s in (1, 2):
        CLI_ARGV.append(['stone', s] + g)
for a in (1, 2):
    for b in (1, 2):
        for c in (1, 2, 4):
            CLI_ARGV.append(['cpls', a, b, c])
for pn in ([1, 1], [2, 0], [0, 3], [0, 0]):
    CLI_ARGV.append(['and'] + pn)
    CLI_ARGV.append(['or'] + pn)
CLI_ARGV += [['true'], ['false']]
# the one family that reads a file: both tools must read the same formula (f12 has tautological clauses and repeated literals)
_DATA = os.path.join(os.path.dirname(os.path.dirname(os.path.abspath(__file__))), 'xh', 'data')
for _i in range(13):
    CLI_ARGV.append(['dimacs', os.path.join(_DATA, 'f%d.cnf' % _i)])
# seeded random command lines: with the same --seed both tools must draw the same graph AND the same formula
for sd in (0, 1, 7):
    for cmd in (['tseitin', 'random', 'gnd', 6, 3], ['tseitin', 'randomeven', 'gnp', 5, '.5'], ['tseitin', 'randomodd', 'gnm', 5, 6],
                ['tseitin', 6, 3], ['php', 4, 3, 2], ['randkcnf', 3, 6, 5], ['randkcnf', '-p', 2, 5, 4], ['randkxor', 2, 5, 3],
                ['stone', 2, 'pyramid', 2, '--sparse', 1], ['subsetcard', 6], ['kcolor', 2, 'gnm', 5, 4, 'addedges', 1],
                ['op', 6, 3], ['php', 'glrd', 3, 4, 2, 'addedges', 1], ['pitfall', 4, 2, 2, 2, 2], ['domset', 2, 'gnp', 5, '.4', 'plantclique', 3]):
        CLI_ARGV.append(['--seed', sd] + cmd)


def compare(name, p, A, B, alg, part):
    """A: CNF-class formula, B: OPB-class formula of the same family and parameters."""
    z3 = alg.z3
    na, nb = A.number_of_variables(), B.number_of_variables()
    if na != nb:
        part.case(name, 'nvars_differ', p, 'CNF has %d variables, OPB has %d' % (na, nb))
        return
    la, lb = list(A.all_variable_labels()), list(B.all_variable_labels())
    if la != lb:
        part.case(name, 'labels_differ', p, 'variable names differ: %s vs %s' % (la[:6], lb[:6]))
        return
    ea, eb = enc_formula(alg, A), enc_formula(alg, B)
    s = z3.Solver()
    s.set('timeout', 15000 if p.get('big') else 60000)
    s.add(z3.Xor(ea, eb))
    t = time.time()
    r = str(s.check())
    part.solver_s += time.time() - t
    part.counts[r] += 1
    if r == 'sat':
        part.case(name, 'models_differ', dict(p, _assignment=model_to_list(alg, s.model(), na)),
                  'an assignment satisfies exactly one of the two renderings')
    elif r != 'unsat':
        if p.get('big'):
            part.counts['big_inconclusive'] += 1     # a size-threshold point the solver did not decide: not counted
            part.counts[r] -= 1
        else:
            part.errors.append('%s %s: unknown' % (name, p))
    elif p.get('big'):
        part.counts['big_points'] += 1
    else:
        if na and (len(A) or len(B)):
            part.nontrivial.add((name, repr(p)))
        # oracle self-test: drop the last row of the OPB side
        rows = list(B.constraints()) if is_opb(B) else list(B.clauses())
        if rows:
            from ..alg import enc_rows
            s = z3.Solver()
            s.add(z3.Xor(ea, enc_rows(alg, rows[:-1], is_opb(B))))
            part.counts['selftest_mutants'] += 1
            if str(s.check()) == 'sat':
                part.counts['selftest_distinguished'] += 1
        part.sample({'harness': name, 'params': p, 'nvars': na, 'rows_cnf': len(A), 'rows_opb': len(B)})


def build_lib(name, p):
    h = LIBMAP[name]
    return h.build(dict(p, cls='CNF')), h.build(dict(p, cls='OPB'))


def build_cli(argv):
    import cnfgen.clitools.msg as msg
    from cnfgen.clitools.cnfgen import cli as cnfcli
    from cnfgen.clitools.pbgen import cli as pbcli
    msg._prefix = ''
    err = io.StringIO()
    with contextlib.redirect_stderr(err), contextlib.redirect_stdout(io.StringIO()):
        A = cnfcli(['cnfgen', '-q'] + [str(x) for x in argv], mode='formula')
        msg._prefix = ''
        B = pbcli(['pbgen', '-q'] + [str(x) for x in argv], mode='formula')
    return A, B


def shard(items, part):
    alg = Z3Alg()
    for kind, name, p in items:
        part.counts['instances'] += 1
        try:
            if kind == 'lib':
                h = LIBMAP[name]
                if h.funcs:
                    part.encoded(*h.funcs)
                try:
                    A, B = build_lib(name, p)
                except ValueError:
                    # refused in (at least) one class: must be refused in both
                    oks = []
                    for c in ('CNF', 'OPB'):
                        try:
                            h.build(dict(p, cls=c))
                            oks.append(c)
                        except ValueError:
                            pass
                    if oks:
                        part.case('c08.lib.' + name, 'refusal_differs', p, 'only class %s builds a formula' % oks)
                    else:
                        part.counts['refused_in_both'] += 1
                    continue
                compare('c08.lib.' + name, p, A, B, alg, part)
            else:
                from cnfgen.clitools.cmdline import CLIError
                try:
                    A, B = build_cli(p['argv'])
                except (CLIError, SystemExit) as e:
                    part.counts['cli_refused'] += 1
                    continue
                compare('c08.cli', p, A, B, alg, part)
        except Exception as e:  # noqa
            part.case('c08.%s%s' % (kind, '.' + name if name else ''), 'exception', p, '%s: %s' % (type(e).__name__, e))


def points(tier):
    seen = set()
    for h in LIB:
        for p in h.points(tier):
            q = {k: v for k, v in p.items() if k != 'cls'}
            key = (h.name, repr(sorted(q.items(), key=lambda kv: kv[0])))
            if key in seen:
                continue
            seen.add(key)
            yield ('lib', h.name, q)
        # size-threshold points (satisfiable instances around 10/11, 16/17, 32/33)
        for p in bigpoints.big_points(h.name, tier):
            q = {k: v for k, v in p.items() if k != 'cls'}
            key = (h.name, repr(sorted(q.items(), key=lambda kv: kv[0])))
            if key not in seen:
                seen.add(key)
                yield ('lib', h.name, q)
    for argv in CLI_ARGV:
        yield ('cli', '', {'argv': argv})


def replay(case):
    name = case['harness']
    inp = dict(case['input'])
    p = {k: v for k, v in inp.items() if not k.startswith('_')}
    kind = case['kind']
    try:
        if name.startswith('c08.lib.'):
            hn = name[len('c08.lib.'):]
            if kind == 'refusal_differs':
                oks = []
                for c in ('CNF', 'OPB'):
                    try:
                        LIBMAP[hn].build(dict(p, cls=c))
                        oks.append(c)
                    except ValueError:
                        pass
                return len(oks) == 1, 'classes that build: %s' % oks
            A, B = build_lib(hn, p)
        else:
            A, B = build_cli(p['argv'])
    except Exception as e:  # noqa
        return kind == 'exception', '%s: %s' % (type(e).__name__, e)
    if kind == 'exception':
        return False, 'no exception'
    if kind == 'nvars_differ':
        return A.number_of_variables() != B.number_of_variables(), '%d vs %d variables' % (A.number_of_variables(), B.number_of_variables())
    if kind == 'labels_differ':
        return list(A.all_variable_labels()) != list(B.all_variable_labels()), 'labels compared'
    if kind == 'models_differ':
        a = inp['_assignment']
        va = bool(enc_formula(PyAlg(a), A))
        vb = bool(enc_formula(PyAlg(a), B))
        return va != vb, 'CNF rendering evaluates to %s, OPB rendering to %s under %s' % (va, vb, a)
    return False, 'unknown kind'


def run(tier):
    run = Run('C08', tier)
    run.exhaustive = False     # contains sampled parts (seeds / draw streams / a command table), see explanation
    run.explanation = (
        'Engine S. Every family harness of C01-C03 is built twice with the real library (formula_class=CNF and =OPB) on '
        'every point of their boxes, and every command line of a fixed argv table is run through cnfgen and pbgen '
        "(cli(..., mode='formula')); z3 decides unsat(Enc_CNF(x) xor Enc_PB(x)) - the two renderings have exactly the "
        'same satisfying assignments - and the variable counts and name lists are compared. A refusal must occur in both '
        'classes. Self-test: the OPB side with its last row dropped must be told apart.')
    run.bounds = ['library level: the %s boxes of C01, C02, C03 (class stripped)' % tier,
                  'command-line level: %d argv vectors over deterministic graph constructions (complete/grid/torus/empty/shift/path/tree/pyramid), the dimacs family on 13 files (one with tautological clauses and repeated literals) and 45 seeded random command lines' % len(CLI_ARGV),
                  'size-threshold points of vlib/bigpoints.py for every family harness (parameters around 10/11, 16/17, 32/33; e.g. Tseitin on K10/K11: parities over 9 and 10 literals); 15 s solver budget, undecided ones counted as big_inconclusive']
    run.outside = ['parameters beyond the boxes', 'unseeded random families (their draws differ between two runs); seeded ones are compared for three seeds (sampled)']
    run.assumptions = ['z3 Pb constraints are sound', 'OPB rows are read as documented in BaseOPB']
    items = list(points(tier))
    part = run_shards(shard, items)
    if not part.counts.get('selftest_distinguished', 0):
        part.errors.append('oracle self-test distinguished no mutant')
    run.add(part, {'harness': 'c08', 'points': len(items)})
    return run.finish()
