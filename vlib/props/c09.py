"""C09 - shuffling is a signed renaming of variables plus a reordering of clauses (engine X + RNG stub)."""
from ..core import Run
from .. import xengine

NF = 12


def replay(case):
    return xengine.replay(case)


def run(tier):
    run = Run('C09', tier)
    run.explanation = (
        "Engine X with a nondeterministic stub for the random module (xutil.FakeRandom): every random.choice / random.shuffle "
        "outcome is a fresh solver-chosen value, minted lazily when the code draws, so ALL random outcomes are explored and the run "
        "ends Confirmed only when none is left. For each of 12 small formulas (incl. no variables, empty clause, duplicate clauses, "
        "unused variables, opposite/repeated literals), each of the 8 on/off combinations of the three switches and each entry point "
        "(Shuffle, the cnfshuffle tool with -p/-v/-c, cnfgen ... -T shuffle [-p][-v][-c]) the output must have the same N and M and "
        "be the image of the input under ONE signed renaming and ONE permutation of positions, switched-off components being the "
        "identity (witness found by plain search over <=48x6 candidates). Explicit arguments: every list over {-1,0,1,2}^<=4 / "
        "[0..4]^<=4 / [-1..3]^<=4 is accepted iff valid, then applied exactly as documented; invalid ones raise ValueError; all 8x6x6 "
        "valid triples per formula are applied exactly; the caller's lists and the input formula stay untouched.")
    run.bounds = ['12 formulas with N<=3 variables, M<=3 clauses', 'all RNG outcomes (<=288 per formula and switch combination)', 'three entry points']
    run.bounds += ['explicit arguments as list, tuple and range (increasing and decreasing)', 'one explicit component (8 flip vectors / 6 variable permutations / 6 clause permutations) combined with every fixed/random choice of the other two, all RNG outcomes: the explicit component is applied exactly as given', 'independence: 12 formulas x 4 argument modes x 3 ways of extending the result / the input afterwards']
    run.outside = ['larger formulas (the random path is the same code for any size, but that is not proved)', 'the Mersenne Twister itself (stubbed)']
    run.assumptions = ['stub: cnfgen.transformations.shuffle.random -> FakeRandom (arbitrary outcome within the documented contract of choice/shuffle/sample/randint/random)',
                       'enumerative mode: draws and switches are concretised by solver decisions, the body runs untraced']
    T = 300 if tier == 'quick' else 1200
    names = ['h_e_random_%s_%d' % (t, i) for t in ('lib', 'cnfshuffle', 'T') for i in range(NF)]
    names += ['h_e_mixed_flips', 'h_e_mixed_vperm', 'h_e_mixed_cperm', 'h_e_independent', 'h_e_explicit_valid', 'h_e_explicit_flips', 'h_e_explicit_vperm', 'h_e_explicit_cperm']
    conds = [xengine.Cond('c09', n, T, symbolic=False) for n in names]
    part = xengine.run_conditions('c09.x', conds)
    from cnfgen.transformations.shuffle import Shuffle
    import sys
    import cnfgen.clitools.cnfshuffle  # noqa
    cnfshuffle = sys.modules['cnfgen.clitools.cnfshuffle']
    from cnfgen.clihelpers.transformation_helpers import ShuffleCmd
    xengine.encoded(part, Shuffle, cnfshuffle.cli, ShuffleCmd.transform_cnf)
    run.add(part, {'harness': 'c09.x', 'engine': 'X (RNG stub, enumerative)', 'conditions': len(conds)})
    return run.finish()
