"""C16 - graph objects stay consistent under any sequence of updates (engine X, enumerative mode)."""
import itertools

from ..core import Run, Part
from .. import xengine, gen

QUICK = (['h_bip13_add', 'h_bip22_add', 'h_bip22_addfrom', 'h_bip23_add', 'h_bip31_add', 'h_bip32_add', 'h_complete_bip',
          'h_digraph2_add', 'h_digraph2_addfrom', 'h_graph2_add', 'h_graph2_remove', 'h_graph2_update', 'h_graph2_addfrom',
          'h_graph3_add', 'h_graph3_remove', 'h_graph3_update', 'h_graph4_update', 'h_graph2_grow_add', 'h_graph3_grow_add',
          'h_graph4_addfrom3', 'h_digraph4_addfrom3', 'h_bip33_addfrom3'] +
         ['h_graph2_hist2_%d%d' % (a, b) for a in range(3) for b in range(3)])
THOROUGH = QUICK + ['h_digraph3_add', 'h_graph3_addfrom', 'h_graph4_add', 'h_graph4_remove'] + \
    ['h_graph3_hist2_%d%d' % (a, b) for a in range(3) for b in range(3)] + \
    ['h_graph2_hist3_%d%d' % (a, b) for a in range(3) for b in range(3)]


def networkx_roundtrip(part, tier):
    """Conversion to and from networkx on every graph of the box (plain enumeration, no solver: reported
    separately and never counted as decided)."""
    from cnfgen.graphs import Graph, DirectedGraph, BipartiteGraph
    from ..xh import c16 as V
    top = 4 if tier == 'quick' else 5
    n_ok = 0
    for g in gen.graph_box(top):
        G = gen.mk_graph(g)
        H = Graph.from_networkx(G.to_networkx())
        if H.number_of_vertices() != g['n'] or sorted(H.edges()) != sorted(map(tuple, g['edges'])) or \
                not V._graph_views_ok(H, g['n'], {tuple(e) for e in g['edges']}):
            part.case('c16.nx', 'networkx_roundtrip', {'type': 'simple', 'n': g['n'], 'edges': g['edges']}, 'Graph -> networkx -> Graph changed the graph')
        n_ok += 1
    for n in range(0, 4):
        for E in gen.all_digraphs(n):
            if n == 3 and len(E) % 3:
                continue
            D = gen.mk_digraph({'n': n, 'edges': E})
            H = DirectedGraph.from_networkx(D.to_networkx())
            if H.number_of_vertices() != n or sorted(H.edges()) != sorted(map(tuple, E)) or not V._digraph_views_ok(H, n, {tuple(e) for e in E}):
                part.case('c16.nx', 'networkx_roundtrip', {'type': 'digraph', 'n': n, 'edges': E}, 'DirectedGraph -> networkx -> DirectedGraph changed the graph or one of its views (is_dag, predecessors, ...)')
            n_ok += 1
            # a networkx DiGraph built by hand (nodes inserted high to low, edges in reverse order), through from_networkx and normalize
            import networkx
            N = networkx.DiGraph()
            N.add_nodes_from(range(n, 0, -1))
            N.add_edges_from(reversed([tuple(e) for e in E]))
            for conv in ('from_networkx', 'normalize'):
                try:
                    H = getattr(DirectedGraph, conv)(N)
                    ok = V._digraph_views_ok(H, n, {tuple(e) for e in E})
                except Exception:  # noqa
                    ok = False
                if not ok:
                    part.case('c16.nx', 'networkx_roundtrip', {'type': 'nx-digraph', 'n': n, 'edges': E, 'conv': conv},
                              'DirectedGraph.%s of a hand-built networkx DiGraph: a view (edges, is_dag, predecessors, ...) disagrees with the edges' % conv)
                n_ok += 1
    for g in gen.bip_box(gen.BIP_QUICK if tier == 'quick' else gen.BIP_THOROUGH):
        B = gen.mk_bip(g)
        H = BipartiteGraph.from_networkx(B.to_networkx())
        if (H.left_order(), H.right_order()) != (g['l'], g['r']) or sorted(H.edges()) != sorted(map(tuple, g['edges'])) or \
                not V._bip_views_ok(H, g['l'], g['r'], {tuple(e) for e in g['edges']}):
            part.case('c16.nx', 'networkx_roundtrip', g, 'BipartiteGraph -> networkx -> BipartiteGraph changed the graph')
        n_ok += 1
    # networkx graphs that were NOT produced by to_networkx: any node order, either orientation of the edges,
    # 'bipartite' attribute as int or as string
    import networkx
    for g in gen.bip_box([(1, 1), (2, 1), (1, 2), (2, 2), (3, 2), (2, 3)]):
        l, r, E = g['l'], g['r'], [tuple(e) for e in g['edges']]
        if l * r == 6 and len(E) % 3:
            continue
        for order in (0, 1, 2):
            for flip in (0, 1):
                for as_str in (False, True):
                    left = [('L', u) for u in range(1, l + 1)]
                    right = [('R', v) for v in range(1, r + 1)]
                    nodes = left + right if order == 0 else (right + left if order == 1 else
                                                           [x for pr in zip(left, right) for x in pr] + left[len(right):] + right[len(left):])
                    N = networkx.Graph()
                    for nd in nodes:
                        side = 0 if nd[0] == 'L' else 1
                        N.add_node(nd, bipartite=str(side) if as_str else side)
                    for k, (u, v) in enumerate(E):
                        a, b = ('L', u), ('R', v)
                        if (k + flip) % 2:
                            a, b = b, a
                        N.add_edge(a, b)
                    case = {'type': 'nx-bipartite', 'l': l, 'r': r, 'edges': g['edges'], 'order': order, 'flip': flip, 'as_str': as_str}
                    try:
                        H = BipartiteGraph.from_networkx(N)
                        ok = (H.left_order(), H.right_order(), sorted(H.edges())) == (l, r, sorted(E))
                    except Exception as e:  # noqa
                        ok = False
                    if not ok:
                        part.case('c16.nx', 'networkx_roundtrip', case, 'BipartiteGraph.from_networkx misreads a hand-built networkx graph')
                    n_ok += 1
    part.counts['enumerated_networkx_roundtrips'] += n_ok


def replay(case):
    if case['harness'] == 'c16.nx':
        from cnfgen.graphs import Graph, DirectedGraph, BipartiteGraph
        p = case['input']
        if p.get('type') == 'nx-bipartite':
            import networkx
            l, r, E = p['l'], p['r'], [tuple(e) for e in p['edges']]
            left = [('L', u) for u in range(1, l + 1)]
            right = [('R', v) for v in range(1, r + 1)]
            nodes = left + right if p['order'] == 0 else (right + left if p['order'] == 1 else
                                                     [x for pr in zip(left, right) for x in pr] + left[len(right):] + right[len(left):])
            N = networkx.Graph()
            for nd in nodes:
                side = 0 if nd[0] == 'L' else 1
                N.add_node(nd, bipartite=str(side) if p['as_str'] else side)
            for k, (u, v) in enumerate(E):
                a, b = ('L', u), ('R', v)
                if (k + p['flip']) % 2:
                    a, b = b, a
                N.add_edge(a, b)
            try:
                H = BipartiteGraph.from_networkx(N)
                got = (H.left_order(), H.right_order(), sorted(H.edges()))
            except Exception as e:  # noqa
                return True, 'from_networkx raised %s: %s' % (type(e).__name__, e)
            return got != (l, r, sorted(E)), 'from_networkx gave %s' % (got,)
        if p.get('type') == 'nx-digraph':
            import networkx
            from ..xh import c16 as V
            N = networkx.DiGraph()
            N.add_nodes_from(range(p['n'], 0, -1))
            N.add_edges_from(reversed([tuple(e) for e in p['edges']]))
            try:
                H = getattr(DirectedGraph, p['conv'])(N)
            except Exception as e:  # noqa
                return True, '%s raised %s: %s' % (p['conv'], type(e).__name__, e)
            ok = V._digraph_views_ok(H, p['n'], {tuple(e) for e in p['edges']})
            return (not ok), 'edges %s is_dag %s' % (sorted(H.edges()), H.is_dag())
        if p.get('type') == 'simple':
            G = gen.mk_graph(p)
            H = Graph.from_networkx(G.to_networkx())
            return (H.number_of_vertices() != p['n'] or sorted(H.edges()) != sorted(map(tuple, p['edges']))), 'roundtrip edges %s' % sorted(H.edges())
        if p.get('type') == 'digraph':
            D = gen.mk_digraph(p)
            H = DirectedGraph.from_networkx(D.to_networkx())
            from ..xh import c16 as V
            return (H.number_of_vertices() != p['n'] or sorted(H.edges()) != sorted(map(tuple, p['edges'])) or
                    not V._digraph_views_ok(H, p['n'], {tuple(e) for e in p['edges']})), 'roundtrip edges %s is_dag %s' % (sorted(H.edges()), H.is_dag())
        B = gen.mk_bip(p)
        H = BipartiteGraph.from_networkx(B.to_networkx())
        return ((H.left_order(), H.right_order()) != (p['l'], p['r']) or sorted(H.edges()) != sorted(map(tuple, p['edges']))), 'roundtrip %s' % sorted(H.edges())
    return xengine.replay(case)


def run(tier):
    run = Run('C16', tier)
    run.explanation = (
        'Engine X in its ENUMERATIVE mode (stated as such): the graph classes hash and bisect their arguments, a C boundary at '
        'which every symbolic value is realised, so nothing can stay symbolic through the real code. CrossHair/z3 walk the finite '
        'domain by binary decisions and report "Confirmed over all paths" only when every point has been visited. Pre-state = '
        'every graph on n vertices built through the public API from symbolic edge bits (either insertion order); then one '
        'operation (add_edge, remove_edge, update_vertex_number, add_edges_from) with symbolic arguments from below 0 to above n, '
        'or histories of two operations from every pre-state and of three operations (n=2). After every step all public views '
        '(counts, sorted duplicate-free edge list, membership for every pair, sorted neighbour/predecessor/successor lists, degrees, '
        'is_dag) must equal a plain set-of-pairs model; illegal insertions must raise ValueError and change nothing. '
        'networkx conversion round trips are enumerated in-process without a solver and are not counted as decided.')
    run.bounds = ['Graph n<=%d one step; two-step histories n<=%d; three-step histories n=2 (thorough)' % ((3, 2) if tier == 'quick' else (4, 3)),
                  'DirectedGraph n<=%d incl. loops; BipartiteGraph sides up to (3,2)/(2,3); CompleteBipartiteGraph sides<=3' % (2 if tier == 'quick' else 3),
                  'arguments from -1/0 up to n+2']
    run.bounds += ['three observation schedules per history (views read before and after every step / after every step / only at the end)', 'add_edges_from given a list, tuple, generator, iterator, map, zip or dict keys', 'bulk insertion of three pairs into graphs on 4 vertices (3+3 bipartite), the illegal pair at any position: the valid prefix (or nothing) is inserted, every view agrees, and one more insertion still works', 'networkx sweep (plain enumeration): every view incl. is_dag after to_networkx/from_networkx on the whole box; hand-built networkx DiGraphs and bipartite graphs']
    run.outside = ['larger graphs, longer histories', 'symbolic reasoning about unknown vertex numbers (not reachable: hashing realises them)']
    run.assumptions = ['CrossHair exhaustiveness accounting; model = python set of pairs',
                       'add_edges_from with an illegal edge: either sequential semantics (earlier edges stay) or no effect is accepted']
    T = 240 if tier == 'quick' else 1500
    names = QUICK if tier == 'quick' else THOROUGH
    conds = [xengine.Cond('c16', n, T, symbolic=False) for n in names]
    part = xengine.run_conditions('c16.x', conds)
    from cnfgen import graphs
    xengine.encoded(part, graphs.Graph.add_edge, graphs.Graph.remove_edge, graphs.Graph.update_vertex_number, graphs.GraphEdgeList.__iter__,
                    graphs.DirectedGraph.add_edge, graphs.BipartiteGraph.add_edge, graphs.BaseGraph.add_edges_from,
                    graphs.CompleteBipartiteGraph.has_edge, graphs.Graph.from_networkx, graphs.BipartiteGraph.from_networkx)
    run.add(part, {'harness': 'c16.x', 'engine': 'X (enumerative)', 'conditions': len(conds)})
    p2 = Part()
    networkx_roundtrip(p2, tier)
    run.add(p2, {'harness': 'c16.nx', 'engine': 'plain enumeration (not solver-decided)'})
    return run.finish()
