"""C03 - contradictions and Ramsey-type benchmarks (engine S: per-schema entailment + equivalence)."""
import itertools

from ..sengine import SHarness, register, shard_fn, sat_and_count, _solver, _check, _row
from ..alg import PyAlg, enc_rows, model_to_list
from .. import bigpoints
from ..core import Run, run_shards
from .. import gen
from ..gen import Vars, mk_graph, mk_digraph, mk_bip, formula_class


def _cls(p):
    return formula_class(p.get('cls', 'CNF'))


def _E(p, key='edges'):
    return [tuple(e) for e in p[key]]


# ---------------------------------------------------------------- ordering
VARIANTS = [dict(total=False, smart=False, knuth=0), dict(total=True, smart=False, knuth=0),
            dict(total=False, smart=True, knuth=0), dict(total=False, smart=False, knuth=2),
            dict(total=False, smart=False, knuth=3), dict(total=True, smart=False, knuth=2),
            dict(total=True, smart=False, knuth=3)]


def _order_schemas(alg, V, n, nbrs, p):
    """The documented axioms of the (graph) ordering principle over x_{u,v} = 'u precedes v'."""
    smart, total, knuth, plant = p['smart'], p['total'], p['knuth'], p['plant']

    def X(u, v):
        if smart:
            return V('x_{{{}}}', '%d,%d' % (u, v)) if u < v else alg.Not(V('x_{{{}}}', '%d,%d' % (v, u)))
        return V('x_{{{}}}', '%d,%d' % (u, v))
    out = []
    out.append(('non-minimality', alg.And([alg.Or([X(u, v) for u in nbrs[v]]) for v in range(1, n + 1)
                                           if not (plant and v == n)])))
    tr = []
    for v1, v2, v3 in itertools.permutations(range(1, n + 1), 3):
        if knuth == 2 and not (v2 > v1 and v2 > v3):     # "(i<j)(j<k)->(i<k) only for j>i,k"
            continue
        if knuth == 3 and not (v3 > v1 and v3 > v2):     # "... only for k>i,j"
            continue
        tr.append(alg.Implies(alg.And(X(v1, v2), X(v2, v3)), X(v1, v3)))
    out.append(('transitivity', alg.And(tr)))
    if not smart:
        out.append(('antisymmetry', alg.And([alg.Not(alg.And(X(u, v), X(v, u))) for u, v in gen.pairs(n)])))
        if total:
            out.append(('totality', alg.And([alg.Or(X(u, v), X(v, u)) for u, v in gen.pairs(n)])))
    return out


def _order_exists(n, nbrs, plant):
    """Is there a (partial, equivalently total) order in which every vertex - except the last one
    when planted - has a neighbour below it?"""
    if n == 0:
        return True
    for perm in itertools.permutations(range(1, n + 1)):
        pos = {v: i for i, v in enumerate(perm)}
        if all((plant and v == n) or any(pos[u] < pos[v] for u in nbrs[v]) for v in range(1, n + 1)):
            return True
    return False


class GOP(SHarness):
    name = 'c03.gop'
    mode = 'schema'

    def points(self, tier):
        for g in gen.graph_box(4 if tier == 'quick' else 5):
            if g['n'] == 5 and len(g['edges']) % 2:
                continue
            for var in VARIANTS:
                for plant in (False, True):
                    if tier == 'quick' and g['n'] == 4 and (len(g['edges']) + var['knuth'] + plant) % 2:
                        continue
                    yield dict(g, plant=plant, **var)

    def build(self, p):
        from cnfgen.families.ordering import GraphOrderingPrinciple
        return GraphOrderingPrinciple(mk_graph(p), total=p['total'], smart=p['smart'], plant=p['plant'],
                                      knuth=p['knuth'], formula_class=_cls(p))

    @property
    def funcs(self):
        from cnfgen.families import ordering
        return (ordering.GraphOrderingPrinciple,)

    def _nbrs(self, p):
        nb = {v: [] for v in range(1, p['n'] + 1)}
        for u, v in _E(p):
            nb[u].append(v)
            nb[v].append(u)
        return nb

    def nvars(self, p):
        n = p['n']
        return n * (n - 1) // 2 if p['smart'] else n * (n - 1)

    def schemas(self, alg, p, F):
        return _order_schemas(alg, Vars(alg, F), p['n'], self._nbrs(p), p)

    def expect_unsat(self, p):
        if p['plant']:
            if p['knuth']:
                return None     # reduced transitivity + planted minimum: no documented criterion
            return not _order_exists(p['n'], self._nbrs(p), True)
        return p['n'] >= 1


class OP(GOP):
    name = 'c03.op'

    def points(self, tier):
        for n in range(0, 6 if tier == 'quick' else 8):
            for var in VARIANTS:
                for plant in (False, True):
                    yield dict(n=n, plant=plant, **var)

    def build(self, p):
        from cnfgen.families.ordering import OrderingPrinciple
        return OrderingPrinciple(p['n'], total=p['total'], smart=p['smart'], plant=p['plant'], knuth=p['knuth'],
                                 formula_class=_cls(p))

    @property
    def funcs(self):
        from cnfgen.families import ordering
        return (ordering.OrderingPrinciple, ordering.GraphOrderingPrinciple)

    def _nbrs(self, p):
        return {v: [u for u in range(1, p['n'] + 1) if u != v] for v in range(1, p['n'] + 1)}

    def expect_unsat(self, p):
        if p['plant']:
            return False if p['n'] >= 1 else False      # the last element may be the minimum: an order exists
        return p['n'] >= 1


# ------------------------------------------------------- pebbling / stone
def _preds(p):
    pr = {v: [] for v in range(1, p['n'] + 1)}
    su = {v: [] for v in range(1, p['n'] + 1)}
    for u, v in _E(p):
        pr[v].append(u)
        su[u].append(v)
    return pr, su


class Pebbling(SHarness):
    name = 'c03.peb'
    mode = 'schema'

    def points(self, tier):
        for g in gen.graph_box(4 if tier == 'quick' else 5):
            yield dict(g, cls='OPB' if len(g['edges']) % 4 == 0 else 'CNF')

    def build(self, p):
        from cnfgen.families.pebbling import PebblingFormula
        return PebblingFormula(mk_digraph(p), formula_class=_cls(p))

    @property
    def funcs(self):
        from cnfgen.families import pebbling
        return (pebbling.PebblingFormula,)

    def nvars(self, p):
        return p['n']

    def schemas(self, alg, p, F):
        V = Vars(alg, F)
        pr, su = _preds(p)
        X = lambda v: V('x({})', v)
        return [('source/propagation', alg.And([alg.Implies(alg.And([X(u) for u in pr[v]]), X(v)) for v in range(1, p['n'] + 1)])),
                ('sink', alg.And([alg.Not(X(v)) for v in range(1, p['n'] + 1) if not su[v]]))]

    def expect_unsat(self, p):
        return p['n'] >= 1


class Stone(SHarness):
    name = 'c03.stone'
    mode = 'schema'

    def points(self, tier):
        for g in gen.graph_box(3 if tier == 'quick' else 4):
            for s in range(0, 4 if tier != 'quick' or g['n'] < 3 else 3):
                if g['n'] == 4 and (s == 3 or len(g['edges']) % 2):
                    continue
                yield dict(g, stones=s, sparse=None)
        # sparse: every availability graph B(|V|, <=2)
        for g in gen.graph_box(3):
            if tier == 'quick' and g['n'] == 3 and len(g['edges']) != 2:
                continue
            for r in (0, 1, 2):
                for B in gen.all_bipartite(g['n'], r):
                    yield dict(g, stones=r, sparse=B)

    def build(self, p):
        from cnfgen.families.pebbling import StoneFormula, SparseStoneFormula
        D = mk_digraph(p)
        if p['sparse'] is None:
            return StoneFormula(D, p['stones'], formula_class=_cls(p))
        return SparseStoneFormula(D, mk_bip({'l': p['n'], 'r': p['stones'], 'edges': p['sparse']}), formula_class=_cls(p))

    @property
    def funcs(self):
        from cnfgen.families import pebbling
        return (pebbling.StoneFormula, pebbling.SparseStoneFormula)

    def _allowed(self, p):
        if p['sparse'] is None:
            return {v: list(range(1, p['stones'] + 1)) for v in range(1, p['n'] + 1)}
        return {v: sorted(j for (a, j) in map(tuple, p['sparse']) if a == v) for v in range(1, p['n'] + 1)}

    def nvars(self, p):
        return p['stones'] + sum(len(x) for x in self._allowed(p).values())

    def schemas(self, alg, p, F):
        V = Vars(alg, F)
        pr, su = _preds(p)
        al = self._allowed(p)
        P = lambda v, j: V('P_{{{},{}}}', v, j)
        R = lambda j: V('R_{{{}}}', j)
        every = alg.And([alg.Or([P(v, j) for j in al[v]]) for v in range(1, p['n'] + 1)])
        prop = []
        sink = []
        for v in range(1, p['n'] + 1):
            for j in al[v]:
                allred = alg.And([alg.Or([alg.And(P(u, s), R(s)) for s in al[u]]) for u in pr[v]])
                prop.append(alg.Implies(alg.And(P(v, j), allred), R(j)))
                if not su[v]:
                    sink.append(alg.Not(alg.And(P(v, j), R(j))))
        return [('every vertex has a stone', every), ('source/propagation', alg.And(prop)), ('sink is blue', alg.And(sink))]

    def expect_unsat(self, p):
        return p['n'] >= 1


# -------------------------------------------------------------------- CPLS
def _log2(x):
    b = 0
    while (1 << b) < x:
        b += 1
    return b


class CPLS(SHarness):
    name = 'c03.cpls'
    mode = 'schema'

    def points(self, tier):
        for a in range(1, 4):
            for b in (1, 2, 4):
                for c in (1, 2, 4):
                    if tier == 'quick' and a * b * c > 16:
                        continue
                    if a * b * b * c > 100:
                        continue
                    yield {'a': a, 'b': b, 'c': c}
        for b, c in ((3, 2), (2, 3), (6, 4), (0, 1)):
            yield {'a': 2, 'b': b, 'c': c}

    def build(self, p):
        from cnfgen.families.cpls import CPLSFormula
        return CPLSFormula(p['a'], p['b'], p['c'], formula_class=_cls(p))

    @property
    def funcs(self):
        from cnfgen.families import cpls
        return (cpls.CPLSFormula,)

    def _bad(self, p):
        return any(x < 1 or x & (x - 1) for x in (p['b'], p['c']))

    def refusal_ok(self, p):
        return self._bad(p)

    def must_refuse(self, p):
        return self._bad(p)

    def nvars(self, p):
        a, b, c = p['a'], p['b'], p['c']
        return a * b * c + a * b * _log2(b) + b * _log2(c)

    def schemas(self, alg, p, F):
        V = Vars(alg, F)
        a, b, c = p['a'], p['b'], p['c']
        G = lambda i, x, y: V('G_{}({},{})', i, x, y)
        lb, lc = _log2(b), _log2(c)
        fval = {(i, x): alg.WSum([(1 << j, V('(f_{{%d}}({}))_{{{}}}' % i, x, j)) for j in range(lb)])
                for i in range(1, a + 1) for x in range(1, b + 1)}
        uval = {x: alg.WSum([(1 << j, V('(u({}))_{{{}}}', x, j)) for j in range(lc)]) for x in range(1, b + 1)}
        ax1 = alg.And([alg.Not(G(1, 1, y)) for y in range(1, c + 1)])
        ax2 = alg.And([alg.Implies(alg.And(alg.Eq(fval[(i, x)], xx - 1), G(i + 1, xx, y)), G(i, x, y))
                       for i in range(1, a) for x in range(1, b + 1) for xx in range(1, b + 1) for y in range(1, c + 1)])
        ax3 = alg.And([alg.Implies(alg.Eq(uval[x], y - 1), G(a, x, y)) for x in range(1, b + 1) for y in range(1, c + 1)])
        return [('axiom 1', ax1), ('axiom 2', ax2), ('axiom 3', ax3)]

    def expect_unsat(self, p):
        return True


# ----------------------------------------------------------------- pitfall
def regular_graphs(v, d):
    for E in gen.all_graphs(v):
        deg = [0] * (v + 1)
        for a, b in E:
            deg[a] += 1
            deg[b] += 1
        if all(x == d for x in deg[1:]):
            yield E


class Pitfall(SHarness):
    """Unsatisfiable for every regular graph the generator may draw (networkx.random_regular_graph is
    replaced by a stub that returns the graph named in the parameters); the hard part must be k copies of
    one unsatisfiable Tseitin formula on that graph, each guarded by the safety variables of its copy."""
    name = 'c03.pitfall'
    mode = 'custom'

    def points(self, tier):
        vd = [(2, 1), (3, 2), (4, 2), (4, 3), (4, 1)]
        for v, d in vd:
            for E in regular_graphs(v, d):
                for ny in (2, 3):
                    for nz in (2, 3):
                        for k in (2, 4):
                            if tier == 'quick' and (k == 4 and (ny, nz) != (2, 2)):
                                continue
                            yield {'v': v, 'd': d, 'ny': ny, 'nz': nz, 'k': k, 'edges': E}
        for bad in ({'v': 3, 'd': 1}, {'v': 2, 'd': 3}, {'v': 4, 'd': 2, 'k': 3}):
            yield dict({'ny': 2, 'nz': 2, 'k': 2, 'edges': []}, **bad)

    def build(self, p):
        import networkx
        from cnfgen.families import pitfall
        E = _E(p)

        def fake_random_regular_graph(d, n, seed=None):
            G = networkx.Graph()
            G.add_nodes_from(range(n))
            G.add_edges_from((a - 1, b - 1) for a, b in E)
            return G
        orig = networkx.random_regular_graph
        networkx.random_regular_graph = fake_random_regular_graph
        try:
            return pitfall.PitfallFormula(p['v'], p['d'], p['ny'], p['nz'], p['k'], formula_class=_cls(p))
        finally:
            networkx.random_regular_graph = orig

    @property
    def funcs(self):
        from cnfgen.families import pitfall
        return (pitfall.PitfallFormula,)

    def _bad(self, p):
        return p['d'] > p['v'] or p['v'] * p['d'] % 2 == 1 or p['k'] % 2 == 1

    def refusal_ok(self, p):
        return self._bad(p)

    def must_refuse(self, p):
        return self._bad(p)

    def nvars(self, p):
        nx = len(p['edges'])
        k = p['k']
        return k * nx + k * p['ny'] + k * p['nz'] + k * (nx + p['nz']) + 3 * k

    def _hard(self, alg, p, F, j, charges):
        V = Vars(alg, F)
        E = _E(p)
        ts = alg.And([alg.Iff(alg.Xor([V('e[%d]_{{{},{}}}' % j, a, b) for (a, b) in E if w in (a, b)]), bool(charges[w - 1]))
                      for w in range(1, p['v'] + 1)])
        return alg.Or([ts] + [V('z_{{{},{}}}', j, i) for i in range(1, p['nz'] + 1)])

    def _hard_rows(self, p, F, rows, j):
        m = gen.label_map(F)
        xs = {m['e[%d]_{%d,%d}' % (j, a, b)] for (a, b) in _E(p)}
        zs = {m['z_{%d,%d}' % (j, i)] for i in range(1, p['nz'] + 1)}
        sel = []
        for i, r in enumerate(rows):
            vs = {abs(l) for l in r}
            if zs <= set(l for l in r if l > 0) and vs <= xs | zs:
                sel.append(i)
        return sel

    def _charge_candidates(self, p):
        comps = gen.components(p['v'], _E(p))
        for ch in itertools.product([0, 1], repeat=p['v']):
            if any(sum(ch[v - 1] for v in comp) % 2 for comp in comps):   # an unsatisfiable Tseitin formula
                yield ch

    def check(self, alg, p, F, n, rows, opb, enc, part):
        z3 = alg.z3
        s = _solver(alg)
        s.add(enc)
        r = _check(s, part)
        part.counts['formula_' + r] += 1
        if r == 'sat':
            part.case(self.name, 'satisfiability', dict(p, _assignment=model_to_list(alg, s.model(), n), _expected_sat=False),
                      'the Pitfall formula is documented as a contradiction but has a model')
            return
        if r != 'unsat':
            part.errors.append('%s %s unknown' % (self.name, p))
            return
        rowsx = rows if not opb else None
        if rowsx is None:
            return
        for j in range(1, p['k'] + 1):
            sel = self._hard_rows(p, F, rows, j)
            hard = alg.And([_row(alg, rows[i], opb) for i in sel])
            wits = []
            ok = False
            for ch in self._charge_candidates(p):
                s = _solver(alg)
                s.add(z3.Xor(hard, self._hard(alg, p, F, j, ch)))
                r = _check(s, part)
                if r == 'unsat':
                    ok = True
                    break
                if r == 'sat':
                    wits.append(model_to_list(alg, s.model(), n))
                else:
                    part.errors.append('%s %s unknown' % (self.name, p))
                    return
            if not ok:
                part.case(self.name, 'hard_part', dict(p, _copy=j, _assignments=wits),
                          'copy %d of the hard part is not (an unsatisfiable Tseitin formula on the graph) OR (safety variables of the copy)' % j)
                return

    def replay_custom(self, case, p, F, n, rows, opb):
        inp = case['input']
        if case['kind'] == 'hard_part':
            j = inp['_copy']
            sel = self._hard_rows(p, F, rows, j)
            for ch, a in zip(self._charge_candidates(p), inp['_assignments']):
                alg = PyAlg(a)
                hv = all(_row(alg, rows[i], opb) for i in sel)
                if hv == bool(self._hard(alg, p, F, j, ch)):
                    return False, 'charge %s agrees on its witness' % (ch,)
            return True, 'copy %d: for each of the %d odd charge vectors there is an assignment on which the %d hard-part clauses and "Tseitin or safety" differ' % (
                j, len(inp['_assignments']), len(sel))
        return False, 'unknown kind'


# ------------------------------------------------- ramsey / vdw / ptn
RAMSEY = {(1, 1): 1, (1, 2): 1, (1, 3): 1, (1, 4): 1, (2, 2): 2, (2, 3): 3, (2, 4): 4, (3, 3): 6, (3, 4): 9, (4, 4): 18}


class RamseyNumber(SHarness):
    name = 'c03.ram'

    def points(self, tier):
        for s in range(1, 5):
            for k in range(1, 5):
                for N in range(0, 7 if tier == 'quick' else 8):
                    yield {'s': s, 'k': k, 'N': N, 'cls': 'OPB' if (s + k + N) % 4 == 0 else 'CNF'}

    def build(self, p):
        from cnfgen.families.ramsey import RamseyNumber
        return RamseyNumber(p['s'], p['k'], p['N'], formula_class=_cls(p))

    @property
    def funcs(self):
        from cnfgen.families import ramsey
        return (ramsey.RamseyNumber,)

    def nvars(self, p):
        return p['N'] * (p['N'] - 1) // 2

    def spec(self, alg, p, F):
        V = Vars(alg, F)
        N = p['N']
        E = lambda u, v: V('e_{{{}}}', '%d,%d' % (min(u, v), max(u, v)))
        cs = []
        for S in itertools.combinations(range(1, N + 1), p['s']):      # not an independent set
            cs.append(alg.Or([E(u, v) for u, v in itertools.combinations(S, 2)]))
        for S in itertools.combinations(range(1, N + 1), p['k']):      # not a clique
            cs.append(alg.Or([alg.Not(E(u, v)) for u, v in itertools.combinations(S, 2)]))
        return alg.And(cs)

    def sat_expected(self, p):
        s, k = sorted((p['s'], p['k']))
        return RAMSEY[(s, k)] > p['N']


def _aps(N, k):
    """All arithmetic progressions i, i+d, ..., i+(k-1)d inside 1..N with d >= 1 (length 1: the single numbers)."""
    if k == 1:
        return [[i] for i in range(1, N + 1)]
    return [[i + d * t for t in range(k)] for d in range(1, N + 1) for i in range(1, N + 1) if i + d * (k - 1) <= N]


class VdW(SHarness):
    name = 'c03.vdw'

    def points(self, tier):
        top = 9 if tier == 'quick' else 13
        for N in range(0, top + 1):
            for ks in itertools.chain(itertools.product(range(1, 5), repeat=2), itertools.product(range(1, 4), repeat=3)):
                if len(ks) == 3 and (tier == 'quick' and N > 7):
                    continue
                yield {'N': N, 'ks': list(ks), 'cls': 'OPB' if (N + sum(ks)) % 5 == 0 else 'CNF'}

    def build(self, p):
        from cnfgen.families.ramsey import VanDerWaerden
        return VanDerWaerden(p['N'], *p['ks'], formula_class=_cls(p))

    @property
    def funcs(self):
        from cnfgen.families import ramsey
        return (ramsey.VanDerWaerden, ramsey._vdw_ap_generator)

    def nvars(self, p):
        return p['N'] if len(p['ks']) == 2 else p['N'] * len(p['ks'])

    def spec_alternatives(self, alg, p, F):
        V = Vars(alg, F)
        N, K = p['N'], p['ks']
        if len(K) == 2:
            # one variable per number; which truth value stands for colour 1 is not documented: accept either
            out = []
            for pol in (False, True):
                cs = []
                for c, k in enumerate(K):
                    for ap in _aps(N, k):
                        lits = [V('x_{{{}}}', i) for i in ap]
                        mono = alg.And(lits) if (pol == (c == 0)) else alg.And([alg.Not(l) for l in lits])
                        cs.append(alg.Not(mono))
                out.append(alg.And(cs))
            return out
        cs = []
        for i in range(1, N + 1):
            cs.append(alg.Exactly([V('x_{{{},{}}}', i, c) for c in range(1, len(K) + 1)], 1))
        for c, k in enumerate(K, start=1):
            for ap in _aps(N, k):
                cs.append(alg.Not(alg.And([V('x_{{{},{}}}', i, c) for i in ap])))
        return [alg.And(cs)]

    def sat_expected(self, p):
        # a colouring avoiding the progressions exists?  (plain search, independent of the encoding)
        N, K = p['N'], p['ks']
        aps = [_aps(N, k) for k in K]
        if N > 9:
            return None
        for col in itertools.product(range(len(K)), repeat=N):
            if all(any(col[i - 1] != c for i in ap) for c in range(len(K)) for ap in aps[c]):
                return True
        return False


class PTN(SHarness):
    name = 'c03.ptn'

    def points(self, tier):
        for N in (list(range(0, 30)) + [39, 40, 41, 50, 60] if tier == 'quick' else list(range(0, 131, 1)) + [200, 300, 400]):
            yield {'N': N}

    def build(self, p):
        from cnfgen.families.ramsey import PythagoreanTriples
        return PythagoreanTriples(p['N'], formula_class=_cls(p))

    @property
    def funcs(self):
        from cnfgen.families import ramsey
        return (ramsey.PythagoreanTriples,)

    def nvars(self, p):
        return p['N']

    def spec(self, alg, p, F):
        V = Vars(alg, F)
        N = p['N']
        sq = {z * z: z for z in range(1, N + 1)}
        cs = []
        for x in range(1, N + 1):
            for y in range(x + 1, N + 1):
                z = sq.get(x * x + y * y)
                if z:
                    t = [V('v({})', x), V('v({})', y), V('v({})', z)]
                    cs.append(alg.Not(alg.Or(alg.And(t), alg.And([alg.Not(l) for l in t]))))
        return alg.And(cs)

    def sat_expected(self, p):
        return True if p['N'] <= 400 else None     # known: colourable up to 7824


HARNESSES = [register(h()) for h in (GOP, OP, Pebbling, Stone, CPLS, Pitfall, RamseyNumber, VdW, PTN)]


def replay(case):
    if case['harness'].endswith('.t'):
        from .. import tkernels
        return tkernels.replay_case(case)
    from ..sengine import replay as sreplay
    return sreplay(case)


def run(tier):
    run = Run('C03', tier)
    run.explanation = (
        'Engine S. Contradictions are decided by per-axiom-schema entailment with z3: unsat(Enc(F)); none extra: every '
        'clause is entailed by one documented schema (query schema AND NOT clause unsat); none missing: for every schema '
        'the clauses that follow from it together entail it. Schemas are written from the docstrings/help texts over the '
        'documented variable names (ordering: non-minimality, transitivity incl. the documented Knuth subsets, antisymmetry, '
        'totality; pebbling/stone: source+propagation, sink, a stone everywhere; CPLS: axioms 1-3 over the binary-decoded '
        'functions). The planted ordering principle is compared with the existence of an order found by plain search. '
        'Pitfall: networkx.random_regular_graph is stubbed to return EVERY d-regular graph on v labelled vertices in turn; '
        'z3 decides unsat and that each copy of the hard part is (an unsatisfiable Tseitin formula on that graph) OR (safety '
        'variables). Ramsey / van der Waerden / Pythagorean formulas: unsat(Enc xor Spec(colouring)) plus the known '
        'Ramsey numbers / a plain search for a colouring. A one-literal / one-row mutant of the encoding must be rejected '
        '(oracle self-test).')
    run.bounds = ['op: N<=%d; gop: all graphs on <=%d vertices; 7 flag variants x plant' % ((5, 4) if tier == 'quick' else (6, 5)),
                  'peb: all DAGs (edges low->high) on <=%d vertices; stone: DAGs on <=%d vertices, <=3 stones, sparse: every availability graph with <=2 stones on DAGs with <=3 vertices' % ((4, 3) if tier == 'quick' else (5, 4)),
                  'cpls: a<=3, b,c in {1,2,4} (size-capped), non powers of two must be refused',
                  'pitfall: every regular graph for (v,d) in (2,1),(3,2),(4,2),(4,3),(4,1); ny,nz in {2,3}; k in {2,4}',
                  'ram: s,k<=4, N<=%d; vdw: N<=%d, 2 colours k<=4 and 3 colours k<=3 incl. length 1; ptn: N<=%d' % ((6, 9, 60) if tier == 'quick' else (7, 11, 400))]
    run.bounds += ["every fifth graph point is repeated with the graph given as a networkx object (reversed node/edge order, int and str 'bipartite' attributes), as a graph grown by update_vertex_number (by 2, by 3, from empty) and as a graph object with a past (refused insertions, refused bulk insertion, earlier use with one edge elsewhere)", 'size-threshold points of vlib/bigpoints.py (parameters around 10/11, 16/17, 32/33; satisfiable instances; equivalence only, 15 s solver budget, undecided ones counted as big_inconclusive)', 'one third of the points is built a second time, one third again after three calls with other arguments: all builds must agree']
    run.outside = ['larger parameters', 'pipe/tail/pitfall gadgets of the Pitfall formula are covered only by the global unsat verdict (their documentation is the paper)',
                   'satisfiability criterion for planted Knuth variants (no documented criterion)']
    run.assumptions = ['variable meaning is taken from the names reported by all_variable_labels()', 'z3 is sound',
                       'networkx.random_regular_graph returns a d-regular simple graph on nodes 0..v-1 (stub contract)']
    for h in HARNESSES:
        items = [(h.name, p) for p in h.points(tier)]
        items += [(h.name, p) for p in bigpoints.big_points(h.name, tier)]
        items += gen.with_networkx_inputs(items)
        part = run_shards(shard_fn, items)
        if part.counts.get('selftest_mutants', 0) and not part.counts.get('selftest_distinguished', 0):
            part.errors.append('%s: oracle self-test distinguished none of the mutants' % h.name)
        run.add(part, {'harness': h.name, 'points': len(items)})
    from ..core import Part
    from .. import tkernels
    pt = Part()
    tkernels.run_all(pt, tier, ('vdw',), 'c03.t')
    run.add(pt, {'harness': 'c03.t', 'engine': 'T: loop bounds of _vdw_ap_generator <=> definition of a progression, for all N and symbolic k>=2'})
    return run.finish()
