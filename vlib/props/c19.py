"""C19 - transformations leave their inputs untouched and record provenance (engine X)."""
import os
from ..core import Run
from .. import xengine


def replay(case):
    return xengine.replay(case)


def run(tier):
    names = sorted(xengine._func_lines(os.path.join(xengine.XH_DIR, 'c19.py')))
    pre = 'h_q_tr_' if tier == 'quick' else 'h_e_tr_'
    tr = [n for n in names if n.startswith(pre)]
    run = Run('C19', tier)
    run.explanation = (
        'Engine X. Enumerative part: for input formulas taken from the exhaustive small-CNF set of C05 (with and without named '
        'variables and a custom header entry), every transformation of a 62-entry list (all substitutions with arity <=3, thresholds, '
        'ite, flip, lifting, shuffle, xor/majority compression) optionally followed by a second one: a deep snapshot of the input '
        '(variable count, clauses, names, header items, DIMACS text) taken before equals the snapshot after; every step returns a new '
        'object and leaves its own input untouched; the result keeps the description (Shuffle appends " (reshuffled)") and all earlier '
        'header entries and gains exactly the entries "transformation 1..t", which also appear in the comment header of the output; '
        'mutating the result afterwards (adding a clause, editing header entries, appending to a clause obtained from it) does not '
        'change the input nor the intermediate formula; the compression graph is unchanged. Symbolic part: add_linear (six operators), '
        'cardinality_*, add_parity, majority/minority builders and add_constraint on CNF and OPB with symbolic polarities and an UNBOUNDED '
        'symbolic constant leave the list/tuple/row object passed by the caller exactly as it was. TseitinFormula charges, bipartite_shift '
        'patterns (also the shared default list) and every graph passed to a graph-taking generator keep all their public views.')
    run.bounds = ['inputs: %s of the 303 small CNFs' % ('one in eight' if tier == 'quick' else 'all'), '62 first transformations x (none + 7 second ones)', 'long chains of 1..23 cheap steps (flip / or 1 / shuffle fixed / xor 1) on 10 inputs', 'builders: 3 literals, constant unbounded', 'graphs: all simple graphs / dags on <=4 vertices (6 edge bits)']
    run.bounds += ['planted_assignments lists of different lengths/orders under fallback-forcing streams (object identities compared)', 'networkx arguments with unsortable mixed labels', 'the input is extended after the call: the result already returned does not change']
    run.outside = ['larger formulas, chains longer than two', 'the "none" transformation (documented to return the same object)']
    run.assumptions = ['CrossHair models of list/tuple mutation']
    T = 300 if tier == 'quick' else 1200
    conds = [xengine.Cond('c19', n, T, symbolic=False) for n in tr] + [xengine.Cond('c19', 'h_e_other', T, symbolic=False), xengine.Cond('c19', 'h_e_longchain', T, symbolic=False), xengine.Cond('c19', 'h_e_nx_args', T, symbolic=False), xengine.Cond('c19', 'h_e_planted', T, symbolic=False)] + \
            [xengine.Cond('c19', n, T, symbolic=True) for n in ('h_s_builder_cnf', 'h_s_builder_opb', 'h_s_constraint_row')]
    part = xengine.run_conditions('c19.x', conds)
    from cnfgen.transformations import substitutions as S, shuffle
    from cnfgen.formula import linear, baseopb, basecnf
    from cnfgen import graphs
    xengine.encoded(part, getattr(S, 'add_description', None), S.apply_substitution, S.XorSubstitution, S.FormulaLifting, S.VariableCompression, S.FlipPolarity,
                    shuffle.Shuffle, linear.CNFLinear.add_linear, baseopb.BaseOPB.cardinality_neq, baseopb.BaseOPB.add_constraint, baseopb.normalize_opb,
                    basecnf.BaseCNF.add_clause, basecnf.BaseCNF.__getitem__, graphs.bipartite_shift)
    run.add(part, {'harness': 'c19.x', 'engine': 'X', 'conditions': len(conds)})
    return run.finish()
