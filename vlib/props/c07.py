"""C07 - output is a function of the command line and the seed only (engine X, self-composition with symbolic nondeterminism)."""
from ..core import Run
from .. import xengine


def _proc(args):
    tool, argv, seed, hs = args[:4]
    cwd = (args[4] if len(args) > 4 else None) or '/tmp'
    clock = args[5] if len(args) > 5 else None
    import subprocess, os
    from ..core import REPO
    env = dict(os.environ, PYTHONHASHSEED=str(hs), PYTHONPATH=REPO, PYTHONWARNINGS='ignore')
    pre = ''
    if clock is not None:
        # the child's clock is replaced BEFORE cnfgen is imported: datetime.date/datetime classes and the time functions
        pre = ("import datetime as _d, time as _t\n"
               "_NOW = _d.datetime(%d, %d, %d, %d, 30, 0)\n"
               "class _Date(_d.date):\n"
               "    @classmethod\n"
               "    def today(cls): return cls(_NOW.year, _NOW.month, _NOW.day)\n"
               "class _DT(_d.datetime):\n"
               "    @classmethod\n"
               "    def now(cls, tz=None): return cls(_NOW.year, _NOW.month, _NOW.day, _NOW.hour, 30, 0)\n"
               "    @classmethod\n"
               "    def utcnow(cls): return cls.now()\n"
               "    @classmethod\n"
               "    def today(cls): return cls.now()\n"
               "_d.date = _Date; _d.datetime = _DT\n"
               "_E = (_NOW - _d.datetime.__mro__[1](1970, 1, 1)).total_seconds()\n"
               "_t.time = lambda: _E\n"
               "_t.time_ns = lambda: int(_E * 10**9)\n"
               "_st = _NOW.timetuple()\n"
               "_t.localtime = lambda *a: _st\n"
               "_t.gmtime = lambda *a: _st\n"
               "_t.strftime = (lambda f, t=None, _o=_t.strftime: _o(f, _st if t is None else t))\n"
               "_t.ctime = lambda *a: _NOW.ctime()\n"
               "_t.asctime = lambda *a: _NOW.ctime()\n" % clock)
    code = pre + ("import sys,importlib;importlib.import_module('cnfgen.clitools.%s');"
            "sys.argv=%r;sys.modules['cnfgen.clitools.%s'].main()" % (tool, [tool] + ([] if tool == 'kthlist2pebbling' else ['--seed', str(seed)]) + [str(a) for a in argv], tool))
    for budget in (300, 1200):                 # a loaded machine must not turn into a verdict: one generous retry
        try:
            r = subprocess.run(['/venv/bin/python', '-W', 'ignore', '-c', code], capture_output=True, text=True, env=env, cwd=cwd, timeout=budget)
            return r.returncode, r.stdout
        except subprocess.TimeoutExpired:
            continue
    return 'timeout', ''


def process_sweep(part, commands):
    """Auxiliary, NOT solver-based and not counted as decided: every command line is started in fresh interpreter
    processes with three different PYTHONHASHSEED values and the outputs are compared (hash randomisation cannot
    be made symbolic; this is the concrete sweep the design announces for it)."""
    import multiprocessing
    jobs = [(t, argv, 1, hs) for (t, argv) in commands for hs in (0, 1, 4242)]
    with multiprocessing.get_context('fork').Pool(16) as pool:
        res = pool.map(_proc, jobs)
    for i, (t, argv) in enumerate(commands):
        outs = {res[3 * i + j] for j in range(3)}
        part.counts['process_sweep_commands'] += 1
        if any(o[0] == 'timeout' for o in outs):
            part.errors.append('process sweep: `%s %s` did not finish within 20 minutes' % (t, ' '.join(str(a) for a in argv)))
            continue
        if len(outs) != 1:
            part.case('c07.proc', 'hashseed_dependence', {'tool': t, 'argv': [str(a) for a in argv]},
                      'output of `%s --seed 1 %s` differs between processes with different PYTHONHASHSEED' % (t, ' '.join(str(a) for a in argv)))


def clock_sweep(part, commands):
    """Auxiliary, NOT solver-based: the same command line in fresh processes whose clock (datetime.date/datetime, time.*) is
    set to 31 Dec 2030 23:30 and to 1 Jan 2031 15:30; the outputs must be identical."""
    import multiprocessing
    clocks = [(2030, 12, 31, 23), (2031, 1, 1, 15)]
    jobs = [(t, argv, 1, 0, None, ck) for (t, argv) in commands for ck in clocks]
    with multiprocessing.get_context('fork').Pool(16) as pool:
        res = pool.map(_proc, jobs)
    for i, (t, argv) in enumerate(commands):
        part.counts['clock_sweep_commands'] += 1
        if 'timeout' in (res[2 * i][0], res[2 * i + 1][0]):
            part.errors.append('clock sweep: `%s %s` did not finish' % (t, ' '.join(str(a) for a in argv)))
        elif res[2 * i] != res[2 * i + 1] or res[2 * i][0] != 0:
            part.case('c07.proc', 'clock_dependence', {'tool': t, 'argv': [str(a) for a in argv]},
                      'output of `%s --seed 1 %s` differs between two processes whose clocks show different dates (or the run failed)' % (t, ' '.join(str(a) for a in argv)))


def cwd_sweep(part, commands):
    """Auxiliary, NOT solver-based: command lines naming graph / formula files by RELATIVE path are run in fresh processes
    from two different directories holding identical copies of the files; the outputs must be identical."""
    import multiprocessing, os, shutil, tempfile
    from ..xh import c07 as H
    dirs = [tempfile.mkdtemp(prefix='verif_c07_a_'), tempfile.mkdtemp(prefix='verif_c07_b_', dir=tempfile.mkdtemp(prefix='verif_c07_deeper_'))]
    try:
        for d in dirs:
            for f in os.listdir(H.DATA):
                shutil.copy(os.path.join(H.DATA, f), os.path.join(d, f))
        rel = [(t, [os.path.basename(a) if isinstance(a, str) and a.startswith(H.DATA) else a for a in argv]) for (t, argv) in commands]
        jobs = [(t, argv, 1, 0, d) for (t, argv) in rel for d in dirs]
        with multiprocessing.get_context('fork').Pool(16) as pool:
            res = pool.map(_proc, jobs)
        for i, (t, argv) in enumerate(rel):
            part.counts['cwd_sweep_commands'] += 1
            if 'timeout' in (res[2 * i][0], res[2 * i + 1][0]):
                part.errors.append('cwd sweep: `%s %s` did not finish within 20 minutes' % (t, ' '.join(str(a) for a in argv)))
                continue
            if res[2 * i] != res[2 * i + 1] or res[2 * i][0] != 0:
                part.case('c07.proc', 'cwd_dependence', {'tool': t, 'argv': [str(a) for a in argv]},
                          'output of `%s --seed 1 %s` differs between two working directories with identical files (or the run failed)' % (t, ' '.join(str(a) for a in argv)))
    finally:
        for d in dirs:
            shutil.rmtree(d, ignore_errors=True)
        shutil.rmtree(os.path.dirname(dirs[1]), ignore_errors=True)


def replay(case):
    if case['harness'] == 'c07.proc' and case['kind'] == 'clock_dependence':
        from ..core import Part
        p = case['input']
        tmp = Part()
        clock_sweep(tmp, [(p['tool'], p['argv'])])
        return bool(tmp.cases), 'outputs under two clock settings differ: %s' % bool(tmp.cases)
    if case['harness'] == 'c07.proc' and case['kind'] == 'cwd_dependence':
        from ..core import Part
        p = case['input']
        from ..xh import c07 as H
        import os
        argv = [os.path.join(H.DATA, a) if isinstance(a, str) and os.path.exists(os.path.join(H.DATA, a)) else a for a in p['argv']]
        tmp = Part()
        cwd_sweep(tmp, [(p['tool'], argv)])
        return bool(tmp.cases), 'outputs from two directories differ: %s' % bool(tmp.cases)
    if case['harness'] == 'c07.proc':
        p = case['input']
        outs = {_proc((p['tool'], p['argv'], 1, hs)) for hs in (0, 1, 4242, 7, 99)}
        return len(outs) != 1, '%d distinct outputs over 5 PYTHONHASHSEED values' % len(outs)
    return xengine.replay(case)


def run(tier):
    from ..xh import c07 as H
    run = Run('C07', tier)
    run.exhaustive = False     # contains sampled parts (seeds / draw streams / a command table), see explanation
    run.explanation = (
        'Engine X, non-interference by self-composition. Each command line (41 of them over cnfgen, pbgen and cnfshuffle: every '
        'random formula family, every random graph construction and modifier - gnp, gnp t-partite, gnm, gnd, glrp, glrm on both sides '
        'of its sparse/dense switch, glrd, regular, plantclique, plantbiclique, addedges, splitedges - random transformations, the three '
        'output formats) is run twice with the same --seed in {0, 1, -1, 2^31} inside environments whose nondeterminism is solver-chosen: '
        'every random draw made BEFORE random.seed(x) (module functions and the shared instance networkx uses) is a fresh symbolic '
        'value, draws after seeding come from a private random.Random(x); the default repr of the cnfgen graph classes contains a fresh '
        'symbolic token. The two complete outputs (header included) must be byte-identical for all values; correct code is concrete '
        'on both runs (one path per seed), a leak is refuted with the two distinguishing values. Library generators with a seed= '
        'argument are called twice the same way.')
    run.bounds = ['%d command lines x 4 seeds; 9 library generators x 4 seeds' % len(H.COMMANDS), 'graphs and formulas with <=8 vertices / variables per side', '<=40 unseeded draws per run']
    run.bounds += ['24 library calls with non-default options, each twice on equal but distinct argument objects (complete output incl. header)', '9 dense RandomKCNF/RandomKXOR requests x 5 deterministic non-MT streams after seeding, same seed twice with another call in between', 'auxiliary process sweeps (not solver-decided): 55 command lines x 3 PYTHONHASHSEED values incl. 8 reading graph files with named vertices; 16 file-reading command lines from two working directories']
    run.outside = ['hash randomisation (PYTHONHASHSEED) and the working directory are properties of the interpreter process, not of any function that can be executed symbolically (auxiliary concrete sweeps over three PYTHONHASHSEED values and two working directories are run and reported separately); '
                   'the version string in the header is computed by `git describe` in the current directory (observation, not decided)',
                   'the Mersenne Twister itself: "same seed => same stream" is assumed', 'command lines outside the table']
    run.assumptions = ['stub: module random (functions and random._inst) -> two-phase fake (arbitrary before seed, random.Random(seed) after)',
                       'stub: default __repr__ of cnfgen graph classes -> text with a fresh symbolic token']
    T = 200 if tier == 'quick' else 600
    conds = [xengine.Cond('c07', 'h_e_cmd_%d' % i, T, symbolic=True, note='%s %s' % (t, ' '.join(str(a) for a in argv)))
             for i, (t, argv) in enumerate(H.COMMANDS)]
    conds.append(xengine.Cond('c07', 'h_e_lib', T, symbolic=True))
    conds.append(xengine.Cond('c07', 'h_e_seed_spelling', T, symbolic=True, note='6 command lines with random graph arguments x 8 spellings / repetitions of the seed option'))
    conds.append(xengine.Cond('c07', 'h_e_lib_headers', T, symbolic=True, note='24 library calls with non-default options, twice on equal but distinct objects'))
    conds.append(xengine.Cond('c07', 'h_e_lib_stream', T, symbolic=False, note='seeded draws from five deterministic non-MT streams; dense requests'))
    part = xengine.run_conditions('c07.x', conds)
    import sys
    xengine.encoded(part, sys.modules['cnfgen.clitools.cnfgen'].cli, sys.modules['cnfgen.clitools.pbgen'].cli,
                    sys.modules['cnfgen.clitools.cnfshuffle'].cli, sys.modules['cnfgen.clitools.cnfgen'].setup_command_line_parsers)
    run.add(part, {'harness': 'c07.x', 'engine': 'X (self-composition)', 'conditions': len(conds)})
    from ..core import Part
    p2 = Part()
    process_sweep(p2, H.COMMANDS + H.NAMED_COMMANDS)
    cwd_sweep(p2, H.NAMED_COMMANDS + H.FILE_COMMANDS)
    clock_sweep(p2, H.COMMANDS[::4] + H.FILE_COMMANDS)
    run.add(p2, {'harness': 'c07.proc', 'engine': 'plain process sweep over PYTHONHASHSEED (auxiliary, not solver-decided)'})
    return run.finish()
