"""C07 - output is a function of the command line and the seed only (engine X, self-composition with symbolic nondeterminism)."""
from ..core import Run
from .. import xengine


def replay(case):
    return xengine.replay(case)


def run(tier):
    from ..xh import c07 as H
    run = Run('C07', tier)
    run.explanation = (
        'Engine X, non-interference by self-composition. Each command line (41 of them over cnfgen, pbgen and cnfshuffle: every '
        'random formula family, every random graph construction and modifier - gnp, gnp t-partite, gnm, gnd, glrp, glrm on both sides '
        'of its sparse/dense switch, glrd, regular, plantclique, plantbiclique, addedges, splitedges - random transformations, the three '
        'output formats) is run twice with the same --seed in {0, 1, -1, 2^31} inside environments whose nondeterminism is solver-chosen: '
        'every random draw made BEFORE random.seed(x) (module functions and the shared instance networkx uses) is a fresh symbolic '
        'value, draws after seeding come from a private random.Random(x); the default repr of the cnfgen graph classes contains a fresh '
        'symbolic token. The two complete outputs (header included) must be byte-identical for all values; correct code is concrete '
        'on both runs (one path per seed), a leak is refuted with the two distinguishing values. Library generators with a seed= '
        'argument are called twice the same way.')
    run.bounds = ['%d command lines x 4 seeds; 9 library generators x 4 seeds' % len(H.COMMANDS), 'graphs and formulas with <=8 vertices / variables per side', '<=40 unseeded draws per run']
    run.outside = ['hash randomisation (PYTHONHASHSEED) and the working directory are properties of the interpreter process, not of any function that can be executed symbolically; '
                   'the version string in the header is computed by `git describe` in the current directory (observation, not decided)',
                   'the Mersenne Twister itself: "same seed => same stream" is assumed', 'command lines outside the table']
    run.assumptions = ['stub: module random (functions and random._inst) -> two-phase fake (arbitrary before seed, random.Random(seed) after)',
                       'stub: default __repr__ of cnfgen graph classes -> text with a fresh symbolic token']
    T = 200 if tier == 'quick' else 600
    conds = [xengine.Cond('c07', 'h_e_cmd_%d' % i, T, symbolic=True, note='%s %s' % (t, ' '.join(str(a) for a in argv)))
             for i, (t, argv) in enumerate(H.COMMANDS)]
    conds.append(xengine.Cond('c07', 'h_e_lib', T, symbolic=True))
    part = xengine.run_conditions('c07.x', conds)
    import sys
    xengine.encoded(part, sys.modules['cnfgen.clitools.cnfgen'].cli, sys.modules['cnfgen.clitools.pbgen'].cli,
                    sys.modules['cnfgen.clitools.cnfshuffle'].cli, sys.modules['cnfgen.clitools.cnfgen'].setup_command_line_parsers)
    run.add(part, {'harness': 'c07.x', 'engine': 'X (self-composition)', 'conditions': len(conds)})
    return run.finish()
